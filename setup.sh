#!/bin/sh
# Build the fact extractor (clang 14 libTooling) from files on disk only.  Offline.
set -e
cd "$(dirname "$0")"
mkdir -p build
if [ ! -x build/ipqfacts ] || [ tools/ipqfacts.cc -nt build/ipqfacts ]; then
  clang++ $(llvm-config-14 --cxxflags) -fno-rtti -O1 tools/ipqfacts.cc -o build/ipqfacts.tmp \
     /usr/lib/llvm-14/lib/libclang-cpp.so.14 /usr/lib/llvm-14/lib/libLLVM-14.so
  mv build/ipqfacts.tmp build/ipqfacts
fi
echo "ipqfacts built: $(ls -la build/ipqfacts)"
