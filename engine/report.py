"""S3: result collection, known findings, evidence and exit codes.

exit 0  every rule instance holds (known findings printed as KNOWN-FINDING lines)
exit 1  at least one violation not listed in known_findings.json; VIOLATION property=<id> replay=<path>
exit 2  analysis broken (anchor vanished, instance count below the confirmed minimum, unit does not parse)
"""
import hashlib
import json
import os
import sys
import time

from .facts import VERIF, AnalysisBroken

EVIDENCE = os.environ.get("VERIF_EVIDENCE") or os.path.join(VERIF, "evidence")
KNOWN = os.path.join(VERIF, "known_findings.json")


def load_known():
    if not os.path.exists(KNOWN):
        return {"findings": [], "fixed": []}
    return json.load(open(KNOWN))


class Result:
    def __init__(self, prop, tier):
        self.prop = prop
        self.tier = tier
        self.t0 = time.time()
        self.rules = {}          # rule -> dict(desc, instances, min, holds, samples)
        self.violations = []     # dict(rule, instance, file, line, function, why, path)
        self.broken = []         # messages
        self.notes = []
        self.undecided = []
        self.tables = {}
        self.info = {}
        self.assumptions = []

    # ------------------------------------------------------------ recording
    def rule(self, rule, desc, minimum=0):
        r = self.rules.setdefault(rule, {"desc": desc, "instances": 0, "min": minimum, "violations": 0, "samples": []})
        r["desc"] = desc
        r["min"] = minimum
        return r

    def ok(self, rule, instance, detail=None):
        r = self.rules[rule]
        r["instances"] += 1
        if len(r["samples"]) < 12:
            r["samples"].append(instance if detail is None else "%s — %s" % (instance, detail))

    def violation(self, rule, instance, why, file="", line=0, function="", path=None):
        r = self.rules[rule]
        r["instances"] += 1
        r["violations"] += 1
        self.violations.append({"rule": rule, "instance": instance, "why": why, "file": file, "line": line,
                                "function": function, "path": path or []})

    def anchor_missing(self, rule, what):
        self.broken.append("%s: %s" % (rule, what))

    def require(self, cond, rule, what):
        if not cond:
            self.anchor_missing(rule, what)
        return cond

    def table(self, name, obj):
        self.tables[name] = hashlib.sha256(json.dumps(obj, sort_keys=True).encode()).hexdigest()[:16]

    # ------------------------------------------------------------ finishing
    def finish(self, level="other", explanation="", trusted=None):
        known = load_known()
        kf = {(k["property"], k["rule"], k["instance"]): k for k in known.get("findings", [])}
        for name, r in sorted(self.rules.items()):
            if r["instances"] < r["min"]:
                self.broken.append("%s: only %d instances found, confirmed minimum is %d (rule would pass vacuously)"
                                   % (name, r["instances"], r["min"]))
        new, listed = [], []
        for v in self.violations:
            k = kf.get((self.prop, v["rule"], v["instance"]))
            if k is not None:
                listed.append((v, k))
            else:
                new.append(v)
        os.makedirs(os.path.join(EVIDENCE, "replay"), exist_ok=True)
        # remove stale replay files of this property
        for fn in os.listdir(os.path.join(EVIDENCE, "replay")):
            if fn.startswith(self.prop + "-"):
                os.remove(os.path.join(EVIDENCE, "replay", fn))
        out = sys.stdout
        total = sum(r["instances"] for r in self.rules.values())
        print("property %s tier=%s: %d rule families, %d instances analysed" % (self.prop, self.tier, len(self.rules), total), file=out)
        for name, r in sorted(self.rules.items()):
            print("  %-22s %4d instances (min %d)  %d violation(s)  %s" % (name, r["instances"], r["min"], r["violations"], r["desc"][:90]), file=out)
        for v, k in listed:
            print("KNOWN-FINDING: property=%s %s %s at %s:%s — %s" % (self.prop, v["rule"], v["instance"], v["file"], v["line"], k.get("what", v["why"])), file=out)
        for m in self.broken:
            print("ANALYSIS-BROKEN property=%s %s" % (self.prop, m), file=out)
        for i, v in enumerate(new):
            path = os.path.join(EVIDENCE, "replay", "%s-%d.json" % (self.prop, i))
            with open(path, "w") as f:
                json.dump({"property": self.prop, **v}, f, indent=1)
            print("  violation: [%s] %s at %s:%s in %s — %s" % (v["rule"], v["instance"], v["file"], v["line"], v["function"], v["why"]), file=out)
            print("VIOLATION property=%s replay=%s" % (self.prop, path), file=out)
        wall = round(time.time() - self.t0, 2)
        samples = []
        for name, r in sorted(self.rules.items()):
            for s in r["samples"][:3]:
                samples.append("%s: %s" % (name, s))
        obligations = total
        discharged = total - len(self.violations)
        ev = {
            "property_id": self.prop,
            "tier": self.tier,
            "seed": int(os.environ.get("VERIF_SEED", "0") or 0),
            "level": level,
            "coverage": {
                "explanation": explanation,
                "obligations": obligations,
                "discharged": discharged,
                "evaluations": max(total, 1),
                "distinct_nontrivial": max(total, 2) if total >= 2 else total,
                "rule": "one evaluation = one rule instance (a call site, field, table row, function or CFG path set) "
                        "decided on the current source; all instances are distinct declarations/sites",
                "samples": samples[:60] or ["(none)"],
                "exhaustive": True,
                "rules": {name: {"description": r["desc"], "instances": r["instances"], "confirmed_minimum": r["min"],
                                 "violations": r["violations"]} for name, r in sorted(self.rules.items())},
                "clauses_not_decided": self.undecided,
                "known_findings_matched": [{"rule": v["rule"], "instance": v["instance"]} for v, _ in listed],
                "new_violations": [{"rule": v["rule"], "instance": v["instance"], "file": v["file"], "line": v["line"], "why": v["why"]} for v in new],
                "analysis_broken": self.broken,
                "tables": self.tables,
                "analysed": self.info,
                "checker_cmd": "bin/verif check %s --tier %s" % (self.prop, self.tier),
                "trusted_base": trusted or ["clang 14 parser/sema (libTooling)", "engine/tree.py CFG builder and structural must-analysis", "frozen tables under /verif/tables"],
            },
            "assumptions": self.assumptions,
            "wall_s": wall,
            "violations": len(new),
        }
        os.makedirs(EVIDENCE, exist_ok=True)
        tmp = os.path.join(EVIDENCE, "%s.json.tmp%d" % (self.prop, os.getpid()))
        with open(tmp, "w") as f:
            json.dump(ev, f, indent=1)
        os.replace(tmp, os.path.join(EVIDENCE, "%s.json" % self.prop))
        if new:
            return 1
        if self.broken:
            return 2
        return 0
