"""Whole-program call graph over resolved callees; virtual calls resolved by class-hierarchy analysis."""
from . import tree as T


class CallGraph:
    def __init__(self, P):
        self.P = P
        self.overriders = {}   # base method id -> set of function keys overriding it (transitively)
        direct = {}
        for key, f in P.functions.items():
            for b in f.get("overrides", []):
                direct.setdefault(b, set()).add(key)
        # transitive closure
        def close(b, seen):
            for k in direct.get(b, ()):
                if k not in seen:
                    seen.add(k)
                    close(P.functions[k]["id"], seen)
            return seen
        for b in list(direct):
            self.overriders[b] = close(b, set())
        self.callees = {}      # function key -> set of function keys
        self.callers = {}
        self.sites = {}        # function key -> list of (call node, [target keys])
        for key, f in P.functions.items():
            outs = set()
            sites = []
            nodes = [f["body"]] + [i[3] for i in f.get("inits", [])]
            for root in nodes:
                for x in T.walk(root):
                    if x[0] in ("Call", "Construct"):
                        c = x[2]
                        if not isinstance(c, dict):
                            continue
                        tg = self.resolve(c, f)
                        if tg:
                            outs.update(tg)
                        sites.append((x, tg))
                    elif x[0] == "Ref" and x[2] == "func":
                        # address of a function taken (callbacks, comparators): treat as a possible call
                        tg = self.resolve({"id": x[4], "k": "func"}, f)
                        outs.update(tg)
            self.callees[key] = outs
            self.sites[key] = sites
            for o in outs:
                self.callers.setdefault(o, set()).add(key)

    def resolve(self, c, caller=None):
        """function keys a callee descriptor may denote"""
        P = self.P
        cid = c.get("id")
        if cid is None:
            return []
        out = []
        if cid in P.functions:
            out.append(cid)
        elif caller is not None and (cid + "@" + caller["file"]) in P.functions:
            out.append(cid + "@" + caller["file"])
        else:
            # static function defined in another file of the same unit, or duplicate ids
            for k in P.by_q.get(c.get("q", ""), []):
                if P.functions[k]["id"] == cid:
                    out.append(k)
        if c.get("k") == "virtual":
            out.extend(sorted(self.overriders.get(cid, ())))
        return out

    def reach_from(self, roots):
        seen = set(roots)
        st = list(roots)
        while st:
            x = st.pop()
            for y in self.callees.get(x, ()):
                if y not in seen:
                    seen.add(y)
                    st.append(y)
        return seen

    def reach_to(self, targets):
        """all functions from which some target is reachable (including the targets)"""
        seen = set(targets)
        st = list(targets)
        while st:
            x = st.pop()
            for y in self.callers.get(x, ()):
                if y not in seen:
                    seen.add(y)
                    st.append(y)
        return seen

    def path(self, src, dst_set):
        """one shortest call chain from src to any function in dst_set (list of keys) or None"""
        from collections import deque
        prev = {src: None}
        dq = deque([src])
        while dq:
            x = dq.popleft()
            if x in dst_set:
                out = []
                while x is not None:
                    out.append(x)
                    x = prev[x]
                return list(reversed(out))
            for y in sorted(self.callees.get(x, ())):
                if y not in prev:
                    prev[y] = x
                    dq.append(y)
        return None


_cache = {}


def get(P):
    cg = _cache.get(id(P))
    if cg is None:
        cg = CallGraph(P)
        _cache[id(P)] = cg
    return cg
