"""RF5 – the eleven numbered-reactant kinds, derived from the repository, and kind tagging of tree nodes.

A kind is a class cxxK for which Phreeqc has a field `Rxn_<stem>_map` of type std::map<int, cxxK> (the entity store).
The vocabulary (stems) is cross-checked one-to-one against the StorageBinListItem members of StorageBinList (the
DUMP/DELETE selection lists) and the `copier copy_<stem>` members of Phreeqc; a mismatch is analysis-broken."""
import re

from . import tree as T
from .facts import AnalysisBroken

ALIASES = {
    "equilibrium_phases": "pp_assemblage", "ppassemblage": "pp_assemblage", "pure_phase": "pp_assemblage", "pure_phases": "pp_assemblage",
    "solid_solutions": "ss_assemblage", "solid_solution": "ss_assemblage", "ssassemblage": "ss_assemblage",
    "gasphase": "gas_phase", "gas": "gas_phase",
    "reaction_temperature": "temperature", "reaction_pressure": "pressure",
    "exchanger": "exchange", "exchangers": "exchange", "surfaces": "surface", "solutions": "solution", "gas_phases": "gas_phase",
    "pp_assemblages": "pp_assemblage", "ss_assemblages": "ss_assemblage", "mixes": "mix", "reactions": "reaction",
    "temperatures": "temperature", "pressures": "pressure", "irrev": "reaction",
}


class Kinds:
    def __init__(self, P):
        ph = P.records.get("Phreeqc")
        if ph is None:
            raise AnalysisBroken("class Phreeqc not found")
        self.stem_class = {}
        for f in ph["fields"]:
            m = re.match(r"^Rxn_([a-z_]+)_map$", f["name"])
            if not m:
                continue
            stem = m.group(1)
            t = re.match(r"^std::map<int, (cxx\w+)", f["ctype"].replace("class ", ""))
            if not t:
                continue
            if stem.endswith("_mix"):
                continue
            self.stem_class[stem] = t.group(1)
        self.stems = sorted(self.stem_class)
        self.class_stem = {c: s for s, c in self.stem_class.items()}
        if len(self.class_stem) != len(self.stem_class):
            raise AnalysisBroken("kind table: two Rxn_*_map stores share one entity class: %s" % self.stem_class)
        sbl = P.records.get("StorageBinList")
        if sbl is None:
            raise AnalysisBroken("class StorageBinList not found")
        items = sorted(f["name"] for f in sbl["fields"] if f["type"].endswith("StorageBinListItem") and f["name"] != "cell")
        if items != self.stems:
            raise AnalysisBroken("kind vocabulary mismatch: Phreeqc stores %s vs StorageBinList items %s" % (self.stems, items))
        cop = sorted(f["name"][5:] for f in ph["fields"] if f["type"].endswith("copier") and f["name"].startswith("copy_"))
        if cop != self.stems:
            raise AnalysisBroken("kind vocabulary mismatch: Phreeqc stores %s vs copier members %s" % (self.stems, cop))
        words = dict((s, s) for s in self.stems)
        words.update({a: k for a, k in ALIASES.items() if k in self.stems})
        self.words = words
        alts = sorted(words, key=len, reverse=True)
        self.name_re = re.compile(r"(?<![a-z])x?(" + "|".join(re.escape(a) for a in alts) + r")(?![a-z])")
        self.type_re = re.compile(r"\b(" + "|".join(re.escape(c) for c in sorted(self.class_stem, key=len, reverse=True)) + r")\b")

    # -------------------------------------------------------------- tagging
    def of_name(self, ident):
        """kinds named by an identifier (longest word first, each span used once)"""
        s = ident.lower()
        out = set()
        pos = 0
        while True:
            m = self.name_re.search(s, pos)
            if not m:
                break
            out.add(self.words[m.group(1)])
            pos = m.end()
        return out

    def of_type(self, tstr):
        return set(self.class_stem[c] for c in self.type_re.findall(tstr or ""))

    def by_type(self, node):
        """kinds denoted through types inside a subtree: field types, variable types, callee return/parameter/
        template-argument types, constructed classes"""
        out = {}
        for x in T.walk(node):
            ks = set()
            if x[0] == "Member":
                ks = self.of_type(x[4] if len(x) > 4 else "")
            elif x[0] == "Ref" and x[2] in ("local", "param", "global"):
                ks = self.of_type(x[4] if len(x) > 4 else "")
            elif x[0] in ("Call", "Construct") and isinstance(x[2], dict):
                c = x[2]
                ks = self.of_type(c.get("id", "")) | self.of_type(c.get("ret", "")) | self.of_type(c.get("cls", ""))
            elif x[0] == "Decl":
                for d in x[2]:
                    ks |= self.of_type(d[1])
            elif x[0] in ("New", "Cast"):
                ks = self.of_type(x[2])
            for k in ks:
                out.setdefault(k, []).append(x[1])
        return out

    def by_name(self, node, classes=None, skip=()):
        """kinds denoted through member / method names inside a subtree.  `classes`: only members and methods of
        these classes are considered (None = any project class)."""
        out = {}
        for x in T.walk(node):
            nm = None
            if x[0] == "Member":
                cls, _, fld = x[2].rpartition("::")
                if classes is None or cls in classes:
                    nm = fld
            elif x[0] == "Call" and isinstance(x[2], dict) and x[2].get("proj"):
                c = x[2]
                if classes is None or c.get("cls", "") in classes or (not c.get("cls") and "" in classes):
                    nm = T.base_name(c.get("q", ""))
            if nm and nm not in skip:
                for k in self.of_name(nm):
                    out.setdefault(k, []).append(x[1])
        return out


_cache = {}


def get(P):
    k = _cache.get(id(P))
    if k is None:
        k = Kinds(P)
        _cache[id(P)] = k
    return k
