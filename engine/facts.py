"""S0/S1: compilation database, fact extraction (ipqfacts), cache, merged whole-program view.

Everything is computed from the *current* content of $VERIF_REPO (default /repo).  The cache is content addressed
(TU bytes, every header under src/, flags, extractor binary) so it can only return what a fresh extraction would.
"""
import hashlib
import json
import os
import pickle
import shutil
import subprocess
import sys
import tempfile
import time
from concurrent.futures import ThreadPoolExecutor

VERIF = os.path.dirname(os.path.dirname(os.path.abspath(__file__)))
REPO = os.environ.get("VERIF_REPO", "/repo")
SRC = os.path.join(REPO, "src")
CACHE = os.path.join(VERIF, ".cache")
IPQFACTS = os.path.join(VERIF, "build", "ipqfacts")

HEADER_SUFFIX = (".h", ".hpp", ".hxx", ".inc", ".H")
SOURCE_SUFFIX = (".c", ".cpp", ".cxx", ".cc")

# Source files under src/ that are NOT part of the IPhreeqc library target in the analysed configuration
# (Fortran module enabled, no charting, no stand-alone main).  Each with its reason.  A source file that is
# neither in the compilation database nor listed here makes every check exit 2.
EXCLUDED_SOURCES = {
    "phreeqcpp/class_main.cpp": "stand-alone phreeqc main program, not in the library target",
    "phreeqcpp/cl1mp.cpp": "multi-precision cl1 (INVERSE_CL1MP), not compiled in this configuration",
    "phreeqcpp/ChartHandler.cpp": "Windows charting (MULTICHART), not compiled",
    "phreeqcpp/ChartObject.cpp": "Windows charting (MULTICHART), not compiled",
    "phreeqcpp/CurveObject.cpp": "Windows charting (MULTICHART), not compiled",
    "fwrap.cpp": "legacy Fortran wrappers, replaced by IPhreeqc_interface_F.cpp when the Fortran module is enabled",
    "fwrap1.cpp": "legacy Fortran wrappers (see fwrap.cpp)",
    "fwrap2.cpp": "legacy Fortran wrappers (see fwrap.cpp)",
    "fwrap3.cpp": "legacy Fortran wrappers (see fwrap.cpp)",
    "fwrap4.cpp": "legacy Fortran wrappers (see fwrap.cpp)",
    "fwrap5.cpp": "legacy Fortran wrappers (see fwrap.cpp)",
    "fwrap6.cpp": "legacy Fortran wrappers (see fwrap.cpp)",
    "fwrap7.cpp": "legacy Fortran wrappers (see fwrap.cpp)",
    "fwrap8.cpp": "legacy Fortran wrappers (see fwrap.cpp)",
    "pp_sys.cpp": "VMS system glue, not compiled",
}


class AnalysisBroken(Exception):
    """The analysis itself cannot be carried out (anchor vanished, unit does not parse...).  Exit code 2."""


def sha(*parts):
    h = hashlib.sha256()
    for p in parts:
        if isinstance(p, str):
            p = p.encode()
        h.update(p)
        h.update(b"\0")
    return h.hexdigest()


def _read(path):
    with open(path, "rb") as f:
        return f.read()


def scratch_dir(prefix):
    base = os.environ.get("VERIF_SCRATCH") or os.path.join(tempfile.gettempdir())
    return tempfile.mkdtemp(prefix=prefix, dir=base)


def compile_db():
    """cmake configure only into a scratch dir; keep the entries of the library (files under src/)."""
    d = scratch_dir("ipq-cdb-")
    try:
        r = subprocess.run(
            ["cmake", "-S", REPO, "-B", d, "-G", "Ninja", "-DBUILD_TESTING=OFF", "-DCMAKE_EXPORT_COMPILE_COMMANDS=ON"],
            stdout=subprocess.PIPE, stderr=subprocess.STDOUT, text=True)
        if r.returncode != 0:
            raise AnalysisBroken("cmake configure failed:\n" + r.stdout[-2000:])
        db = json.load(open(os.path.join(d, "compile_commands.json")))
    finally:
        shutil.rmtree(d, ignore_errors=True)
    units = {}
    for e in db:
        f = os.path.realpath(e["file"])
        if not f.startswith(os.path.realpath(SRC) + os.sep):
            continue
        rel = os.path.relpath(f, os.path.realpath(SRC))
        args = e["command"].split() if "command" in e else list(e["arguments"])
        flags = []
        skip = False
        for a in args[1:]:
            if skip:
                skip = False
                continue
            if a in ("-o", "-MF", "-MT", "-MQ"):
                skip = True
                continue
            if a in ("-c", "-MD", "-MMD") or a == e["file"] or a.startswith("-O") or a == "-g":
                continue
            flags.append(a)
        is_c = rel.endswith(".c")
        flags.append("-std=gnu17" if is_c else "-std=gnu++17")
        flags += ["-w", "-Wno-everything"]
        units[rel] = flags
    if not units:
        raise AnalysisBroken("compilation database has no unit under src/")
    return units


def all_sources():
    out = []
    for root, _, files in os.walk(SRC):
        for fn in files:
            if fn.endswith(SOURCE_SUFFIX):
                out.append(os.path.relpath(os.path.join(root, fn), SRC))
    return sorted(out)


def headers_hash():
    h = hashlib.sha256()
    for root, dirs, files in os.walk(SRC):
        dirs.sort()
        for fn in sorted(files):
            if fn.endswith(HEADER_SUFFIX):
                p = os.path.join(root, fn)
                h.update(os.path.relpath(p, SRC).encode())
                h.update(_read(p))
    return h.hexdigest()


def _extract_one(rel, flags, out):
    src = os.path.join(SRC, rel)
    tmp = "%s.%d.part" % (out, os.getpid())
    cmd = [IPQFACTS, os.path.realpath(SRC), tmp, src, "--"] + flags
    r = subprocess.run(cmd, stdout=subprocess.PIPE, stderr=subprocess.STDOUT, text=True)
    if r.returncode != 0 or not os.path.exists(tmp):
        raise AnalysisBroken("unit %s does not parse:\n%s" % (rel, r.stdout[-3000:]))
    os.replace(tmp, out)
    return out


class Program:
    """Whole-program view: functions by id, records, enums, globals, decls.  Header-defined entities deduplicated."""

    def __init__(self):
        self.units = []
        self.functions = {}     # id -> function dict (body tree resolved: call nodes carry callee dict)
        self.records = {}       # qualified name -> record
        self.enums = {}         # qualified name -> enum
        self.globals = []       # list of global dicts (dedup by (q, file, line))
        self.decls = {}         # id -> documented header declaration
        self.by_q = {}          # qualified name -> [function ids]
        self.key = ""
        self.stats = {}

    def fn(self, fid):
        return self.functions.get(fid)

    def fns_named(self, q):
        return [self.functions[i] for i in self.by_q.get(q, [])]

    def one(self, q, nparams=None):
        """the unique function with qualified name q (optionally with that many parameters); AnalysisBroken if absent"""
        c = self.fns_named(q)
        if nparams is not None:
            c = [f for f in c if len(f["params"]) == nparams]
        if len(c) != 1:
            raise AnalysisBroken("anchor function %s: expected exactly one definition, found %d" % (q, len(c)))
        return c[0]


def _resolve_callees(node, callees):
    """replace interned callee indexes in Call/Construct nodes by the descriptor dict (shared objects)"""
    stack = [node]
    while stack:
        n = stack.pop()
        if not isinstance(n, list):
            continue
        if n and isinstance(n[0], str):
            k = n[0]
            if k in ("Call", "Construct") and isinstance(n[2], int):
                n[2] = callees[n[2]]
        for c in n:
            if isinstance(c, list):
                stack.append(c)


def _merge(paths, units):
    P = Program()
    P.units = sorted(units)
    seen_g = set()
    nfun_total = 0
    for rel, path in sorted(paths.items()):
        d = json.load(open(path))
        callees = d["callees"]
        for f in d["functions"]:
            nfun_total += 1
            key = f["id"]
            if f.get("static") or f["file"].endswith(SOURCE_SUFFIX) and False:
                pass
            if f.get("static"):
                key = f["id"] + "@" + f["file"]
            old = P.functions.get(key)
            if old is not None:
                if old["file"] == f["file"] and old["line"] == f["line"]:
                    continue            # the same inline/header/template function seen from another unit
                key = key + "@" + f["file"] + ":" + str(f["line"])
                if key in P.functions:
                    continue
            f["key"] = key
            f["unit"] = rel
            _resolve_callees(f["body"], callees)
            for ini in f.get("inits", []):
                _resolve_callees(ini, callees)
            P.functions[key] = f
            P.by_q.setdefault(f["q"], []).append(key)
        for r in d["records"]:
            if r["q"] in ("(anonymous)",):
                continue
            old = P.records.get(r["q"])
            if old is None or (len(r["fields"]) > len(old["fields"])):
                for fld in r["fields"]:
                    if "init" in fld:
                        _resolve_callees(fld["init"], callees)
                P.records[r["q"]] = r
        for e in d["enums"]:
            P.enums.setdefault(e["q"] + "@" + e["file"] + ":" + str(e["line"]), e)
        for g in d["globals"]:
            k = (g["q"], g["file"], g["line"], g.get("func", ""))
            if k in seen_g:
                continue
            seen_g.add(k)
            g["unit"] = rel
            if g.get("init") is not None:
                _resolve_callees(g["init"], callees)
            P.globals.append(g)
        for dcl in d["decls"]:
            old = P.decls.get(dcl["id"])
            if old is None or ("doc" in dcl and "doc" not in old):
                P.decls[dcl["id"]] = dcl
    P.stats = {"units": len(P.units), "functions_total_seen": nfun_total, "functions": len(P.functions),
               "records": len(P.records), "enums": len(P.enums), "globals": len(P.globals)}
    return P


def load_program(use_cache=True, verbose=False):
    """Extract (or fetch from the content-addressed cache) and merge.  Returns (Program, info dict)."""
    t0 = time.time()
    if not os.path.exists(IPQFACTS):
        raise AnalysisBroken("extractor %s not built (run the setup command)" % IPQFACTS)
    if os.environ.get("VERIF_NOCACHE") == "1":
        use_cache = False
    units = compile_db()
    # coverage obligation
    missing = [s for s in all_sources() if s not in units and s not in EXCLUDED_SOURCES]
    if missing:
        raise AnalysisBroken("source files neither in the compilation database nor in the exclusion table: %s" % missing)
    gone = [s for s in EXCLUDED_SOURCES if s in units]
    if gone:
        raise AnalysisBroken("excluded sources are now part of the library target: %s" % gone)
    hh = headers_hash()
    binh = sha(_read(IPQFACTS))
    keys = {}
    for rel, flags in units.items():
        # absolute paths of the analysed tree are normalised so that a scratch copy of the repository shares the cache
        keys[rel] = sha(rel, _read(os.path.join(SRC, rel)), hh, " ".join(flags).replace(os.path.realpath(REPO), "$REPO").replace(REPO, "$REPO"), binh)
    pkey = sha(*[keys[r] for r in sorted(keys)])
    os.makedirs(os.path.join(CACHE, "facts"), exist_ok=True)
    ppath = os.path.join(CACHE, "program-%s.pkl" % pkey[:24])
    info = {"units": len(units), "cache_program": False, "cache_units": 0, "extracted_units": 0, "program_key": pkey[:24]}
    if use_cache and os.path.exists(ppath):
        try:
            P = pickle.load(open(ppath, "rb"))
            info["cache_program"] = True
            info["load_s"] = round(time.time() - t0, 2)
            P.key = pkey
            return P, info
        except Exception:
            pass
    workdir = os.path.join(CACHE, "facts") if use_cache else scratch_dir("ipq-facts-")
    paths, todo = {}, []
    for rel in units:
        out = os.path.join(workdir, keys[rel][:32] + ".json")
        paths[rel] = out
        if use_cache and os.path.exists(out):
            info["cache_units"] += 1
            try:
                os.utime(out, None)      # mark as in use: concurrent runs evict only files untouched for hours
            except OSError:
                pass
        else:
            todo.append(rel)
    info["extracted_units"] = len(todo)
    try:
        with ThreadPoolExecutor(max_workers=min(16, os.cpu_count() or 4)) as ex:
            futs = [ex.submit(_extract_one, rel, units[rel], paths[rel]) for rel in todo]
            for f in futs:
                f.result()
        P = _merge(paths, units)
    finally:
        if not use_cache:
            shutil.rmtree(workdir, ignore_errors=True)
    P.key = pkey
    if use_cache:
        # keep the cache small: drop older merged programs and unit facts that are no longer current
        # (never another process's temporary file; keep the few most recent so that concurrent checks of the real
        # tree and of scratch copies do not evict each other)
        progs = sorted((fn for fn in os.listdir(CACHE) if fn.startswith("program-") and fn.endswith(".pkl")),
                       key=lambda fn: os.path.getmtime(os.path.join(CACHE, fn)) if os.path.exists(os.path.join(CACHE, fn)) else 0)
        for fn in progs[:-6]:
            if fn != os.path.basename(ppath):
                try:
                    os.remove(os.path.join(CACHE, fn))
                except OSError:
                    pass
        for fn in os.listdir(CACHE):
            if fn.endswith(".tmp"):
                try:
                    if time.time() - os.path.getmtime(os.path.join(CACHE, fn)) > 1800:
                        os.remove(os.path.join(CACHE, fn))
                except OSError:
                    pass
        cur = set(os.path.basename(p) for p in paths.values())
        for fn in os.listdir(workdir):
            if fn not in cur and fn.endswith(".json"):
                try:
                    if time.time() - os.path.getmtime(os.path.join(workdir, fn)) > 6 * 3600:
                        os.remove(os.path.join(workdir, fn))
                except OSError:
                    pass
        tmp = ppath + ".%d.tmp" % os.getpid()
        with open(tmp, "wb") as f:
            pickle.dump(P, f, protocol=pickle.HIGHEST_PROTOCOL)
        os.replace(tmp, ppath)
    info["load_s"] = round(time.time() - t0, 2)
    return P, info
