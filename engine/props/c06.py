"""C06 – deterministic results; instances isolated and usable from parallel threads.

Decided structurally (see DESIGN.md §C06):
  C06.global    census of every variable with static storage: immutable, or read-only after initialisation, or in
                the synchronised table (mutexes, registry) – anything else is shared mutable state between instances
  C06.registry  typestate: every access to the registry happens with map_lock held; functions enter/leave unlocked
  C06.qsort     typestate: every call of the C library qsort happens with qsort_lock held; lock/unlock balanced
  C06.order     no lock acquired while the other may be held; no call from a locked region to code that may lock
  C06.ids       the id counter is only ever post-incremented (under the lock); Index assigned once (constructor)
  C06.fresh     no scalar/pointer/array member of the engine object is left indeterminate on a fresh instance: each is assigned by
                the constructor or by the first-load sequence on every path (shared must-write engine and re-checked table of C07)
  C06.nondet    census of nondeterminism sources (clock/random/env/pid) restricted to the status/timing sites;
                pointer-keyed ordered containers are never iterated
  C06.copy      compile-fail witness: IPhreeqc is not copyable (two ids can never share one engine)
"""
import json
import os
import subprocess

from .. import tree as T
from ..callgraph import get as callgraph
from ..facts import VERIF, SRC, AnalysisBroken

PROP = "C06"

MUTEXES = ("map_lock", "qsort_lock")
REGISTRY = ("IPhreeqc::Instances", "IPhreeqc::InstancesIndex")
LOCK_FN, UNLOCK_FN = "pthread_mutex_lock", "pthread_mutex_unlock"

# Globals that are mutable by design and carry their own obligation.
SYNCHRONISED = {
    "map_lock": "process-wide mutex (is the synchronisation primitive itself)",
    "qsort_lock": "process-wide mutex (is the synchronisation primitive itself)",
    "IPhreeqc::Instances": "instance registry – every access must be under map_lock (rule C06.registry)",
    "IPhreeqc::InstancesIndex": "id counter – every access must be under map_lock (rule C06.registry)",
}

NONDET_CALLS = {"rand", "srand", "random", "srandom", "drand48", "time", "clock", "getpid", "getenv", "tmpnam",
                "tmpfile", "mkstemp", "gettimeofday", "clock_gettime", "std::rand", "std::srand", "std::time",
                "std::clock", "std::getenv", "rand_r", "getppid", "pthread_self", "std::this_thread::get_id",
                "localtime", "gmtime", "ctime", "asctime", "strftime"}
NONDET_PREFIX = ("std::chrono::", "std::random_device", "std::mt19937", "std::uniform_")

# functions that may consult the clock: the result only feeds the status line / the elapsed-time banner,
# which the property excludes ("except the elapsed-time banner")
def load_table(name):
    return json.load(open(os.path.join(VERIF, "tables", name)))


def global_refs(node):
    for x in T.walk(node):
        if x[0] == "Ref" and x[2] == "global":
            yield x


def mutex_of(call):
    """('lock'|'unlock', mutex name) if the call is pthread_mutex_lock/unlock(&<global mutex>)"""
    q = T.callee_q(call)
    if q not in (LOCK_FN, UNLOCK_FN):
        return None
    args = T.call_args(call)
    if not args:
        return None
    root, steps = T.access_path(args[0])
    name = root[1] if root[0] == "global" else "?"
    return ("lock" if q == LOCK_FN else "unlock", name)


def is_event(n):
    if n[0] == "Call":
        q = T.callee_q(n)
        if q in (LOCK_FN, UNLOCK_FN, "qsort"):
            return True
        return True   # every call is an event for the order rule
    if n[0] == "Ref" and n[2] == "global" and n[3] in REGISTRY:
        return True
    return False


def function_has_interest(f):
    for x in T.walk(f["body"]):
        if x[0] == "Call" and T.callee_q(x) in (LOCK_FN, UNLOCK_FN, "qsort", "pthread_mutex_trylock"):
            return True
        if x[0] == "Ref" and x[2] == "global" and x[3] in REGISTRY:
            return True
    for i in f.get("inits", []):
        for x in T.walk(i[3]):
            if x[0] == "Ref" and x[2] == "global" and x[3] in REGISTRY:
                return True
    return False


def run(P, R, tier):
    cg = callgraph(P)
    R.undecided += [
        "(g) absence of data races as an observed fact under every interleaving (implied by (a)-(c) only if the census is complete)",
        "bitwise identity of floating-point output across processes/repetitions",
    ]

    # ------------------------------------------------------------------ C06.global
    rg = R.rule("C06.global", "every static-storage variable is immutable, read-only after initialisation, or synchronised", minimum=100)
    gq = {}
    for g in P.globals:
        gq.setdefault(g["q"], []).append(g)
    for m in MUTEXES + REGISTRY:
        R.require(m in gq, "C06.global", "anchor global %s not found" % m)
    # all writes / escapes of globals, program wide
    writers = {}   # global q -> list of (function key, how, line)
    for key, f in P.functions.items():
        roots = [f["body"]] + [i[3] for i in f.get("inits", [])]
        for rt in roots:
            for tgt, how, line, node in T.writes(rt):
                root, steps = T.access_path(tgt)
                if root[0] == "global":
                    writers.setdefault(root[1], []).append((key, how, line))
            # array decay / pointer value passed to a non-const pointer parameter, returned by non-const reference
            for c in T.calls(rt):
                cd = c[2]
                if not isinstance(cd, dict):
                    continue
                pts = T.param_types(cd)
                for i, a in enumerate(T.call_args(c)):
                    a2 = T.strip_casts(a)
                    if T.is_node(a2) and a2[0] == "Ref" and a2[2] == "global":
                        gl = gq.get(a2[3])
                        if gl and any("extent" in g for g in gl):
                            pt = pts[i] if i < len(pts) else ""
                            if "*" in pt and not pt.startswith("const"):
                                writers.setdefault(a2[3], []).append((key, "decay-to-nonconst-pointer", c[1]))
    for g in sorted(P.globals, key=lambda g: (g["file"], g["line"], g["q"])):
        inst = g["q"] if g["kind"] != "staticlocal" else "%s::%s" % (g.get("func", "?").split("(")[0], g["name"])
        where = dict(file=g["file"], line=g["line"], function=g.get("func", ""))
        if g.get("tls"):
            R.ok("C06.global", inst, "thread-local")
            continue
        if g["immutable"]:
            R.ok("C06.global", inst, "immutable (%s)" % g["type"][:40])
            continue
        if g["q"] in SYNCHRONISED and g["kind"] != "staticlocal":
            R.ok("C06.global", inst, "synchronised: " + SYNCHRONISED[g["q"]])
            continue
        ws = writers.get(g["q"], [])
        if g["kind"] == "staticlocal":
            # writers of a function-local static can only be in that function
            ws = [w for w in ws if P.functions[w[0]]["id"] == g.get("func")]
        if not ws:
            R.ok("C06.global", inst, "mutable type but written only by its initialiser (no write/escape anywhere)")
            continue
        fns = sorted(set(P.functions[w[0]]["q"] for w in ws))
        R.violation("C06.global", inst,
                    "mutable static-storage variable shared by all instances; written in %d place(s) by %s"
                    % (len(ws), ", ".join(fns[:8]) + (" …" if len(fns) > 8 else "")),
                    path=["%s:%d %s (%s)" % (P.functions[w[0]]["file"], w[2], P.functions[w[0]]["q"], w[1]) for w in ws[:20]],
                    **where)

    # ------------------------------------------------------------------ typestate (registry, qsort, order)
    rr = R.rule("C06.registry", "every access to IPhreeqc::Instances/InstancesIndex is made with map_lock held", minimum=5)
    rq = R.rule("C06.qsort", "every call of ::qsort is made with qsort_lock held", minimum=15)
    rb = R.rule("C06.balance", "lock/unlock are balanced: no unlock of a mutex not held, no re-lock, no function exit while locked", minimum=16)
    ro = R.rule("C06.order", "no mutex acquired while another may be held; no call from a locked region to code that may lock", minimum=15)

    lockers = set()
    interesting = []
    for key, f in P.functions.items():
        if function_has_interest(f):
            interesting.append(key)
            for c in T.calls(f["body"]):
                if T.callee_q(c) in (LOCK_FN, "pthread_mutex_trylock"):
                    lockers.add(key)
    may_lock = cg.reach_to(lockers)
    R.info["functions_with_lock_or_guarded_events"] = sorted(P.functions[k]["q"] for k in interesting)
    R.require(len(lockers) >= 9, "C06.balance", "fewer locking functions (%d) than confirmed (9)" % len(lockers))

    for key in sorted(interesting):
        f = P.functions[key]
        cfg = T.CFG(f)
        # state: frozenset of (map_state, qsort_state) pairs, each 'U' or 'L'
        idx = {m: i for i, m in enumerate(MUTEXES)}

        def events(node):
            n = node["n"]
            if not T.is_node(n):
                return []
            return T.ordered_events(n, is_event)

        def step(state, ev, report):
            n, cond = ev
            if n[0] == "Call":
                mo = mutex_of(n)
                q = T.callee_q(n)
                if mo is not None:
                    op, m = mo
                    if m not in idx:
                        if report:
                            R.violation("C06.balance", "%s:%s" % (f["q"], m), "lock operation on an unknown mutex expression",
                                        file=f["file"], line=n[1], function=f["q"])
                        return state
                    i = idx[m]
                    new = set()
                    for s in state:
                        cur = s[i]
                        if op == "lock":
                            if report:
                                if cur == "L":
                                    R.violation("C06.balance", "%s:%s:lock" % (f["q"], m), "mutex may already be held here (self-deadlock)",
                                                file=f["file"], line=n[1], function=f["q"])
                                other = [MUTEXES[j] for j in range(len(MUTEXES)) if j != i and s[j] == "L"]
                                if other:
                                    R.violation("C06.order", "%s:%s-while-%s" % (f["q"], m, other[0]),
                                                "acquires %s while %s may be held (lock-order inversion possible)" % (m, other[0]),
                                                file=f["file"], line=n[1], function=f["q"])
                            t = list(s); t[i] = "L"; new.add(tuple(t))
                        else:
                            if report and cur == "U":
                                R.violation("C06.balance", "%s:%s:unlock" % (f["q"], m),
                                            "unlock of %s on a path where it is not held (conditional lock, unconditional unlock?)" % m,
                                            file=f["file"], line=n[1], function=f["q"],
                                            path=["entry %s:%d" % (f["file"], f["line"]), "unlock at line %d%s" % (n[1], " (macro %s)" % T.call_macro(n) if T.call_macro(n) else "")])
                            t = list(s); t[i] = "U"; new.add(tuple(t))
                    return frozenset(new)
                if q == "qsort":
                    if report:
                        bad = [s for s in state if s[idx["qsort_lock"]] != "L"]
                        inst = "%s:qsort@%s" % (f["q"], T.text(T.call_args(n)[0])[:40] if T.call_args(n) else "?")
                        if bad:
                            R.violation("C06.qsort", inst, "::qsort reachable without qsort_lock held",
                                        file=f["file"], line=n[1], function=f["q"])
                        else:
                            R.ok("C06.qsort", inst, "%s:%d" % (f["file"], n[1]))
                        # comparator must not lock
                        for a in T.call_args(n):
                            a2 = T.strip_casts(a)
                            if T.is_node(a2) and a2[0] == "Ref" and a2[2] == "func":
                                tg = cg.resolve({"id": a2[4], "k": "func", "q": a2[3]}, f)
                                for t in tg:
                                    if t in may_lock:
                                        R.violation("C06.order", "%s:comparator:%s" % (f["q"], a2[3]),
                                                    "qsort comparator may itself take a lock while qsort_lock is held",
                                                    file=f["file"], line=n[1], function=f["q"])
                                    else:
                                        R.ok("C06.order", "%s:comparator:%s" % (f["q"], a2[3]), "comparator takes no lock")
                    return state
                # any other call while locked: callee must not lock
                if report and any("L" in s for s in state):
                    c = n[2]
                    if isinstance(c, dict) and c.get("proj"):
                        for t in cg.resolve(c, f):
                            if t in may_lock:
                                R.violation("C06.order", "%s:call:%s" % (f["q"], c.get("q")),
                                            "call made while a mutex is held reaches code that may lock (%s)" % c.get("q"),
                                            file=f["file"], line=n[1], function=f["q"],
                                            path=[P.functions[k]["q"] for k in (cg.path(t, lockers) or [])])
                return state
            if n[0] == "Ref":
                if report:
                    bad = [s for s in state if s[idx["map_lock"]] != "L"]
                    inst = "%s:%s@%d" % (f["q"], n[3].split("::")[-1], sum(1 for _ in ()))
                    inst = "%s:%s" % (f["q"], n[3].split("::")[-1])
                    if bad:
                        R.violation("C06.registry", inst, "registry accessed on a path where map_lock is not held",
                                    file=f["file"], line=n[1], function=f["q"])
                    else:
                        R.ok("C06.registry", inst, "%s:%d" % (f["file"], n[1]))
                return state
            return state

        def transfer(node, state):
            for ev in events(node):
                state = step(state, ev, False)
            return state

        init = [tuple("U" for _ in MUTEXES)]
        instate = cfg.dataflow(transfer, init)
        for node in cfg.nodes:
            st = instate.get(node["id"])
            if st is None:
                continue
            for ev in events(node):
                st = step(st, ev, True)
        for ex, nm in ((cfg.exit, "return"), (cfg.throwexit, "throw")):
            st = instate.get(ex)
            if st is None:
                continue
            held = sorted(set(MUTEXES[i] for s in st for i in range(len(MUTEXES)) if s[i] == "L"))
            if held:
                R.violation("C06.balance", "%s:exit" % f["q"], "function may %s with %s still held" % (nm, ",".join(held)),
                            file=f["file"], line=f.get("endline", f["line"]), function=f["q"])
        # ctor initialisers touching the registry are outside any lock
        for i in f.get("inits", []):
            for x in global_refs(i[3]):
                if x[3] in REGISTRY:
                    R.violation("C06.registry", "%s:%s:init" % (f["q"], x[3]), "registry accessed in a constructor initialiser (no lock can be held)",
                                file=f["file"], line=x[1], function=f["q"])
        if key in lockers:
            R.ok("C06.balance", f["q"], "balanced on all %d CFG nodes" % len(cfg.nodes))

    ids_rule(P, R, "C06.ids")
    filenames_rule(P, R)
    from . import c07 as C07
    C07.fresh_rule(P, R, "C06.fresh")
    ptrorder_rule(P, R)
    staticinit_rule(P, R)

    # ------------------------------------------------------------------ C06.nondet
    rn = R.rule("C06.nondet", "nondeterminism sources (clock, random, env, pid) only at the status/elapsed-time sites", minimum=3)
    allow = load_table("c06_nondet_allow.json")
    R.table("c06_nondet_allow.json", allow)
    allowed = {(a["function"], a["callee"]): a["reason"] for a in allow["sites"]}
    seen_allowed = set()
    for key, f in P.functions.items():
        for c in T.calls(f["body"]):
            q = T.callee_q(c)
            if q in NONDET_CALLS or q.startswith(NONDET_PREFIX):
                inst = "%s->%s" % (f["q"], q)
                if (f["q"], q) in allowed:
                    seen_allowed.add((f["q"], q))
                    R.ok("C06.nondet", inst, "allowed: " + allowed[(f["q"], q)])
                else:
                    R.violation("C06.nondet", inst, "call of a nondeterminism source outside the status/timing sites",
                                file=f["file"], line=c[1], function=f["q"])
    for a in allow["sites"]:
        if (a["function"], a["callee"]) not in seen_allowed:
            R.anchor_missing("C06.nondet", "allow-table row %s->%s no longer matches any call site" % (a["function"], a["callee"]))
    # the clock values must only flow into the status line: the allowed functions' results are not stored in engine
    # fields other than the status timer
    # pointer-keyed ordered containers must not be iterated
    rp = R.rule("C06.ptrkey", "ordered containers keyed by a pointer are never iterated (order would depend on addresses)", minimum=1)
    ptrkey_fields = []
    for rq_, rec in P.records.items():
        for fld in rec["fields"]:
            ct = fld["ctype"]
            if (ct.startswith("std::map<") or ct.startswith("std::set<") or ct.startswith("std::multimap<")):
                first = ct[ct.index("<") + 1:]
                depth = 0
                keyt = ""
                for ch in first:
                    if ch in "<(":
                        depth += 1
                    if ch in ">)":
                        if depth == 0:
                            break
                        depth -= 1
                    if ch == "," and depth == 0:
                        break
                    keyt += ch
                if keyt.strip().endswith("*"):
                    ptrkey_fields.append(fld["q"])
    R.info["pointer_keyed_containers"] = ptrkey_fields
    ITER = {"begin", "end", "rbegin", "rend", "cbegin", "cend", "lower_bound", "upper_bound", "equal_range"}
    for fq in ptrkey_fields:
        bad = []
        for key, f in P.functions.items():
            for x in T.walk(f["body"]):
                if x[0] == "Call" and T.is_node(x[3]):
                    root, steps = T.access_path(x[3])
                    nm = T.callee_name(x)
                    if steps and steps[-1] == ("f", fq) and nm in ITER:
                        # `m.find(k) != m.end()` is a membership test, not an iteration
                        if nm == "end":
                            continue
                        bad.append((f, x))
                if x[0] == "RangeFor":
                    root, steps = T.access_path(x[3])
                    if steps and steps[-1] == ("f", fq):
                        bad.append((f, x))
        if bad:
            for f, x in bad:
                R.violation("C06.ptrkey", "%s@%s" % (fq, f["q"]), "pointer-keyed ordered container is iterated: order depends on allocation addresses",
                            file=f["file"], line=x[1], function=f["q"])
        else:
            R.ok("C06.ptrkey", fq, "only find/insert/clear/end")

    # ------------------------------------------------------------------ C06.copy (compile-fail witnesses)
    rc = R.rule("C06.copy", "IPhreeqc objects cannot be copied or assigned (compile-fail witness)", minimum=2)
    run_witnesses(R, "C06.copy", [
        ("copy-construct", "IPhreeqc a; IPhreeqc b(a); (void)b;", ["private", "deleted"]),
        ("copy-assign", "IPhreeqc a; IPhreeqc b; b = a;", ["private", "deleted"]),
    ], '#include "IPhreeqc.hpp"\n', positive="IPhreeqc a; IPhreeqc &r = a; (void)r;")


def run_witnesses(R, rule, witnesses, prelude, positive):
    """each witness body must fail to compile with a diagnostic containing one of the expected words; the positive
    control must compile (so that a broken include path cannot make everything 'fail')"""
    flags = ["-std=gnu++17", "-fsyntax-only", "-ferror-limit=0", "-I", SRC, "-I", os.path.join(SRC, "phreeqcpp"),
             "-I", os.path.join(SRC, "phreeqcpp", "common"), "-I", os.path.join(SRC, "phreeqcpp", "PhreeqcKeywords"),
             "-DSWIG_SHARED_OBJ", "-DUSE_PHRQ_ALLOC", "-DNDEBUG", "-x", "c++", "-"]
    src = prelude + "void w_positive(){ %s }\n" % positive
    r = subprocess.run(["clang++"] + flags, input=src, stdout=subprocess.PIPE, stderr=subprocess.STDOUT, text=True)
    if r.returncode != 0:
        R.anchor_missing(rule, "positive control does not compile: " + r.stdout[-400:])
        return
    for name, body, words in witnesses:
        src = prelude + "void w(){ %s }\n" % body
        r = subprocess.run(["clang++"] + flags, input=src, stdout=subprocess.PIPE, stderr=subprocess.STDOUT, text=True)
        if r.returncode == 0:
            R.violation(rule, name, "witness program compiles: `%s`" % body, file="IPhreeqc.hpp", line=0, function="")
        elif any(w in r.stdout for w in words):
            R.ok(rule, name, "rejected by the compiler")
        else:
            R.anchor_missing(rule, "witness %s fails for an unexpected reason: %s" % (name, r.stdout[-300:]))


def ids_rule(P, R, RULE):
    R.rule(RULE, "InstancesIndex only post-incremented; IPhreeqc::Index assigned only in the constructor", minimum=2)
    idx_w = []
    index_w = []
    for key, f in P.functions.items():
        for tgt, how, line, node in T.writes(f["body"]):
            root, steps = T.access_path(tgt)
            if root[0] == "global" and root[1] == "IPhreeqc::InstancesIndex":
                idx_w.append((f, how, line, node))
            if steps and steps[-1] == ("f", "IPhreeqc::Index"):
                index_w.append((f, how, line, node))
    R.require(idx_w, RULE, "no write of IPhreeqc::InstancesIndex found")
    R.require(index_w, RULE, "no write of IPhreeqc::Index found")
    for f, how, line, node in idx_w:
        inst = "InstancesIndex@%s" % f["q"]
        if how == "++" and node[2] == "post++":
            R.ok(RULE, inst, "post-increment")
        else:
            R.violation(RULE, inst, "id counter written other than by post-increment (%s): ids could repeat" % how,
                        file=f["file"], line=line, function=f["q"])
    for f, how, line, node in index_w:
        inst = "Index@%s" % f["q"]
        src = node[4] if node[0] == "Bin" else None
        okc = f.get("special") == "ctor" and f.get("cls") == "IPhreeqc" and how == "=" and T.is_node(src) and \
            src[0] == "Un" and src[2] == "post++" and T.access_path(src[3])[0] == ("global", "IPhreeqc::InstancesIndex")
        if okc:
            R.ok(RULE, inst, "Index = InstancesIndex++ in the constructor")
        else:
            R.violation(RULE, inst, "instance id assigned outside the constructor or not from InstancesIndex++",
                        file=f["file"], line=line, function=f["q"])



def filenames_rule(P, R):
    """"Instances do not influence each other's results": two instances in one directory write different default files because
    every default output file name embeds the instance id (create_file_name / sel_file_name).  A file-name member may only be
    written from such an id-derived default, from the parameter of its public Set...FileName method, or from a name the user's
    own input gave (-file of DUMP / SELECTED_OUTPUT: Get_file_name()).  Anything else - e.g. the engine's own id-less default
    handed down as a parameter - makes two instances share one file."""
    R.rule("C06.filenames", "output file-name members are written only from id-derived defaults, their public setter's parameter, or a -file name from the input", minimum=10)
    names = ("OutputFileName", "ErrorFileName", "LogFileName", "DumpFileName", "SelectedOutputFileNameMap")
    n = 0
    for key, f in sorted(P.functions.items()):
        if not f["q"].startswith("IPhreeqc::"):
            continue
        for x in T.walk(f["body"]):
            tgt = rhs = None
            if x[0] == "Bin" and x[2] == "=":
                tgt, rhs = x[3], x[4]
            elif x[0] == "Call" and T.callee_name(x) == "operator=" and len(x[4]) == 2:
                tgt, rhs = x[4][0], x[4][1]
            elif x[0] == "Call" and T.callee_name(x) == "operator=" and T.is_node(x[3]) and len(x[4]) == 1:
                tgt, rhs = x[3], x[4][0]
            if tgt is None:
                continue
            ms = [y[2].split("::")[-1] for y in T.walk(tgt) if y[0] == "Member"]
            hit = [m for m in ms if m in names]
            if not hit:
                continue
            n += 1
            inst = "%s:%s@%d" % (f["q"].split("::")[-1], hit[0], x[1])
            calls = [T.callee_name(c) for c in T.calls(rhs)] + ([T.callee_name(rhs)] if T.is_node(rhs) and rhs[0] == "Call" else [])
            params = [y[3] for y in T.walk(rhs) if y[0] == "Ref" and y[2] == "param"]
            setter = f["name"].startswith("Set") and f["name"].endswith("FileName")
            bad_params = [p_ for p_ in params if not setter and p_ in f["pnames"] and not p_.startswith("n")]     # user numbers (n_user) are keys, not names
            if any(c in ("create_file_name", "sel_file_name") for c in calls) and not bad_params:
                R.ok("C06.filenames", inst, "id-derived default")
            elif setter and params and not [c for c in calls if c in ("Get_file_name",)]:
                R.ok("C06.filenames", inst, "public setter parameter")
            elif "Get_file_name" in calls and not bad_params:
                R.ok("C06.filenames", inst, "-file name given by the input")
            else:
                R.violation("C06.filenames", inst, "`%s` is set from `%s`, which is neither an id-derived default (create_file_name / sel_file_name), the parameter of its public setter, nor a -file "
                            "name from the input: two instances in one directory can end up writing the same file" % (hit[0], T.text(rhs)[:80]), file=f["file"], line=x[1], function=f["q"])
    if n < 10:
        R.anchor_missing("C06.filenames", "only %d writes of file-name members found" % n)


PTRORDER_SAME_BUFFER = {
    # function -> reason: both pointers point into the same character buffer, the comparison is a position test
    "PBasic::my_memmove": "dd < ss: overlap test between two positions of one buffer",
    "PBasic::strrtrim": "s2 > l_s: scan position against the start of the same string",
}


def _ptr_type(n):
    n = T.strip_casts(n)
    if not T.is_node(n):
        return ""
    if n[0] in ("Member", "Ref"):
        return str(n[4])
    if n[0] == "Call" and isinstance(n[2], dict):
        return str(n[2].get("ret", ""))
    if n[0] == "Un" and n[2] == "&":
        return "addr *"
    if n[0] == "Bin" and n[2] in ("+", "-"):
        return _ptr_type(n[3])
    if n[0] == "Index":
        return ""
    return ""


def ptrorder_rule(P, R):
    """Allocation addresses differ between instances, processes and repetitions.  A result may depend on them only through
    identity (==, !=).  An *ordering* of two pointers (<, >, <=, >=), or - inside a sort comparator - their difference or a
    cast of a pointer to an integer, makes listing order or arithmetic depend on where malloc placed things.  Comparators
    are the functions whose address is passed to qsort / std::sort."""
    RULE = "C06.ptrorder"
    R.rule(RULE, "no ordering of pointers by address outside same-buffer position tests; sort comparators never order by address", minimum=12)
    comparators = {}
    for g in P.functions.values():
        for c in T.calls(g["body"]):
            if T.callee_name(c) in ("qsort", "sort", "stable_sort"):
                for a in c[4]:
                    a = T.strip_casts(a)
                    if T.is_node(a) and a[0] == "Ref" and a[2] == "func":
                        comparators[a[3]] = g["q"]
    if len(comparators) < 10:
        R.anchor_missing(RULE, "only %d sort comparators found" % len(comparators))
        return
    nrel = 0
    for g in sorted(P.functions.values(), key=lambda f: f["q"]):
        is_cmp = g["q"] in comparators
        bad = []
        for x in T.walk(g["body"]):
            if x[0] == "Bin" and x[2] in ("<", ">", "<=", ">=") or (is_cmp and x[0] == "Bin" and x[2] == "-"):
                a, b = _ptr_type(x[3]), _ptr_type(x[4])
                if a.rstrip().endswith("*") and b.rstrip().endswith("*"):
                    nrel += 1
                    if g["q"] in PTRORDER_SAME_BUFFER and not is_cmp:
                        R.ok(RULE, "%s:%s" % (g["q"], T.text(x)[:30]), PTRORDER_SAME_BUFFER[g["q"]])
                    else:
                        bad.append((x[1], "orders two pointers by address: `%s`" % T.text(x)[:80]))
            if is_cmp and x[0] == "Cast" and len(x) > 3:
                tt = str(x[2])
                if tt in ("size_t", "unsigned long", "long", "intptr_t", "uintptr_t", "int") and _ptr_type(x[3]).rstrip().endswith("*"):
                    bad.append((x[1], "casts a pointer to an integer in a comparator"))
        if is_cmp:
            if bad:
                for line, why in bad:
                    R.violation(RULE, "cmp:" + g["q"].split("::")[-1], "sort comparator (passed to the sort in %s) %s: the order of the sorted list depends on allocation addresses, which differ between instances and processes" % (comparators[g["q"]], why),
                                file=g["file"], line=line, function=g["q"])
            else:
                R.ok(RULE, "cmp:" + g["q"].split("::")[-1], "orders by values / strings only")
        else:
            for line, why in bad:
                R.violation(RULE, g["q"] + ":" + str(line), why + " (not a listed same-buffer position test)", file=g["file"], line=line, function=g["q"])


def staticinit_rule(P, R):
    """A function-local `static` is one object for the whole process, initialised by whichever call comes first.  If its initialiser
    reads the instance (a member, `this`, a call of a non-static member function such as string_hsave) the value belongs to that first
    instance: every later instance, and the same instance after a reload, compares against or dereferences state of another object - a
    const qualifier does not help, and no race detector sees it.  Every function-local static must have a constant initialiser: literals,
    initialiser lists of literals, addresses of globals / functions."""
    RULE = "C06.staticinit"
    R.rule(RULE, "function-local statics have constant initialisers (nothing read from the instance that happens to run first)", minimum=30)
    n = 0
    for k, g in sorted(P.functions.items(), key=lambda kv: kv[1]["q"]):
        for x in T.walk(g["body"]):
            if x[0] != "Decl":
                continue
            for d in x[2]:
                if not (isinstance(d, list) and len(d) > 3 and d[3] == "static"):
                    continue
                n += 1
                inst = "%s:%s" % (g["q"].split("::")[-1], d[0])
                init = d[2]
                bad = None
                if T.is_node(init):
                    for y in T.walk(init):
                        if y[0] == "This":
                            bad = "reads `this`"
                        elif y[0] == "Member" and T.is_node(y[3]) and any(z[0] == "This" for z in T.walk(y[3])):
                            bad = "reads the member %s" % y[2]
                        elif y[0] == "Call" and isinstance(y[2], dict) and y[2].get("k") in ("method", "virtual") and not y[2].get("static"):
                            bad = "calls the member function %s" % (T.callee_q(y) or "?")
                        elif y[0] == "Ref" and y[2] in ("local", "param"):
                            bad = "reads the local `%s`" % y[3]
                        if bad:
                            break
                if bad:
                    R.violation(RULE, inst, "the function-local static `%s` of %s %s in its initialiser: it keeps the value of the first instance that runs the function for every other "
                                "instance in the process" % (d[0], g["q"], bad), file=g["file"], line=x[1], function=g["q"])
                else:
                    R.ok(RULE, inst, "constant initialiser")
    if n < 30:
        R.anchor_missing(RULE, "only %d function-local statics found" % n)
