"""C04 – results depend only on the input text, not on how it is delivered or split.

Decided structurally:
  C04.components  "the same component list": every Run* call marks the cached component list stale before the engine reads anything, and
                ListComponents refreshes it iff stale (rule engine shared with C14.components)
  C04.siblings  the three delivery entry points RunString / RunFile / RunAccumulated run the same procedure: equal event
                sequences (calls on the instance and its engine, field writes) inside the try, equal handler ladders and equal
                tails, up to the stream construction and the accumulated-lines bookkeeping; AccumulateLine honours the lazy
                clear flag before appending
  C04.loop      the per-call driver IPhreeqc::do_run executes, per simulation, the same ordered list of engine phases under
                the same engine-side guards as the stand-alone loop Phreeqc::run_simulations (which is compiled into the
                library, so the reference moves with the code); wrapper-only steps and switches are allowed in between
  C04.percall   who-may-write: the engine state that the wrapper writes on the per-call path is exactly the frozen transient
                set (simulation counter, first_read_input, error counters, print switches, punch streams, the forced
                selected-output heading flag ...) - no definition store is touched per call
  C04.counter   engine code does not branch on scalars that restart in every call (simulation counter, first_read_input)
                outside a frozen list of functions (printing them or returning them to BASIC is fine)
  C04.retidy    the names of a SELECTED_OUTPUT block are resolved to species / phases / master species by tidy_punch only; the
                engine re-runs it when a simulation contains a keyword whose reader can define such an entity.  Every keyword
                whose reader (the case of Phreeqc::read_input) may reach s_store / phase_store / master_alloc must be among the
                keywords under which tidy_model calls tidy_punch (flags such as new_model expanded to their keycount
                disjunctions); otherwise a definition delivered in the same call as the block stays unresolved while the same
                text delivered in a later call is resolved (the wrapper forces a re-tidy at the start of every call)
  C04.restore   options persist between calls until redefined: engine code that temporarily overrides a member (save it in a
                local, override, put the local back) keeps the three steps loop-coherent - a save executed inside a loop has its
                restore inside that same loop; otherwise a later iteration saves the overridden value and the "restore" makes
                the override permanent (e.g. PRINT -selected_output false switched back on when two blocks write headings)
  C04.forced    the only per-call forced flag, SelectedOutput::new_def, may steer heading output only: engine code that is
                control-dependent on it writes no SelectedOutput data (name -> pointer resolution etc.) and no engine member
                other than the print/punch switches
Not decided: (d) equality of observable results over all cut points (whether a legitimately per-call re-initialised variable
leaks into results is behavioural).
"""
import json
import os

from .. import tree as T
from .. import shape as SH
from ..callgraph import get as callgraph
from ..facts import VERIF

PROP = "C04"
EXPLANATION = __doc__

PHASES = ["read_input", "tidy_model", "initial_solutions", "initial_exchangers", "initial_surfaces", "initial_gas_phases", "reactions",
          "inverse_models", "advection", "transport", "run_as_cells", "do_mixes", "copy_entities", "dump_entities", "delete_entities"]


def load_table(name):
    return json.load(open(os.path.join(VERIF, "tables", name)))


def events(body, skip_locals=()):
    """ordered (kind, what) events of a statement list: calls of IPhreeqc/Phreeqc/PHRQ_io methods and writes of their members"""
    out = []

    def visit(n):
        for ev, cond in T.ordered_events(n, lambda x: x[0] in ("Call", "Bin", "Un")):
            if ev[0] == "Call":
                c = ev[2]
                if isinstance(c, dict) and c.get("proj") and c.get("cls") in ("IPhreeqc", "Phreeqc", "PHRQ_io"):
                    out.append(("call", c.get("q"), cond))
            elif ev[0] == "Bin" and ev[2] in T.ASSIGN_OPS:
                root, steps = T.access_path(ev[3])
                if root == ("this",) and steps:
                    out.append(("write", ".".join(s[1].split("::")[-1] for s in steps if s[0] == "f"), T.lit_value(ev[4])))
    for s in body:
        if T.is_node(s):
            visit(s)
    return out


class _Renamed:
    """view of a report that files another property's rule under a name of this property (shared engine, one verdict per property)"""

    def __init__(self, R, old, new):
        self._R, self._old, self._new = R, old, new

    def _n(self, rule):
        return self._new if rule == self._old else rule

    def rule(self, name, *a, **k):
        return self._R.rule(self._n(name), *a, **k)

    def ok(self, rule, *a, **k):
        return self._R.ok(self._n(rule), *a, **k)

    def violation(self, rule, *a, **k):
        return self._R.violation(self._n(rule), *a, **k)

    def anchor_missing(self, rule, *a, **k):
        return self._R.anchor_missing(self._n(rule), *a, **k)

    def __getattr__(self, name):
        return getattr(self._R, name)


def run(P, R, tier):
    rowclose_rule(P, R)
    R.undecided += ["(d) observable equality over all cut points of the input (behavioural)"]
    # "the same component list": the cache of the component list is invalidated by every call before the engine runs and refreshed on
    # demand (shared with C14.components)
    from . import c14 as C14
    C14.component_rules(P, _Renamed(R, "C14.components", "C04.components"), None, None)
    tab = load_table("c04_percall.json")
    R.table("c04_percall.json", tab)
    cg = callgraph(P)

    # ------------------------------------------------------------------ C04.siblings
    R.rule("C04.siblings", "RunString, RunFile and RunAccumulated run the same procedure up to stream construction and accumulated-lines bookkeeping", minimum=7)
    fs = {q: P.one("IPhreeqc::" + q) for q in ("RunString", "RunFile", "RunAccumulated")}
    seqs, ladders, tails = {}, {}, {}
    for q, f in fs.items():
        st = [s for s in f["body"][2] if T.is_node(s)]
        trys = [s for s in st if s[0] == "Try"]
        if len(trys) != 1:
            R.anchor_missing("C04.siblings", "%s: expected one try block" % q)
            return
        t = trys[0]
        ev = events(t[2][2] if t[2][0] == "Compound" else [t[2]])
        # allowed differences
        ev = [e for e in ev if not (e[0] == "call" and e[1] == "IPhreeqc::ClearAccumulatedLines") and not (e[0] == "write" and e[1] == "ClearAccumulated")
              and not (e[0] == "call" and e[1] == "IPhreeqc::GetAccumulatedLines")]
        if q == "RunFile":
            # the "cannot open file" error is part of the stream construction
            ev2 = []
            for e in ev:
                if e[0] == "call" and e[1] == "Phreeqc::error_msg" and e[2] is False and not any(x[1] == "IPhreeqc::do_run" for x in ev2):
                    # conditional flag is False only for top-level statements; the open failure sits inside an if -> ordered_events gives cond False there too
                    pass
                ev2.append(e)
            ev = [e for e in ev if not (e[0] == "call" and e[1] == "Phreeqc::error_msg")]
        seqs[q] = [(e[0], e[1]) + ((e[2],) if e[0] == "write" else ()) for e in ev]
        sub = {"RunString": "#R", "RunFile": "#R", "RunAccumulated": "#R"}
        ladders[q] = tuple((h[0], SH.shape(h[1], {}, keep_str=False)) for h in t[3])
        ti = st.index(t)
        tails[q] = [(e[0], e[1]) + ((e[2],) if e[0] == "write" else ()) for e in events(st[ti + 1:]) if not (e[0] == "write" and e[1] == "ClearAccumulated")]
    ref = "RunString"
    for q in ("RunFile", "RunAccumulated"):
        f = fs[q]
        where = dict(file=f["file"], line=f["line"], function=f["q"])
        for what, table in (("try body", seqs), ("tail", tails)):
            inst = "%s~%s:%s" % (ref, q, what.replace(" ", "-"))
            if table[q] == table[ref]:
                R.ok("C04.siblings", inst, " > ".join(e[1].split("::")[-1] + ("=%s" % e[2] if len(e) > 2 else "") for e in table[q])[:150])
            else:
                a, b = table[ref], table[q]
                d = next((i for i in range(min(len(a), len(b))) if a[i] != b[i]), min(len(a), len(b)))
                R.violation("C04.siblings", inst, "%s of %s differs from %s at step %d: %s vs %s - the same input runs through a different procedure depending on how it is delivered"
                            % (what, q, ref, d, a[d] if d < len(a) else "(end)", b[d] if d < len(b) else "(end)"), **where)
        inst = "%s~%s:handlers" % (ref, q)
        la, lb = ladders[ref], ladders[q]
        # IPhreeqcStop handler may differ in close_input_files (file delivery); others must be equal
        same = len(la) == len(lb) and all(x[0] == y[0] for x, y in zip(la, lb)) and all(x[1] == y[1] for x, y in zip(la, lb) if "IPhreeqcStop" not in x[0])
        if same:
            R.ok("C04.siblings", inst, " | ".join(h[0] for h in la))
        else:
            R.violation("C04.siblings", inst, "handler ladders of %s and %s differ" % (ref, q), **where)
    # lazy clear in AccumulateLine
    al = P.one("IPhreeqc::AccumulateLine")
    ok = False
    for x in T.walk(al["body"]):
        if x[0] == "If" and any(y[0] == "Member" and y[2] == "IPhreeqc::ClearAccumulated" for y in T.walk(x[2])):
            if any(T.callee_q(c) == "IPhreeqc::ClearAccumulatedLines" for c in T.calls(x[3])) and any(
                    T.access_path(t)[1] == [("f", "IPhreeqc::ClearAccumulated")] and T.lit_value(n[4]) == 0 for t, how, l, n in T.writes(x[3]) if n[0] == "Bin"):
                # must precede the append
                app = [c[1] for c in T.calls(al["body"]) if T.callee_name(c) == "append"]
                if app and x[1] < min(app):
                    ok = True
    ra = fs["RunAccumulated"]
    sets_flag = any(T.access_path(t)[1] == [("f", "IPhreeqc::ClearAccumulated")] and T.lit_value(n[4]) == 1 for t, how, l, n in T.writes(ra["body"]) if n[0] == "Bin")
    if ok and sets_flag:
        R.ok("C04.siblings", "AccumulateLine:lazy-clear", "RunAccumulated sets ClearAccumulated; AccumulateLine clears the buffer before the next append")
    else:
        R.violation("C04.siblings", "AccumulateLine:lazy-clear", "the lazy clear of accumulated lines is broken (RunAccumulated sets flag: %s, AccumulateLine honours it before appending: %s)"
                    % (sets_flag, ok), file=al["file"], line=al["line"], function=al["q"])

    # ------------------------------------------------------------------ C04.loop
    R.rule("C04.loop", "do_run executes per simulation the same engine phases under the same engine-side guards as run_simulations", minimum=15)
    dr = P.one("IPhreeqc::do_run")
    rs = P.one("Phreeqc::run_simulations")

    def phase_list(f):
        loops = [x for x in T.walk(f["body"]) if x[0] == "For" and any(T.callee_name(c) == "read_input" for c in T.calls(x[5]))]
        if len(loops) != 1:
            return None
        out = []

        def rec(n, guards):
            if not T.is_node(n):
                return
            if n[0] == "If":
                g = set()
                for y in T.walk(n[2]):
                    if y[0] == "Member" and y[2].startswith(("Phreeqc::", "cxxUse::")):
                        g.add(y[2].split("::")[-1])
                    if y[0] == "Call" and isinstance(y[2], dict) and y[2].get("cls") in ("cxxUse", "Phreeqc"):
                        g.add(T.callee_name(y))
                # the condition itself may contain a phase (read_input() == EOF)
                for c in T.calls(n[2]):
                    if T.callee_name(c) in PHASES and isinstance(c[2], dict) and c[2].get("cls") == "Phreeqc":
                        out.append((T.callee_name(c), tuple(sorted(guards)), c[1]))
                rec(n[3], guards | g)
                rec(n[4], guards | g)
                return
            if n[0] == "Call" and isinstance(n[2], dict) and n[2].get("cls") == "Phreeqc" and T.callee_name(n) in PHASES:
                out.append((T.callee_name(n), tuple(sorted(guards)), n[1]))
            for c in T.children(n):
                rec(c, guards)
        rec(loops[0][5], set())
        return out
    a, b = phase_list(dr), phase_list(rs)
    if a is None or b is None:
        R.anchor_missing("C04.loop", "simulation loop not found in do_run / run_simulations")
    else:
        # tidy_punch inside the per-call file-open block of do_run is a wrapper-only step: only PHASES are compared
        la = [(p, g) for p, g, l in a]
        lb = [(p, g) for p, g, l in b]
        for i in range(max(len(la), len(lb))):
            x = la[i] if i < len(la) else None
            y = lb[i] if i < len(lb) else None
            inst = "phase#%d:%s" % (i + 1, (y or x)[0])
            if x == y:
                R.ok("C04.loop", inst, "guards %s" % (list(x[1]) or "none"))
            else:
                line = a[i][2] if i < len(a) else dr["line"]
                R.violation("C04.loop", inst, "per-call driver and stand-alone loop disagree at phase %d: do_run has %s, run_simulations has %s - the same input text is "
                            "processed differently through the API" % (i + 1, x, y), file=dr["file"], line=line, function=dr["q"])
                break

    # ------------------------------------------------------------------ C04.percall
    R.rule("C04.percall", "engine state written by the wrapper on the per-call path is exactly the frozen transient set", minimum=8)
    allowed = {e["target"]: e["reason"] for e in tab["engine_writes"]}
    roots = [fs[q]["key"] for q in fs]
    percall = [k for k in cg.reach_from(roots) if P.functions[k]["q"].startswith("IPhreeqc::") and P.functions[k]["q"] not in ("IPhreeqc::UnLoadDatabase",)]
    seen = {}
    for k in sorted(percall):
        f = P.functions[k]
        # locals that alias engine members (iterators / references obtained from PhreeqcPtr-><member>)
        alias = {}
        for x in T.walk(f["body"]):
            if x[0] == "Decl":
                for d in x[2]:
                    if T.is_node(d[2]):
                        r_, st_ = T.access_path(d[2])
                        if r_ == ("this",) and len(st_) >= 2 and st_[0] == ("f", "IPhreeqc::PhreeqcPtr") and st_[1][0] == "f":
                            alias.setdefault(d[0], st_[1][1].split("::")[-1])
        for t, how, line, n in T.writes(f["body"]):
            root, steps = T.access_path(t)
            tgt = None
            if root == ("this",) and steps and steps[0] == ("f", "IPhreeqc::PhreeqcPtr"):
                flds = [s_[1].split("::")[-1] for s_ in steps[1:] if s_[0] == "f"]
                if not flds:
                    continue            # a call of an engine method, not a write of engine state
                tgt = ".".join(flds[:2])
            elif root[0] == "local" and root[1] in alias:
                tgt = alias[root[1]]
            if tgt is None:
                continue
            if how.startswith("call:"):
                m = how[5:]
                if m.startswith(("Get_", "get_")) or m in ("begin", "end", "find", "size", "c_str", "str", "empty", "operator++", "operator--", "operator=") and root[0] == "local":
                    continue
                if m.startswith(("Get_", "get_")) or m in ("begin", "end", "find", "size", "c_str", "str", "empty"):
                    continue
                tgt = tgt + ":" + m
            seen.setdefault(tgt, (f, line))
    for tgt, (f, line) in sorted(seen.items()):
        base = tgt.split(":")[0]
        if tgt in allowed or base in allowed:
            R.ok("C04.percall", tgt, "transient: " + allowed.get(tgt, allowed.get(base)))
        else:
            R.violation("C04.percall", tgt, "%s writes engine state `%s` on the per-call path (line %d); it is not in the transient set: the result of a later call then "
                        "depends on how the input was split into calls" % (f["q"], tgt, line), file=f["file"], line=line, function=f["q"])
    for tgt in allowed:
        if tgt not in seen and tgt.split(":")[0] not in [s.split(":")[0] for s in seen]:
            R.anchor_missing("C04.percall", "table row `%s` matches no write any more" % tgt)

    # ------------------------------------------------------------------ C04.forced
    forced_rule(P, R, tab)
    counter_rule(P, R, tab)
    retidy_rule(P, R)
    sonewdef_rule(P, R)
    restore_rule(P, R)


def forced_rule(P, R, tab):
    R.rule("C04.forced", "engine code control-dependent on the per-call forced flag SelectedOutput::new_def only produces headings", minimum=1)
    allowed_members = set(tab["forced_flag_region_may_write"])

    def resident(obj):
        """is the SelectedOutput whose flag is read stored in the engine (SelectedOutput_map / current_selected_output)?"""
        root, steps = T.access_path(obj)
        if root == ("this",) and steps and steps[0][0] == "f" and steps[0][1].split("::")[-1] in ("current_selected_output", "SelectedOutput_map"):
            return True
        if root[0] == "local":
            return root[1] in resident_locals
        return False

    def reads_flag(n):
        for y in T.walk(n):
            if y[0] == "Call" and T.callee_q(y) == "SelectedOutput::Get_new_def" and T.is_node(y[3]) and resident(y[3]):
                return True
            if y[0] == "Member" and y[2] == "SelectedOutput::new_def" and T.is_node(y[3]) and resident(y[3]):
                return True
        return False
    n_regions = 0
    for key, f in sorted(P.functions.items()):
        if not f["q"].startswith("Phreeqc::"):
            continue
        resident_locals = set()
        for x in T.walk(f["body"]):
            if x[0] == "Decl":
                for d in x[2]:
                    if T.is_node(d[2]) and any(y[0] == "Member" and y[2] in ("Phreeqc::SelectedOutput_map", "Phreeqc::current_selected_output") for y in T.walk(d[2])):
                        resident_locals.add(d[0])
        # local references into SelectedOutput objects
        refs = {}
        for x in T.walk(f["body"]):
            if x[0] == "Decl":
                for d in x[2]:
                    if "&" in d[1] and T.is_node(d[2]) and any(isinstance(c[2], dict) and c[2].get("cls") == "SelectedOutput" for c in T.calls(d[2])):
                        refs[d[0]] = d[2]
        for blk in T.walk(f["body"]):
            if blk[0] != "Compound":
                continue
            stmts = [s for s in blk[2] if T.is_node(s)]
            for i, s in enumerate(stmts):
                if s[0] != "If" or not reads_flag(s[2]):
                    continue
                n_regions += 1
                region = [s[3]] + ([s[4]] if T.is_node(s[4]) else [])
                leaves = any(y[0] in ("Continue", "Return", "Break", "Goto") for br in region for y in T.walk(br))
                if leaves:
                    region += stmts[i + 1:]
                bad = []
                for r in region:
                    for t, how, line, n in T.writes(r):
                        root, steps = T.access_path(t)
                        if root[0] == "local":
                            if root[1] in refs and steps:
                                bad.append((line, "SelectedOutput data through reference `%s`" % root[1]))
                            continue
                        if root[0] == "call":
                            c = root[1]
                            if isinstance(c[2], dict) and c[2].get("cls") == "SelectedOutput" and not c[2].get("const"):
                                bad.append((line, "SelectedOutput data through %s()" % T.callee_name(c)))
                            continue
                        if root == ("this",) and steps:
                            fld = steps[0][1].split("::")[-1]
                            if how.startswith("call:") and how[5:] in ("Set_new_def",):
                                continue
                            if fld in allowed_members:
                                continue
                            # writes into SelectedOutput objects via current_selected_output->Set_x / Get_x()
                            if fld == "current_selected_output":
                                if how.startswith("call:") and (how[5:] in ("Set_new_def", "Set_punch_ostream") or how[5:].startswith("Get_")):
                                    continue
                                bad.append((line, "SelectedOutput state via current_selected_output (%s)" % how))
                                continue
                            bad.append((line, "engine member %s" % fld))
                inst = "%s@if#%d" % (f["q"], n_regions)
                if bad:
                    R.violation("C04.forced", inst, "code controlled by SelectedOutput::new_def (forced true by every API call) writes %s at line %d: whether it runs depends "
                                "on where the input is cut into calls" % (bad[0][1], bad[0][0]), file=f["file"], line=s[1], function=f["q"])
                else:
                    R.ok("C04.forced", inst, "heading output only")
    if n_regions == 0:
        R.anchor_missing("C04.forced", "no engine code reads SelectedOutput::new_def any more")


def counter_rule(P, R, tab):
    """Engine scalars that restart with every API call (the simulation counter, first_read_input) may be printed or returned
    to BASIC, but a branch on them makes engine behaviour depend on where the input is cut into calls."""
    R.rule("C04.counter", "engine code does not branch on scalars that restart in every API call (simulation, first_read_input) outside the listed functions", minimum=2)
    for name, row in tab["per_call_counters"].items():
        if name == "comment":
            continue
        fq = "Phreeqc::" + name
        allowed = row["may_branch"]
        seen = set()
        nread = 0
        for key, f in sorted(P.functions.items()):
            if f["q"].startswith("IPhreeqc::"):
                continue
            for x in T.walk(f["body"]):
                cond = None
                if x[0] == "If":
                    cond = x[2]
                elif x[0] == "While":
                    cond = x[2]
                elif x[0] == "For":
                    cond = x[3]
                elif x[0] == "Do":
                    cond = x[3]
                elif x[0] == "Cond":
                    cond = x[2]
                elif x[0] == "Switch":
                    cond = x[2]
                if not T.is_node(cond):
                    continue
                if x[0] == "For" and f["q"] in ("Phreeqc::run_simulations",):
                    pass
                if any(y[0] == "Member" and y[2] == fq for y in T.walk(cond)):
                    nread += 1
                    inst = "%s@%s" % (name, f["q"])
                    if f["q"] in allowed:
                        if inst not in seen:
                            R.ok("C04.counter", inst, "allowed: " + allowed[f["q"]])
                        seen.add(inst)
                    else:
                        R.violation("C04.counter", inst, "%s branches on `%s` (line %d), which restarts in every API call: the same input behaves differently "
                                    "depending on where it is cut into Run* calls" % (f["q"], name, x[1]), file=f["file"], line=x[1], function=f["q"])
        for fn_ in allowed:
            if "%s@%s" % (name, fn_) not in seen:
                if not P.fns_named(fn_):
                    R.anchor_missing("C04.counter", "allowed function %s no longer exists" % fn_)
        if nread == 0:
            R.ok("C04.counter", name, "no engine branch reads it")


def keycount_terms(n, flags=None):
    """keywords K for which `keycount[K]` occurs in n (flags expanded)"""
    out = set()
    for x in T.walk(n):
        if x[0] == "Call" and T.callee_name(x) == "operator[]" and len(x[4]) == 2:
            m, k = T.strip_casts(x[4][0]), T.strip_casts(x[4][1])
            if m[0] == "Member" and m[2] == "Phreeqc::keycount" and k[0] == "Ref" and k[2] == "enum":
                out.add(k[3].split("::")[-1])
        if flags and x[0] == "Member" and x[2] in flags:
            out |= flags[x[2]]
    return out


def retidy_rule(P, R):
    R.rule("C04.retidy", "every keyword whose reader can define a species, phase or master species makes tidy_model re-resolve the selected-output names (tidy_punch)", minimum=5)
    cg = callgraph(P)
    tm = P.one("Phreeqc::tidy_model")
    tp = P.one("Phreeqc::tidy_punch")
    ri = P.one("Phreeqc::read_input")
    where = dict(file=tm["file"], function=tm["q"])
    # slot 1: the look-ups tidy_punch resolves names with, and the store functions that feed them
    pairs = {"s_search": "Phreeqc::s_store", "phase_bsearch": "Phreeqc::phase_store", "master_bsearch": "Phreeqc::master_alloc"}
    used = set(T.callee_name(c) for c in T.calls(tp["body"]))
    stores = set()
    for lk, st in pairs.items():
        if lk not in used:
            R.anchor_missing("C04.retidy", "tidy_punch no longer resolves names with %s" % lk)
            return
        ks = [k for k, g in P.functions.items() if g["q"] == st]
        if not ks:
            R.anchor_missing("C04.retidy", "%s not found" % st)
            return
        stores.update(ks)
    reach = cg.reach_to(stores)
    # slot 2: keyword -> reader from the dispatch switch of read_input
    defining = {}
    for sw in T.walk(ri["body"]):
        if sw[0] != "Switch":
            continue
        body = sw[3]
        cur = []
        for st in (body[2] if body[0] == "Compound" else [body]):
            node = st
            while T.is_node(node) and node[0] in ("Case", "Default"):
                if node[0] == "Case":
                    lab = T.strip_casts(node[2])
                    if lab[0] == "Ref" and lab[2] == "enum":
                        cur.append(lab[3].split("::")[-1])
                    node = node[4]
                else:
                    node = node[2]
            if T.is_node(node):
                for c in T.calls(node):
                    if isinstance(c[2], dict):
                        hit = [k for k in cg.resolve(c[2], ri) if k in reach]
                        if hit:
                            for kw in cur:
                                defining.setdefault(kw, P.functions[hit[0]]["q"])
                if node[0] in ("Break", "Goto", "Return"):
                    cur = []
    if len(defining) < 5:
        R.anchor_missing("C04.retidy", "fewer than 5 defining keywords derived from read_input (%s)" % sorted(defining))
        return
    # slot 3: flags of tidy_model and the guard of tidy_punch
    flags = {}
    for x in T.walk(tm["body"]):
        if x[0] == "If" and not T.is_node(x[4]):
            ws = [w for w in T.walk(x[3]) if w[0] == "Bin" and w[2] == "=" and T.strip_casts(w[3])[0] == "Member" and T.lit_value(w[4]) == 1]
            kt = keycount_terms(x[2])
            if kt and len(ws) == 1:
                flags.setdefault(T.strip_casts(ws[0][3])[2], set()).update(kt)
    guard = None

    def rec(n, conds):
        nonlocal guard
        if not T.is_node(n):
            return
        if n[0] == "If":
            rec(n[3], conds + [n[2]])
            rec(n[4], conds)
            return
        if n[0] == "Call" and T.callee_q(n) == "Phreeqc::tidy_punch":
            guard = (n, conds)
        for c in T.children(n):
            rec(c, conds)
    rec(tm["body"], [])
    if guard is None:
        R.anchor_missing("C04.retidy", "tidy_model no longer calls tidy_punch")
        return
    call, conds = guard
    covered = None
    for cd in conds:
        kt = keycount_terms(cd, flags)
        if kt:
            covered = kt if covered is None else covered & kt
    for kw, reader in sorted(defining.items()):
        if covered is None or kw in covered:
            R.ok("C04.retidy", kw, "reader %s can define an entity; tidy_punch re-run under this keyword" % reader)
        else:
            R.violation("C04.retidy", kw, "%s can define a species / phase / master species (via %s) but tidy_model does not call tidy_punch when only this keyword is present: a "
                        "SELECTED_OUTPUT name defined later in the same call stays unresolved, while in a separate call the wrapper's forced re-tidy resolves it"
                        % (kw, reader), line=call[1], **where)


def restore_rule(P, R):
    R.rule("C04.restore", "engine save/override/restore idioms are loop-coherent: a save inside a loop has its restore inside the same loop", minimum=20)
    LOOPS = ("For", "While", "Do", "RangeFor")

    def mpath(n):
        n = T.strip_casts(n)
        if T.is_node(n) and n[0] == "Member":
            return T.text(n).replace(" ", "")
        return None
    cnt = 0
    for key, f in sorted(P.functions.items()):
        if not f["q"].startswith("Phreeqc::"):
            continue
        saves, restores = {}, []

        def rec(n, loops):
            if not T.is_node(n):
                return
            if n[0] in LOOPS:
                for c in T.children(n):
                    rec(c, loops + [n[1]])
                return
            if n[0] == "Bin" and n[2] == "=":
                l, r = T.strip_casts(n[3]), T.strip_casts(n[4])
                if l[0] == "Ref" and l[2] == "local" and mpath(r):
                    saves.setdefault((l[3], mpath(r)), []).append((n[1], tuple(loops)))
                if r[0] == "Ref" and r[2] == "local" and mpath(l):
                    restores.append((r[3], mpath(l), n[1], tuple(loops)))
            if n[0] == "Decl":
                for d in n[2]:
                    if T.is_node(d[2]) and mpath(d[2]):
                        saves.setdefault((d[0], mpath(d[2])), []).append((n[1], tuple(loops)))
            for c in T.children(n):
                rec(c, loops)
        rec(f["body"], [])
        for loc, m, line, loops in restores:
            sv = [s_ for s_ in saves.get((loc, m), []) if s_[0] < line]
            if not sv:
                continue
            cnt += 1
            inst = "%s:%s@%d" % (f["q"].split("::")[-1], m.split(".")[-1], line)
            bad = [s_ for s_ in sv if not (len(s_[1]) <= len(loops) and loops[:len(s_[1])] == s_[1])]
            if bad:
                R.violation("C04.restore", inst, "`%s` is saved in `%s` inside the loop at line %d (line %d) but put back at line %d outside that loop: from the second iteration on the saved "
                            "value is the overridden one, and the restore makes the temporary value permanent" % (m, loc, bad[0][1][-1], bad[0][0], line),
                            file=f["file"], line=line, function=f["q"])
            else:
                R.ok("C04.restore", inst, "save (line %s) and restore in the same loop nest" % ",".join(str(s_[0]) for s_ in sv))
    if cnt < 20:
        R.anchor_missing("C04.restore", "only %d save/restore idioms found in the engine" % cnt)


def sonewdef_rule(P, R):
    """A SELECTED_OUTPUT 1 block that only switches options (-user_punch, -active, nothing at all) keeps the lists of the stored block;
    one that names lists replaces it.  read_selected_output decides this with the new_def flag of the block *being read*: false at
    the start, true as soon as a list option is read.  The same flag on the *stored* block means "headings still to be written" and is
    forced on by do_run at every call boundary.  If the reader takes its flag from the stored block, whether a re-declaration keeps or
    drops the lists depends on where the input was cut into calls.  Every Set_new_def on the block being read must have a literal
    argument."""
    RULE = "C04.sonewdef"
    R.rule(RULE, "read_selected_output sets new_def of the block it reads from literals only (never from the stored block's flag)", minimum=20)
    f = P.one("Phreeqc::read_selected_output")
    n = 0
    for c in T.calls(f["body"]):
        if T.callee_q(c) != "SelectedOutput::Set_new_def" or not c[4]:
            continue
        n += 1
        a = T.strip_casts(c[4][0])
        inst = "Set_new_def@%d" % c[1]
        if T.is_node(a) and a[0] == "Lit":
            R.ok(RULE, inst, "literal")
        else:
            R.violation(RULE, inst, "the block being read takes new_def from `%s`: after a call boundary (do_run marks every stored block new) a SELECTED_OUTPUT 1 re-declaration without "
                        "list options replaces the stored block and its -totals / -molalities / ... columns disappear; inside one call it keeps them" % T.text(a)[:50],
                        file=f["file"], line=c[1], function=f["q"])
    if n < 20:
        R.anchor_missing(RULE, "read_selected_output: only %d Set_new_def calls" % n)


def rowclose_rule(P, R):
    """"Running ... in one call, or split at simulation (END) boundaries over successive calls ... produces the same selected-output rows":
    the wrapper's value table is rebuilt for every call, so a row must be complete when the punch of a cell is over.  punch_all ends the
    row of every block with fpunchf_end_row after the last punch function; that call must be executed on every pass of the block loop -
    a direct statement of the loop body, after punch_user_punch - and not only when a line feed is written (NO_NEWLINE$, -new_line
    false): a row left pending is merged into the next punch of the same call, but lost at a call boundary."""
    RULE = "C04.rowclose"
    R.rule(RULE, "punch_all: the table row of each block is ended unconditionally after the last punch function of the block", minimum=1)
    f = P.one("Phreeqc::punch_all")
    bodies = [blk for blk in T.walk(f["body"]) if blk[0] == "Compound" and any(T.is_node(st) and st[0] == "Call" and T.callee_name(st) == "punch_user_punch" for st in blk[2])]
    if len(bodies) != 1:
        R.anchor_missing(RULE, "punch_all: the block loop body (direct call of punch_user_punch) was found %d times" % len(bodies))
        return
    st = bodies[0][2]
    last_punch = max(i for i, x in enumerate(st) if T.is_node(x) and x[0] == "Call" and T.callee_name(x).startswith("punch_") and T.callee_name(x) not in ("punch_msg", "punch_flush"))
    direct = [i for i, x in enumerate(st) if T.is_node(x) and x[0] == "Call" and T.callee_name(x) == "fpunchf_end_row"]
    nested = [x[1] for i, x in enumerate(st) if T.is_node(x) and x[0] != "Call" and any(T.callee_name(c) == "fpunchf_end_row" for c in T.calls(x))]
    if direct and direct[0] > last_punch:
        R.ok(RULE, "punch_all", "fpunchf_end_row is a direct statement of the loop body after the last punch function")
    else:
        R.violation(RULE, "punch_all", "the row of a block is ended %s: when the condition fails (NO_NEWLINE$, -new_line false) the punched cells stay pending, are merged "
                    "into the next punch of the same call and lost at a call boundary" % ("only under a condition (line %d)" % nested[0] if nested else "nowhere in the loop body"),
                    file=f["file"], line=nested[0] if nested else f["line"], function=f["q"])
