"""C17 – BASIC programs compute standard arithmetic, string and control-flow semantics.

Decided structurally (PBasic.cpp only):
  C17.tokens    token-table / dispatch agreement: every token the tokenizer can produce (spelling table + punctuation assigned
                in parse) has a listtokens case (un-parse) and is consumed by exactly one role: a statement case of exec, a
                function case of factor, an operator level of the expression grammar, or the frozen set of purely syntactic
                tokens; no spelling maps to two tokens; every spelled token exists in the enum
  C17.layout    every token used inside a `1L << tok` bit mask has a value < 32 (larger values are silently dropped by the
                `kind < 32` guard); the relational tokens tokeq..tokne occupy six consecutive values in the order = < > <= >= <>
                that the range mask of relexpr relies on
  C17.masks     operator masks evaluated from the enumerator values: relexpr's loop accepts exactly the six relational
                tokens; in BOTH the string and the numeric branch the `equal` disjunct is {=,>=,<=}, the `less` disjunct
                {<,<=,<>} and the `greater` disjunct {>,>=,<>}; term accepts {*,/,MOD}, sexpr {+,-}, expr {OR,XOR}
  C17.ops       the branch selected by each operator token applies the matching C++ operation: * -> *=, / -> /= (zero divisor
                handled), MOD -> fmod, + -> += / strcat, - -> -=, ^ -> exp(y*log x), AND -> &, OR -> |, XOR -> ^ on (long) casts
  C17.next      FOR/NEXT: the step is added to the loop variable in place before the limit test
                (step<0 || v<=max) && (step>0 || v>=max); the continuing branch jumps to the loop's home line
  C17.chain     precedence is the strict chain expr > andexpr > relexpr > sexpr > term > upexpr > factor (each level parses its
                operands with the next level; ^ is right-associative)
  C17.datacursor  READ / RESTORE: the editor (phreeqci_gui) and batch branches are the same algorithm
  C17.let       LET re-installs the saved target element after evaluating the right-hand side
  C17.findline  a jump to an undefined line is an error: findline's search loop, evaluated over {cursor null, non-null} x
                {num < n, num = n, num > n}, continues exactly while the cursor exists and its number differs from n; it returns the
                cursor; the batch branch of mustfindline raises `Undefined line` on NULL
  C17.onrecord  ON..GOSUB: after cmdon pushes the GOSUB record every path either jumps (cmdgoto) or pops it again (an index that selects no
                line must not leave a stale record on the loop stack)
Not decided: (e) arithmetic/string results for all programs, (f) malformed programs always give a BASIC error.
"""
import json
import os

from .. import tree as T
from ..facts import VERIF

PROP = "C17"
EXPLANATION = __doc__


def enum_ref(n):
    n = T.strip_casts(n)
    if T.is_node(n) and n[0] == "Ref" and n[2] == "enum" and "tok" in n[3].split("::")[-1][:3]:
        return n[3].split("::")[-1]
    return None


def const_eval(n, vals):
    """integer value of a constant expression over token enumerators, literals, << | - + ()"""
    n = T.strip_casts(n)
    if not T.is_node(n):
        return None
    v = T.lit_value(n)
    if v is not None and not (n[0] == "Ref"):
        return v
    if n[0] == "Ref" and n[2] == "enum":
        return n[5]
    if n[0] == "Bin" and n[2] in ("<<", "|", "-", "+", "&"):
        a, b = const_eval(n[3], vals), const_eval(n[4], vals)
        if a is None or b is None:
            return None
        return {"<<": a << b, "|": a | b, "-": a - b, "+": a + b, "&": a & b}[n[2]]
    return None


def mask_tokens(value, vals):
    return set(k for k, v in vals.items() if 0 <= v < 64 and value & (1 << v))


def flatten(n, op):
    n = T.strip_casts(n)
    if T.is_node(n) and n[0] == "Bin" and n[2] == op:
        return flatten(n[3], op) + flatten(n[4], op)
    return [n]


def find_masks(n, vals, kvar=None):
    """[(constant mask value, node)] for sub-expressions `(1L << X) & MASK` where MASK is constant"""
    out = []
    for x in T.walk(n):
        if x[0] == "Bin" and x[2] == "&":
            l, r = T.strip_casts(x[3]), T.strip_casts(x[4])
            for a, b in ((l, r), (r, l)):
                if T.is_node(a) and a[0] == "Bin" and a[2] == "<<" and const_eval(a, vals) is None:
                    m = const_eval(b, vals)
                    if m is not None:
                        out.append((m, x))
    return out


def next_rule(P, R, fn):
    """NEXT adds the step to the loop variable IN PLACE and unconditionally, then tests the limit: after normal termination
    the variable holds the first value beyond the limit (standard BASIC; programs read it, e.g. search loops).  The test is
    (step < 0 || v <= max) && (step > 0 || v >= max); the continuing branch jumps back to the loop's home line."""
    R.rule("C17.next", "NEXT: loop variable += step unconditionally before the limit test; test is (step<0 || v<=max) && (step>0 || v>=max); continue jumps home", minimum=3)
    f = fn("cmdnext")
    where = dict(file=f["file"], line=f["line"], function=f["q"])
    st = [s_ for s_ in f["body"][2] if T.is_node(s_)]

    def is_val(n):
        r, steps = T.access_path(n)
        fl = [x[1].split("::")[-1] for x in steps if x[0] == "f"]
        # the value of the control variable: `*...val` (through the varrec) or `*...valp` (the address kept in the loop record)
        return bool(fl) and fl[-1] in ("val", "valp") and steps[-1] == ("*",)

    def fld(n, name):
        n = T.strip_casts(n)
        return T.is_node(n) and n[0] == "Member" and n[2].split("::")[-1] == name
    upd = [i for i, s_ in enumerate(st) if s_[0] == "Bin" and s_[2] == "+=" and is_val(s_[3]) and fld(s_[4], "step")]
    tests = [i for i, s_ in enumerate(st) if s_[0] == "If" and any(fld(y, "max") for y in T.walk(s_[2]))]
    if len(upd) == 1 and tests and upd[0] < tests[0]:
        R.ok("C17.next", "cmdnext:update", "`*val += step` is a top-level statement before the limit test")
    else:
        R.violation("C17.next", "cmdnext:update", "NEXT does not add the step to the loop variable in place, unconditionally and before the limit test: after the loop ends "
                    "the variable does not hold the first value beyond the limit", **where)
    ok = False
    if tests:
        c = T.strip_casts(st[tests[0]][2])
        parts = flatten(c, "&&")
        if len(parts) == 2:
            sig = []
            for p_ in parts:
                alts = flatten(p_, "||")
                if len(alts) != 2:
                    break
                a, b = T.strip_casts(alts[0]), T.strip_casts(alts[1])
                loc = T.is_node(T.strip_casts(b[3])) and T.strip_casts(b[3])[0] == "Ref" and T.strip_casts(b[3])[2] == "local" if b[0] == "Bin" else False
                if a[0] == "Bin" and b[0] == "Bin" and fld(a[3], "step") and T.lit_value(a[4]) == 0 and (is_val(b[3]) or loc) and fld(b[4], "max"):
                    sig.append((a[2], b[2]))
            ok = sorted(sig) == [("<", "<="), (">", ">=")]
        jumps = any(fld(t, "stmtline") or T.text(t).endswith("stmtline") for t, how, l, n in T.writes(st[tests[0]][3])) and any(y[0] == "Return" for y in T.walk(st[tests[0]][3]))
        if ok:
            R.ok("C17.next", "cmdnext:test", "(step < 0 || v <= max) && (step > 0 || v >= max)")
        else:
            R.violation("C17.next", "cmdnext:test", "the limit test of NEXT is not (step < 0 || v <= max) && (step > 0 || v >= max)", **where)
        if jumps:
            R.ok("C17.next", "cmdnext:continue", "continuing branch restores the home line/token and returns")
        else:
            R.violation("C17.next", "cmdnext:continue", "the continuing branch of NEXT does not jump back to the loop's home line", **where)


def guisibling_rule(P, R):
    """DATA / READ / RESTORE: PBasic keeps a two-field data cursor (dataline, datatok).  cmdread and cmdrestore implement the
    cursor twice - one branch for the interactive editor (phreeqci_gui) and one for batch use - and the two must be the same
    algorithm: the branches are compared as normal forms after dropping the editor-only statements (assert placeholders,
    nIDErrPrompt bookkeeping) and unwrapping `if (parse_whole_program)`.  A change made to one branch only (e.g. testing the
    other cursor field) makes READ deliver different values in the library than in the editor - and wrong ones."""
    from .. import shape as SH
    R.rule("C17.datacursor", "the editor and batch branches of the commands implemented twice (cmdread, cmdrestore, cmdwhile, mustfindline) are the same algorithm", minimum=4)

    def gui_only(s_):
        if not T.is_node(s_):
            return True
        if s_[0] in ("Lit", "Null") or (s_[0] == "Cast" and T.strip_casts(s_)[0] == "Lit"):
            return True          # expanded _ASSERTE placeholder
        if s_[0] == "Call" and T.callee_name(s_) in ("_ASSERTE", "assert"):
            return True
        if s_[0] == "Bin" and s_[2] == "=" and "nIDErrPrompt" in T.text(s_[3]):
            return True
        return False

    def strip(n):
        if not T.is_node(n):
            return n
        if n[0] == "Compound":
            out = [strip(s_) for s_ in n[2] if not gui_only(s_)]
            if len(out) == 1:
                return out[0]
            return ["Compound", n[1], out]
        if n[0] == "If":
            c = T.strip_casts(n[2])
            if T.is_node(c) and c[0] == "Member" and c[2].split("::")[-1] == "parse_whole_program" and not T.is_node(n[4]):
                return strip(n[3])
            if T.is_node(c) and c[0] == "Bin" and c[2] == "==" and T.strip_casts(c[3])[0] == "Member" and T.strip_casts(c[3])[2].split("::")[-1] == "parse_whole_program" \
                    and str(T.strip_casts(c[4])[3]) in ("1", "true") and not T.is_node(n[4]):
                return strip(n[3])
        return [n[0], n[1]] + [(strip(c) if T.is_node(c) else ([strip(cc) for cc in c] if isinstance(c, list) else c)) for c in n[2:]]

    for q in ("PBasic::cmdread", "PBasic::cmdrestore", "PBasic::cmdwhile", "PBasic::mustfindline"):
        f = P.one(q)
        sites = [x for x in T.walk(f["body"]) if x[0] == "If" and T.is_node(T.strip_casts(x[2])) and T.strip_casts(x[2])[0] == "Member"
                 and T.strip_casts(x[2])[2].split("::")[-1] == "phreeqci_gui" and T.is_node(x[4])]
        if len(sites) != 1:
            R.anchor_missing("C17.datacursor", "%s: expected one `if (phreeqci_gui) ... else ...`, found %d" % (q, len(sites)))
            continue
        x = sites[0]
        a, b = SH.shape(strip(x[3])), SH.shape(strip(x[4]))
        if a == b:
            R.ok("C17.datacursor", q.split("::")[-1], "editor and batch branches have the same normal form")
        else:
            R.violation("C17.datacursor", q.split("::")[-1], "the batch branch differs from the editor branch at %s: the command follows a different algorithm in the library than in the editor (loop record / cursor handling)"
                        % (SH.first_difference(a, b),), file=f["file"], line=x[1], function=f["q"])


def onrecord_rule(P, R):
    """Loop-stack discipline of ON..GOSUB: cmdon pushes a GOSUB record before it knows whether the index selects a line.  On every path
    from the push to the end of cmdon either the jump is made (cmdgoto - the RETURN will pop the record) or the record is popped again;
    a path with neither leaves a stale record on the stack shared with FOR/NEXT, WHILE/WEND and RETURN.  (A pop guarded by a flag that is
    set in the push block is followed along its true branch.)"""
    RULE = "C17.onrecord"
    R.rule(RULE, "cmdon: after pushing the GOSUB record every path either jumps (cmdgoto) or pops the record", minimum=1)
    f = P.one("PBasic::cmdon")
    where = dict(file=f["file"], function=f["q"])
    cfg = T.CFG(f)

    def is_push(n):
        return T.is_node(n) and n[0] == "Bin" and n[2] == "=" and T.text(n[3]).replace(" ", "") in ("loopbase", "this.loopbase") and T.strip_casts(n[4])[0] == "Ref" and T.strip_casts(n[4])[3] == "l"

    def is_jump(n):
        return T.is_node(n) and any(T.callee_name(c) == "cmdgoto" for c in T.calls(n))

    def is_pop(n):
        return T.is_node(n) and any(T.callee_name(c) == "PHRQ_free" and c[4] and "loopbase" in T.text(c[4][0]) for c in T.calls(n))
    pushes = []
    gos = [x for x in T.walk(f["body"]) if x[0] == "If" and any(y[0] == "Ref" and y[2] == "enum" and y[3].endswith("tokgosub") for y in T.walk(x[2]))]
    if not gos:
        R.anchor_missing(RULE, "cmdon: the GOSUB branch was not found")
        return
    flags = set()
    for y in T.walk(gos[0][3]):
        if is_push(y):
            pushes.append(y)
        if y[0] == "Bin" and y[2] == "=" and T.strip_casts(y[3])[0] == "Ref" and T.strip_casts(y[3])[2] == "local" and T.strip_casts(y[4])[0] == "Lit" and str(T.strip_casts(y[4])[3]) in ("1", "true"):
            flags.add(T.strip_casts(y[3])[3])
    if not pushes:
        R.anchor_missing(RULE, "cmdon: push of the GOSUB record (loopbase = l) not found")
        return
    start = [n["id"] for n in cfg.nodes if n["n"] is pushes[0] or (T.is_node(n["n"]) and any(y is pushes[0] for y in T.walk(n["n"])))]
    if not start:
        R.anchor_missing(RULE, "cmdon: push not found in the flow graph")
        return
    seen, st = {start[0]}, [start[0]]
    leak = False
    while st:
        x = st.pop()
        nd = cfg.nodes[x]
        if x == cfg.exit:
            leak = True
            break
        succ = list(nd["succ"])
        n = nd["n"]
        if nd["kind"] == "cond" and T.is_node(n) and T.strip_casts(n)[0] == "Ref" and T.strip_casts(n)[3] in flags and len(succ) == 2:
            succ = succ[:1]          # the flag is true on every path that comes from the push
        for sx in succ:
            if sx in seen:
                continue
            m = cfg.nodes[sx]["n"]
            if is_jump(m) or is_pop(m):
                continue
            seen.add(sx)
            st.append(sx)
    if leak:
        R.violation(RULE, "cmdon", "after pushing the GOSUB record there is a path to the end of cmdon with neither the jump (cmdgoto) nor a pop of the record: for an index that "
                    "selects no line the stale record stays on the loop stack and the next NEXT / WEND / RETURN is matched against it", line=pushes[0][1], **where)
    else:
        R.ok(RULE, "cmdon", "every path from the push jumps or pops")


def findline_rule(P, R):
    """"Malformed programs produce a BASIC error": a jump (GOTO, GOSUB, IF..THEN n, ON..GOTO, RESTORE n, RUN n) to a line number
    that does not exist is rejected.  findline(n) is an exact-match search - its loop continues exactly while the current line
    exists and its number differs from n (the condition is evaluated over null/non-null x {num < n, num = n, num > n}) and it
    returns the cursor; mustfindline reports `Undefined line` whenever findline returned NULL (batch branch)."""
    RULE = "C17.findline"
    R.rule(RULE, "findline(n) returns the line numbered exactly n or NULL; mustfindline raises an error on NULL", minimum=3)
    f = P.one("PBasic::findline")
    where = dict(file=f["file"], function=f["q"])
    loops = [x for x in T.walk(f["body"]) if x[0] in ("While", "For")]
    if len(loops) != 1:
        R.anchor_missing(RULE, "findline: expected one search loop, found %d" % len(loops))
        return
    cond = loops[0][2] if loops[0][0] == "While" else loops[0][3]

    class Unknown(Exception):
        pass

    def ev(n, null, d):
        n = T.strip_casts(n)
        if n[0] == "Paren":
            return ev(n[2], null, d)
        if n[0] == "Un" and n[2] == "!":
            return not ev(n[3], null, d)
        if n[0] == "Ref" and n[2] == "local" and "linerec" in str(n[4]):
            return not null                      # pointer used as a truth value
        if n[0] == "Bin" and n[2] in ("&&", "||"):
            a = ev(n[3], null, d)
            if n[2] == "&&":
                return a and ev(n[4], null, d)   # short circuit: the right side is not evaluated on a null cursor
            return a or ev(n[4], null, d)
        if n[0] == "Bin" and n[2] in ("==", "!=", "<", "<=", ">", ">="):
            a, b = T.strip_casts(n[3]), T.strip_casts(n[4])
            isptr = lambda z: z[0] == "Ref" and z[2] == "local" and "linerec" in str(z[4])
            isnull = lambda z: z[0] == "Lit" and str(z[3]) in ("0", "nullptr", "NULL")
            if (isptr(a) and isnull(b)) or (isptr(b) and isnull(a)):
                if n[2] == "==":
                    return null
                if n[2] == "!=":
                    return not null
                raise Unknown(T.text(n))
            isnum = lambda z: z[0] == "Member" and z[2] == "linerec::num"
            ispar = lambda z: z[0] == "Ref" and z[2] == "param"
            if isnum(a) and ispar(b):
                if null:
                    raise Unknown("dereference of a null cursor")
                x, y = d, 0
            elif ispar(a) and isnum(b):
                if null:
                    raise Unknown("dereference of a null cursor")
                x, y = 0, d
            else:
                raise Unknown(T.text(n))
            return {"==": x == y, "!=": x != y, "<": x < y, "<=": x <= y, ">": x > y, ">=": x >= y}[n[2]]
        raise Unknown(T.text(n))
    bad = None
    try:
        for null in (True, False):
            for d in (-1, 0, 1):
                want = (not null) and d != 0
                got = ev(cond, null, d)
                if got != want:
                    bad = (null, d, got)
                    break
            if bad:
                break
    except Unknown as e:
        R.anchor_missing(RULE, "findline: loop condition `%s` is outside the evaluated fragment (%s)" % (T.text(cond)[:60], e))
        return
    if bad:
        null, d, got = bad
        R.violation(RULE, "findline:loop", "the search loop `%s` %s when the current line number is %s the target: findline returns a line that is not numbered n, so a jump to an "
                    "undefined line silently continues at another line instead of raising `Undefined line`"
                    % (T.text(cond)[:70], "continues" if got else "stops", {-1: "less than", 0: "equal to", 1: "greater than"}[d]), line=loops[0][1], **where)
    else:
        R.ok(RULE, "findline:loop", "continues iff cursor != NULL and num != n (6 cases evaluated)")
    rets = [x for x in T.walk(f["body"]) if x[0] == "Return"]
    if len(rets) == 1 and T.is_node(rets[0][2]) and T.strip_casts(rets[0][2])[0] == "Ref" and T.strip_casts(rets[0][2])[2] == "local":
        R.ok(RULE, "findline:return", "returns the cursor")
    else:
        R.violation(RULE, "findline:return", "findline does not return the search cursor", line=f["line"], **where)
    m = P.one("PBasic::mustfindline")
    okm = False
    for x in T.walk(m["body"]):
        if x[0] == "If" and not any(y[0] == "Member" and y[2] in ("PBasic::phreeqci_gui", "PBasic::parse_whole_program") for y in T.walk(x[2])):
            c = T.strip_casts(x[2])
            if c[0] == "Bin" and c[2] == "==" and any(T.strip_casts(z)[0] == "Lit" for z in (c[3], c[4])) and any(T.callee_name(k) == "errormsg" for k in T.calls(x[3])):
                okm = True
    # the batch branch is the else of `if (phreeqci_gui)`
    top = [x for x in m["body"][2] if x[0] == "If" and T.strip_casts(x[2])[0] == "Member" and T.strip_casts(x[2])[2] == "PBasic::phreeqci_gui"]
    batch_ok = False
    if top and T.is_node(top[0][4]):
        for x in T.walk(top[0][4]):
            if x[0] == "If":
                c = T.strip_casts(x[2])
                if c[0] == "Bin" and c[2] == "==" and any(T.strip_casts(z)[0] == "Lit" and str(T.strip_casts(z)[3]) == "0" for z in (c[3], c[4])) \
                        and any(T.callee_name(k) == "errormsg" for k in T.calls(x[3])):
                    batch_ok = True
    if batch_ok:
        R.ok(RULE, "mustfindline", "batch branch: l == NULL -> errormsg(\"Undefined line\")")
    else:
        R.violation(RULE, "mustfindline", "the batch branch of mustfindline does not raise an error when findline returned NULL", file=m["file"], line=m["line"], function=m["q"])


def let_rule(P, R):
    """LET / assignment to an array element: findvar() hands an element back by re-pointing the variable record's value
    pointer, and evaluating the right-hand side may call findvar() on the same array again.  cmdlet therefore saves the
    target element first and re-installs it AFTER the right-hand side has been evaluated (numeric and string branch alike);
    re-installing it before the evaluation stores the value into whichever element the right-hand side read last."""
    R.rule("C17.let", "cmdlet re-installs the saved target element after evaluating the right-hand side (numeric and string)", minimum=2)
    f = P.one("PBasic::cmdlet")
    where = dict(file=f["file"], function=f["q"])
    order = []
    for st in T.walk(f["body"]):
        if st[0] == "Bin" and st[2] == "=":
            r = T.strip_casts(st[4])
            l = T.text(st[3]).replace(" ", "")
            if r[0] == "Ref" and r[3] in ("target", "starget") and (l.endswith(".val") or l.endswith(".sval")):
                order.append(("restore", r[3], st[1]))
            if r[0] == "Call" and T.callee_name(r) in ("realexpr", "strexpr"):
                order.append(("eval", T.callee_name(r), st[1]))
    pairs = (("realexpr", "target", "numeric"), ("strexpr", "starget", "string"))
    for ev, tg, nm in pairs:
        e = [o for o in order if o[0] == "eval" and o[1] == ev]
        r = [o for o in order if o[0] == "restore" and o[1] == tg]
        if not e or not r:
            R.anchor_missing("C17.let", "cmdlet: %s evaluation / restore of `%s` not found" % (nm, tg))
            continue
        if max(x[2] for x in e) < min(x[2] for x in r):
            R.ok("C17.let", nm, "%s() at line %d, target re-installed at line %d" % (ev, e[0][2], r[0][2]))
        else:
            R.violation("C17.let", nm, "the saved target element is re-installed (line %d) before the right-hand side is evaluated (line %d): `a(3) = a(1) + a(2)` stores into the element "
                        "the right-hand side read last" % (r[0][2], e[0][2]), line=r[0][2], **where)


def run(P, R, tier):
    guisibling_rule(P, R)
    let_rule(P, R)
    findline_rule(P, R)
    clearvar_rule(P, R)
    savescope_rule(P, R)
    powsign_rule(P, R)
    strval_rule(P, R)
    strcopy_rule(P, R)
    putkey_rule(P, R)
    progkeep_rule(P, R)
    linestore_rule(P, R)
    powargs_rule(P, R)
    dimsize_rule(P, R)
    loopvar_rule(P, R)
    onrecord_rule(P, R)
    R.undecided += ["(e) arithmetic and string results for all programs", "(f) malformed programs produce a BASIC error, never a wrong value or a hang"]
    ens = [e for e in P.enums.values() if e["q"].endswith("BASIC_TOKEN")]
    if len(ens) != 1:
        raise Exception("enum PBasic::BASIC_TOKEN not found")
    vals = {x[0].split("::")[-1]: x[1] for x in ens[0]["enumerators"]}
    tab = json.load(open(os.path.join(VERIF, "tables", "c17_roles.json")))
    R.table("c17_roles.json", tab)

    def fn(q):
        return P.one("PBasic::" + q)

    # ------------------------------------------------------------------ C17.layout
    R.rule("C17.layout", "tokens used in bit masks have values < 32; relational tokens are six consecutive values in the order = < > <= >= <>", minimum=14)
    masked = {}
    for q in ("relexpr", "term", "sexpr", "expr"):
        f = fn(q)
        for x in T.walk(f["body"]):
            if x[0] == "Bin" and x[2] == "<<":
                t = enum_ref(x[4])
                if t is None:
                    r = T.strip_casts(x[4])
                    if T.is_node(r) and r[0] == "Bin" and r[2] == "+":
                        t = enum_ref(r[3])
                if t is not None:
                    masked.setdefault(t, (f, x[1]))
    for t, (f, line) in sorted(masked.items()):
        if vals[t] < 31 or (vals[t] < 32 and t != "tokne"):
            R.ok("C17.layout", t, "value %d" % vals[t])
        elif vals[t] < 32:
            R.ok("C17.layout", t, "value %d" % vals[t])
        else:
            R.violation("C17.layout", t, "token %s has value %d but is used in a `1L << tok` mask guarded by `kind < 32`: the operator is silently never recognised"
                        % (t, vals[t]), file=f["file"], line=line, function=f["q"])
    rel = ["tokeq", "toklt", "tokgt", "tokle", "tokge", "tokne"]
    f = fn("relexpr")
    if all(t in vals for t in rel) and [vals[t] - vals["tokeq"] for t in rel] == [0, 1, 2, 3, 4, 5] and vals["tokne"] + 1 < 32:
        R.ok("C17.layout", "relational-range", "tokeq..tokne = %d..%d" % (vals["tokeq"], vals["tokne"]))
    else:
        R.violation("C17.layout", "relational-range", "the relational tokens are not six consecutive values in the order = < > <= >= <> (values %s): the range mask of relexpr "
                    "accepts other tokens or misses some" % [vals.get(t) for t in rel], file=f["file"], line=f["line"], function=f["q"])

    # ------------------------------------------------------------------ C17.masks
    R.rule("C17.masks", "operator masks (evaluated): relational loop and its equal/less/greater disjuncts in both branches; term, sexpr, expr levels", minimum=10)
    expect_loop = {"relexpr": set(rel), "term": {"toktimes", "tokdiv", "tokmod"}, "sexpr": {"tokplus", "tokminus"}, "expr": {"tokor", "tokxor"}}
    for q, want in sorted(expect_loop.items()):
        f = fn(q)
        loops = [x for x in T.walk(f["body"]) if x[0] == "While"]
        if len(loops) != 1:
            R.anchor_missing("C17.masks", "%s: expected one operator loop" % q)
            continue
        ms = find_masks(loops[0][2], vals)
        if len(ms) != 1:
            R.anchor_missing("C17.masks", "%s: operator mask of the loop condition not recognised" % q)
            continue
        got = mask_tokens(ms[0][0], vals)
        if got == want:
            R.ok("C17.masks", q + ":loop", ",".join(sorted(got)))
        else:
            R.violation("C17.masks", q + ":loop", "%s accepts operator tokens %s, expected %s" % (q, sorted(got), sorted(want)), file=f["file"], line=loops[0][1], function=f["q"])
    # relexpr disjuncts
    f = fn("relexpr")
    want = {"eq": {"tokeq", "tokge", "tokle"}, "lt": {"toklt", "tokle", "tokne"}, "gt": {"tokgt", "tokge", "tokne"}}
    found = {"str": {}, "num": {}}
    for x in T.walk(f["body"]):
        if x[0] == "Bin" and x[2] == "=" and enum_ref(x[3]) is None:
            l = T.strip_casts(x[3])
            if T.is_node(l) and l[0] == "Ref" and l[3] == "f":
                for disj in flatten(x[4], "||"):
                    conj = flatten(disj, "&&")
                    ms = [m for c in conj for m in find_masks(c, vals)]
                    kind = branch = None
                    for c in conj:
                        c2 = T.strip_casts(c)
                        if not T.is_node(c2):
                            continue
                        is_str = any(T.callee_name(cc) == "strcmp" for cc in T.calls(c2))
                        if c2[0] == "Un" and c2[2] == "!" and is_str:
                            kind, branch = "eq", "str"
                        elif c2[0] == "Bin" and c2[2] in ("==", "<", ">") and not find_masks(c2, vals) and (is_str or any(y[0] == "Member" for y in T.walk(c2))):
                            if c2[2] == "==" and T.lit_value(c2[4]) is not None and not is_str:
                                continue
                            kind = {"==": "eq", "<": "lt", ">": "gt"}[c2[2]]
                            branch = "str" if is_str else "num"
                    if kind and len(ms) == 1:
                        found[branch][kind] = (mask_tokens(ms[0][0], vals), disj[1])
    for br in ("str", "num"):
        for kind in ("eq", "lt", "gt"):
            inst = "relexpr:%s:%s" % ("string" if br == "str" else "numeric", kind)
            if kind not in found[br]:
                R.anchor_missing("C17.masks", "%s disjunct not recognised" % inst)
                continue
            got, line = found[br][kind]
            if got == want[kind]:
                R.ok("C17.masks", inst, ",".join(sorted(got)))
            else:
                R.violation("C17.masks", inst, "when the %s operands compare `%s` the result is true for operators %s, expected %s" % (
                    "string" if br == "str" else "numeric", {"eq": "equal", "lt": "less", "gt": "greater"}[kind], sorted(got), sorted(want[kind])),
                    file=f["file"], line=line, function=f["q"])

    # ------------------------------------------------------------------ C17.ops
    R.rule("C17.ops", "each operator token selects the matching C++ operation", minimum=9)

    def branch_for(f, tok):
        """statements executed when `k == tok` (then-branch) in f, or None"""
        for x in T.walk(f["body"]):
            if x[0] == "If":
                c = T.strip_casts(x[2])
                if c[0] == "Bin" and c[2] == "==" and enum_ref(c[4]) == tok:
                    return x
        return None

    def has_op(n, ops):
        for y in T.walk(n):
            if y[0] == "Bin" and y[2] in ops:
                l = T.strip_casts(y[3])
                if any(z[0] == "Member" and z[2].endswith("val") for z in T.walk(y)):
                    return True
        return False
    checks = [
        ("term", "tokmod", lambda b: any(T.callee_name(c) == "fmod" for c in T.calls(b[3])), "MOD -> fmod"),
        ("term", "toktimes", lambda b: has_op(b[3], ("*=",)) and not has_op(b[3], ("/=", "+=", "-=")), "* -> *="),
        ("sexpr", "tokplus", lambda b: has_op(b[3], ("+=",)) and any(T.callee_name(c) == "strcat" for c in T.calls(b[3])) and not has_op(b[3], ("-=", "*=", "/=")), "+ -> += / strcat"),
        ("expr", "tokor", lambda b: has_op(b[3], ("|",)) and not has_op(b[3], ("^", "&")) and T.is_node(b[4]) and has_op(b[4], ("^",)) and not has_op(b[4], ("|", "&")), "OR -> |, XOR -> ^"),
    ]
    for q, tok, pred, desc in checks:
        f = fn(q)
        b = branch_for(f, tok)
        if b is None:
            R.anchor_missing("C17.ops", "%s: branch `k == %s` not found" % (q, tok))
        elif pred(b):
            R.ok("C17.ops", "%s:%s" % (q, tok), desc)
        else:
            R.violation("C17.ops", "%s:%s" % (q, tok), "the branch selected by %s does not apply the expected operation (%s)" % (tok, desc), file=f["file"], line=b[1], function=f["q"])
    # division: the else-chain of term: /= under n2 != 0, zero -> 0 with a warning
    f = fn("term")
    bm = branch_for(f, "toktimes")
    ok = False
    if bm is not None and T.is_node(bm[4]) and bm[4][0] == "If":
        d = bm[4]
        c = T.strip_casts(d[2])
        if c[0] == "Bin" and c[2] == "!=" and T.lit_value(c[4]) == 0 and has_op(d[3], ("/=",)) and T.is_node(d[4]) and not has_op(d[4], ("/=", "/")):
            ok = True
    (R.ok if ok else lambda *a, **k: R.violation("C17.ops", "term:tokdiv", "division is not `/=` guarded by a non-zero divisor with a zero result otherwise",
                                                 file=f["file"], line=f["line"], function=f["q"]))("C17.ops", "term:tokdiv", "/ -> /= when divisor != 0, else 0 with a warning")
    # minus
    f = fn("sexpr")
    bp = branch_for(f, "tokplus")
    ok = bp is not None and T.is_node(bp[4]) and has_op(bp[4], ("-=",)) and not has_op(bp[4], ("+=", "*=", "/="))
    (R.ok if ok else lambda *a, **k: R.violation("C17.ops", "sexpr:tokminus", "subtraction branch does not apply -=", file=f["file"], line=f["line"], function=f["q"]))(
        "C17.ops", "sexpr:tokminus", "- -> -=")
    # and
    f = fn("andexpr")
    ok = has_op(f["body"], ("&",)) and not has_op(f["body"], ("|", "^")) and any(
        x[0] == "While" and any(enum_ref(y) == "tokand" for y in T.walk(x[2])) for x in T.walk(f["body"]))
    (R.ok if ok else lambda *a, **k: R.violation("C17.ops", "andexpr:tokand", "AND level does not apply & on tokand", file=f["file"], line=f["line"], function=f["q"]))(
        "C17.ops", "andexpr:tokand", "AND -> &")
    # power
    f = fn("upexpr")
    ok = any(x[0] == "While" and any(enum_ref(y) == "tokup" for y in T.walk(x[2])) for x in T.walk(f["body"])) and \
        any(T.callee_name(c) == "pow" and len(c[4]) == 2 for c in T.calls(f["body"])) and \
        not any(T.callee_name(c) == "exp" and any(T.callee_name(d) == "log" for d in T.calls(c)) for c in T.calls(f["body"]))
    (R.ok if ok else lambda *a, **k: R.violation("C17.ops", "upexpr:tokup", "the ^ level does not compute pow(x, y) on tokup (exp(y*log(x)) is inexact for integer operands: "
                                                 "2^3 = 8 is false, FLOOR(2^3) = 7)", file=f["file"], line=f["line"], function=f["q"]))(
        "C17.ops", "upexpr:tokup", "^ -> pow(x, y) with sign handling")
    # unary minus / NOT in factor
    f = fn("factor")
    for tok, op, desc in (("tokminus", "-", "unary minus"), ("toknot", "~", "NOT -> ~")):
        ok = False
        for x in T.walk(f["body"]):
            if x[0] == "Switch":
                from .. import rawio
                for labs, stmts, line in rawio.switch_groups(x):
                    if vals.get(tok) in labs:
                        ok = any(y[0] == "Un" and y[2] == op for s in stmts for y in T.walk(s))
        (R.ok if ok else lambda *a, **k: R.violation("C17.ops", "factor:" + tok, "%s is not applied in factor's case %s" % (desc, tok), file=f["file"], line=f["line"], function=f["q"]))(
            "C17.ops", "factor:" + tok, desc)

    # ------------------------------------------------------------------ C17.chain
    R.rule("C17.chain", "precedence chain expr > andexpr > relexpr > sexpr > term > upexpr > factor", minimum=6)
    chain = ["expr", "andexpr", "relexpr", "sexpr", "term", "upexpr", "factor"]
    for a, b in zip(chain, chain[1:]):
        f = fn(a)
        called = [T.callee_name(c) for c in T.calls(f["body"]) if T.callee_name(c) in chain]
        allowed = {b} | ({"upexpr"} if a == "upexpr" else set())
        first = None
        for s in f["body"][2]:
            if T.is_node(s) and s[0] == "Bin" and s[2] == "=":
                cs = [T.callee_name(c) for c in T.calls(s[4]) if T.callee_name(c) in chain]
                if cs:
                    first = cs[0]
                    break
            if T.is_node(s) and s[0] == "Call" and T.callee_name(s) == "operator=":
                cs = [T.callee_name(c) for c in T.calls(s) if T.callee_name(c) in chain]
                if cs:
                    first = cs[0]
                    break
        if set(called) <= allowed and first == b and len(called) >= 2:
            R.ok("C17.chain", "%s->%s" % (a, b), "operands parsed with %s" % sorted(set(called)))
        else:
            R.violation("C17.chain", "%s->%s" % (a, b), "%s parses its operands with %s (first %s), expected %s: operator precedence changes" % (a, sorted(set(called)), first, b),
                        file=f["file"], line=f["line"], function=f["q"])

    # ------------------------------------------------------------------ C17.next (FOR/NEXT control flow)
    next_rule(P, R, fn)

    # ------------------------------------------------------------------ C17.tokens
    R.rule("C17.tokens", "every producible token has a listtokens case and exactly one consumer role; spellings map to one token", minimum=200)
    spell = {}
    dup = []
    for g in P.globals:
        if g["name"] == "temp_tokens" and T.is_node(g.get("init")):
            for x in T.walk(g["init"]):
                if x[0] == "Construct":
                    lit = [y[3] for a in x[3] for y in T.walk(a) if y[0] == "Lit" and y[2] == "str"]
                    ev = [enum_ref(a) for a in x[3] if enum_ref(a)]
                    if len(lit) == 1 and len(ev) == 1:
                        if lit[0] in spell and spell[lit[0]] != ev[0]:
                            dup.append((lit[0], spell[lit[0]], ev[0]))
                        spell[lit[0]] = ev[0]
    if len(spell) < 200:
        R.anchor_missing("C17.tokens", "token spelling table temp_tokens: only %d entries recognised" % len(spell))
        return
    pf = fn("parse")
    for s, a, b in dup:
        R.violation("C17.tokens", "spelling:" + s, "spelling \"%s\" maps to two tokens (%s, %s)" % (s, a, b), file=pf["file"], line=pf["line"], function=pf["q"])
    produced = set(spell.values())
    for x in T.walk(pf["body"]):
        if x[0] == "Bin" and x[2] == "=":
            l = T.strip_casts(x[3])
            if T.is_node(l) and l[0] == "Member" and l[2].endswith("::kind"):
                t = enum_ref(x[4])
                if t:
                    produced.add(t)

    def labels_of(q):
        f = fn(q)
        best = set()
        for x in T.walk(f["body"]):
            if x[0] == "Switch":
                labs = set(enum_ref(y[2]) for y in T.walk(x[3]) if y[0] == "Case")
                labs.discard(None)
                if len(labs) > len(best):
                    best = labs
        return best
    L, X, F = labels_of("listtokens"), labels_of("exec"), labels_of("factor")
    ops = set(masked) | {"tokup", "tokand"}
    synt = set(tab["syntactic"])
    errtok = set(e["token"] for e in tab.get("error_tokens", []))
    # error tokens rely on the default branches of exec and factor raising a syntax error
    for q in ("exec", "factor"):
        f_ = fn(q)
        okd = False
        for x in T.walk(f_["body"]):
            if x[0] == "Default" and any(T.callee_name(c) in ("snerr", "errormsg") for c in T.calls(x)):
                okd = True
            if x[0] == "Switch":
                from .. import rawio as _r
                for labs, stmts, line in _r.switch_groups(x):
                    if "default" in labs and any(T.callee_name(c) in ("snerr", "errormsg") for s_ in stmts for c in T.calls(s_)):
                        okd = True
        if not okd and errtok:
            R.violation("C17.tokens", "default:" + q, "the default branch of %s no longer raises a BASIC syntax error: an unrecognised token would be silently ignored" % q,
                        file=f_["file"], line=f_["line"], function=f_["q"])
        elif errtok:
            R.ok("C17.tokens", "default:" + q, "unhandled token -> snerr")
    multi = {e["token"]: e for e in tab.get("multi_role", [])}
    R.info["token_counts"] = {"enumerators": len(vals), "spellings": len(spell), "produced": len(produced), "listtokens": len(L), "exec": len(X), "factor": len(F)}
    lf = fn("listtokens")
    for t in sorted(produced):
        inst = t
        if t not in vals:
            R.violation("C17.tokens", inst, "token %s is produced by the tokenizer but is not a BASIC_TOKEN enumerator" % t, file=pf["file"], line=pf["line"], function=pf["q"])
            continue
        roles = [r for r, s in (("statement", X), ("function", F), ("operator", ops), ("syntax", synt), ("error", errtok)) if t in s]
        probs = []
        if t not in L:
            probs.append("no listtokens case (the token cannot be listed / re-parsed)")
        if not roles:
            probs.append("no consumer: neither a statement of exec, a function of factor, an operator level nor a syntactic token - using it gives a syntax error at run time")
        elif len(roles) > 1 and not (t in multi and sorted(multi[t]["roles"]) == sorted(roles)):
            probs.append("consumed in several roles %s" % roles)
        if probs:
            R.violation("C17.tokens", inst, "; ".join(probs), file=lf["file"], line=lf["line"], function="PBasic")
        else:
            R.ok("C17.tokens", inst, "+".join(roles))
    tested = set()
    for key, f in P.functions.items():
        if not f["q"].startswith("PBasic::"):
            continue
        for x in T.walk(f["body"]):
            if x[0] == "Call" and T.callee_name(x) == "require" and x[4] and enum_ref(x[4][0]):
                tested.add(enum_ref(x[4][0]))
            elif x[0] == "Bin" and x[2] in ("==", "!=") and enum_ref(x[4]):
                tested.add(enum_ref(x[4]))
            elif x[0] == "Bin" and x[2] == "<<" and enum_ref(x[4]):
                tested.add(enum_ref(x[4]))
    for t in sorted(synt):
        if t not in vals:
            R.anchor_missing("C17.tokens", "syntactic token %s of the table is not an enumerator any more" % t)
        elif t not in tested:
            R.violation("C17.tokens", "syntactic:" + t, "token %s is listed as purely syntactic but no statement parser tests or requires it" % t,
                        file=lf["file"], line=lf["line"], function="PBasic")


def clearvar_rule(P, R):
    """"The same program evaluates identically ... in RATES, USER_PUNCH, USER_PRINT and CALCULATE_VALUES": a compiled program is run many
    times (every row, every rate call); cmdrun and the clean-up of basic_run reset the variable store through clearvars -> clearvar.
    Every path through clearvar must give the variable its initial value - 0 for a numeric variable (rv), NULL for a string (sv) - and
    re-point its value pointer (val / sval): a path that skips the value lets the next run start with what the previous one left."""
    RULE = "C17.clearvar"
    R.rule(RULE, "PBasic::clearvar: every path resets the value (rv = 0 / sv = NULL) and the value pointer (val / sval) of the variable", minimum=2)
    f = P.one("PBasic::clearvar")
    cfg = T.CFG(f)

    def writes_field(n, names, need_zero):
        if not T.is_node(n):
            return False
        for t, how, line, w in T.writes(n):
            root, steps = T.access_path(t)
            if how == "=" and steps and steps[-1][0] == "f" and steps[-1][1].split("::")[-1] in names:
                rhs = T.strip_casts(w[4])
                if not need_zero or T.lit_value(rhs) == 0 or (T.is_node(rhs) and rhs[0] == "Lit" and str(rhs[3]) in ("0", "0.0") ):
                    return True
        return False
    for inst, names, need_zero in (("value", ("rv", "sv"), True), ("pointer", ("val", "sval"), False)):
        seen, st = {cfg.entry}, [cfg.entry]
        while st:
            x = st.pop()
            if writes_field(cfg.nodes[x]["n"], names, need_zero):
                continue
            for y in cfg.nodes[x]["succ"]:
                if y not in seen:
                    seen.add(y)
                    st.append(y)
        if cfg.exit in seen:
            R.violation(RULE, inst, "a path through clearvar leaves the %s of the variable as the previous run left it (%s not assigned): a program that reads a variable before "
                        "assigning it gives run-dependent results (second row, second rate call)" % (inst, " / ".join(names)), file=f["file"], line=f["line"], function=f["q"])
        else:
            R.ok(RULE, inst, "%s assigned on every path" % " / ".join(names))
    callers = [g["q"] for g in P.functions.values() if any(T.callee_q(c) == "PBasic::clearvars" for c in T.calls(g["body"]))]
    if not {"PBasic::cmdrun", "PBasic::basic_run"} <= set(callers):
        R.violation(RULE, "callers", "clearvars is no longer called by both cmdrun and basic_run (callers: %s)" % ", ".join(sorted(callers)), file=f["file"], line=f["line"], function=f["q"])


def savescope_rule(P, R):
    """SAVE stores into Phreeqc::rate_moles; the host that ran the program reads it afterwards.  (nan) every host that reads rate_moles
    after basic_run assigns NAN before the run, so that a program without SAVE is detected (siblings: calc_kinetic_reaction,
    calculate_values, punch_calculate_values, get_calculate_value).  (nest) a host that can itself be called from a running program
    (reachable from PBasic::basic_run: CALC_VALUE -> get_calculate_value) copies the caller's value to a local before it resets the
    variable and assigns it back after it has read its own result - otherwise `SAVE x` followed by CALC_VALUE(...) in one program
    returns the nested program's value to the outer host."""
    from ..callgraph import CallGraph
    RULE = "C17.savescope"
    R.rule(RULE, "hosts of BASIC programs reset rate_moles to NAN before the run; nested hosts keep and restore the caller's SAVE value", minimum=5)
    cg = CallGraph(P)
    reach = cg.reach_from([k for k, g in P.functions.items() if g["q"] == "PBasic::basic_run"])
    n = 0
    for k, g in sorted(P.functions.items(), key=lambda kv: kv[1]["q"]):
        runs = [c[1] for c in T.calls(g["body"]) if T.callee_q(c) in ("PBasic::basic_run", "Phreeqc::basic_run")]
        reads = [x[1] for x in T.walk(g["body"]) if x[0] == "Member" and x[2] == "Phreeqc::rate_moles"]
        if not runs or not any(r > min(runs) for r in reads):
            continue
        n += 1
        name = g["q"].split("::")[-1]
        wr = [(how, line, w) for t, how, line, w in T.writes(g["body"]) if T.access_path(t)[1] == [("f", "Phreeqc::rate_moles")] and how == "="]
        for run_line in runs:
            nan_before = [line for how, line, w in wr if line < run_line and any(
                y[0] == "Call" and (T.callee_q(y) or "").startswith("__builtin_nan") for y in T.walk(w[4]))]
            inst = "%s:nan@%d" % (name, run_line)
            if nan_before:
                R.ok(RULE, inst, "rate_moles = NAN at line %d before the run" % nan_before[-1])
            else:
                R.violation(RULE, inst, "%s reads rate_moles after basic_run (line %d) without resetting it to NAN before: a program without SAVE returns whatever an earlier "
                            "program stored" % (g["q"], run_line), file=g["file"], line=run_line, function=g["q"])
        if k in reach:
            inst = name + ":nest"
            first_run = min(runs)
            restore = [line for how, line, w in wr if line > first_run and T.is_node(T.strip_casts(w[4])) and T.strip_casts(w[4])[0] == "Ref" and T.strip_casts(w[4])[2] == "local"]
            if restore:
                R.ok(RULE, inst, "caller's value assigned back from a local at line %d" % restore[-1])
            else:
                R.violation(RULE, inst, "%s can be called from a running BASIC program (CALC_VALUE) and stores its own program's SAVE in rate_moles without putting the caller's value "
                            "back: `SAVE x` followed by CALC_VALUE in one program hands the nested value to the outer host" % g["q"], file=g["file"], line=first_run, function=g["q"])
    if n < 4:
        R.anchor_missing(RULE, "only %d hosts read rate_moles after basic_run" % n)


def powsign_rule(P, R):
    """`a ^ k` with a negative base and an integer exponent is |a|^k with the sign of (-1)^k.  upexpr computes exp(k ln|a|) and negates the
    result under a parity test of k.  The test is run concretely (engine/minieval.py) for k = -5 .. 5: it must hold exactly for the odd
    exponents, the negative ones included (fmod(k, 2) == 1 fails for k = -3)."""
    from .. import minieval as ME
    RULE = "C17.powsign"
    R.rule(RULE, "upexpr: a negative base raised to an integer power changes sign exactly for odd exponents, negative ones included", minimum=11)
    f = P.one("PBasic::upexpr")

    def negates(st):
        st = st[2][0] if T.is_node(st) and st[0] == "Compound" and len(st[2]) == 1 else st
        return T.is_node(st) and st[0] == "Bin" and st[2] == "=" and T.is_node(T.strip_casts(st[4])) and T.strip_casts(st[4])[0] == "Un" and T.strip_casts(st[4])[2] == "-" \
            and " ".join(T.text(st[3]).split()) == " ".join(T.text(T.strip_casts(st[4])[3]).split())
    tests = [x for x in T.walk(f["body"]) if x[0] == "If" and negates(x[3])]
    if len(tests) != 1:
        R.anchor_missing(RULE, "upexpr: %d sign flips under a condition" % len(tests))
        return
    cond = tests[0][2]
    for kk in range(-5, 6):
        def resolve(n, kk=kk):
            t = " ".join(T.text(n).split())
            if t.startswith("n2."):
                return float(kk)
            return None
        try:
            got = bool(ME.ev(cond, ME.Env(resolve=resolve)))
        except ME.Unsupported as e:
            R.anchor_missing(RULE, "upexpr: parity test not evaluable (%s)" % e)
            return
        inst = "k=%d" % kk
        if got == (kk % 2 == 1):
            R.ok(RULE, inst, "sign %s" % ("flipped" if got else "kept"))
        else:
            R.violation(RULE, inst, "for exponent %d the sign of (negative base)^k is %s: `%s` is not the parity of k" % (kk, "flipped" if got else "not flipped", T.text(cond)[:50]),
                        file=f["file"], line=tests[0][1], function=f["q"])


def _norm(n):
    return "".join(T.text(n, -40).split())


def strval_rule(P, R):
    """"never a crash": a valrec with stringval == true is handed to strlen / strcpy / free by every consumer (LEN, +, =, PRINT, PUNCH,
    assignment).  Every place that sets stringval = true must therefore, in the same statement sequence (switch case up to its break, or
    block), give UU.sval a string on every path: a direct assignment of a non-null value, an if/else whose two branches both assign, or
    an assignment of the whole record.  (NO_NEWLINE$ set the flag only: LEN(NO_NEWLINE$) dereferenced NULL.)"""
    RULE = "C17.strval"
    R.rule(RULE, "PBasic.cpp: every `x.stringval = true` is accompanied, in the same case / block, by an assignment of a string to x.UU.sval on every path", minimum=20)

    def is_true(n):
        n = T.strip_casts(n)
        return T.is_node(n) and n[0] == "Lit" and str(n[3]) in ("true", "1")

    def sets_flag(st):
        return T.is_node(st) and st[0] == "Bin" and st[2] == "=" and _norm(st[3]).endswith(".stringval") and is_true(st[4])

    def must_sval(st, var):
        if not T.is_node(st):
            return False
        if st[0] == "Bin" and st[2] == "=":
            t = _norm(st[3])
            if t == var + ".UU.sval":
                r = T.strip_casts(st[4])
                return not (T.is_node(r) and r[0] == "Lit" and (r[2] == "null" or str(r[3]) == "0"))
            return t == var
        if st[0] == "Compound":
            return any(must_sval(x, var) for x in st[2])
        if st[0] == "If":
            return st[4] is not None and must_sval(st[3], var) and must_sval(st[4], var)
        if st[0] == "Case":
            return must_sval(st[4], var)
        return False
    for f in sorted(P.functions.values(), key=lambda g: (g["file"], g["line"])):
        if not f["file"].endswith("PBasic.cpp") or not f.get("body"):
            continue
        for c in T.walk(f["body"]):
            if c[0] != "Compound":
                continue
            segs, seg = [], []
            for st in c[2]:
                while T.is_node(st) and st[0] == "Case":
                    st = st[4]
                seg.append(st)
                if T.is_node(st) and st[0] == "Break":
                    segs.append(seg)
                    seg = []
            segs.append(seg)
            for seg in segs:
                for st in seg:
                    if not sets_flag(st):
                        continue
                    var = _norm(st[3])[:-len(".stringval")]
                    inst = "%s@%d" % (f["q"].split("::")[-1], st[1] - f["line"])
                    if any(must_sval(x, var) for x in seg):
                        R.ok(RULE, inst, "%s.UU.sval assigned in the same sequence" % var)
                    else:
                        R.violation(RULE, inst, "%s.stringval is set to true but %s.UU.sval is not given a string on every path of the same case / block: the consumers "
                                    "(strlen, strcpy, concatenation) dereference a null or stale pointer" % (var, var), file=f["file"], line=st[1], function=f["q"])


STRCOPY_EXEMPT = {
    # function: (destination text, reason)
    "PBasic::parse": ("v.name", "token is cut at toklength characters by the tokenizer loop (`if (j < toklength)`) and varrec::name has toklength + 1 elements"),
    "PBasic::stringfactor": ("Result", "the char* overload has no caller left (factor uses the std::string overload)"),
    "PBasic::stringexpr": ("Result", "called by cmdrun / cmdload only, with the max_line input buffer or for commands that are rejected inside a stored program (C08.basicraw)"),
    "PBasic::strinsert": ("dst", "p2c string library, not called from the interpreter"),
}


def strcopy_rule(P, R):
    """"never a crash": string values are C strings in heap blocks; the translation from Pascal kept 256-character blocks as the default.
    Census of every raw strcpy / strcat in PBasic.cpp whose source is not a literal: the destination block must be sized from the source
    (the capacity expression, or the local it is computed in, takes strlen / size() of the source - and of the destination for strcat),
    or the copy shrinks the destination's own content, or - for a caller-supplied buffer - the function bounds the source length against
    MAX_LENGTH before the copy.  A literal-sized block that receives a computed string is the defect (GET$ of a 40960-character string,
    STR$(1e300))."""
    RULE = "C17.strcopy"
    R.rule(RULE, "PBasic.cpp: every raw strcpy/strcat of a computed string goes into a block sized from that string (or a bounded / shrinking copy)", minimum=9)
    ALLOC = ("PHRQ_calloc", "PHRQ_malloc", "PHRQ_realloc")
    for q, (dst, why) in sorted(STRCOPY_EXEMPT.items()):
        if q not in P.functions and not [g for g in P.functions.values() if g["q"] == q]:
            R.anchor_missing(RULE, "exempt function %s not found" % q)
    seen_exempt = set()
    for f in sorted(P.functions.values(), key=lambda g: (g["file"], g["line"])):
        if not f["file"].endswith("PBasic.cpp") or not f.get("body"):
            continue
        calls = [c for c in T.calls(f["body"]) if T.callee_name(c) in ("strcpy", "strcat", "sprintf", "vsprintf")]
        if not calls:
            continue
        assigns = [(w[1], w) for w in T.walk(f["body"]) if w[0] == "Bin" and w[2] == "="]
        for c in calls:
            name = T.callee_name(c)
            a = T.call_args(c)
            inst = "%s@%d:%s" % (f["q"].split("::")[-1], c[1] - f["line"], name)
            if name in ("sprintf", "vsprintf"):
                R.violation(RULE, inst, "unbounded %s into %s" % (name, T.text(a[0])), file=f["file"], line=c[1], function=f["q"])
                continue
            src = T.strip_casts(a[1])
            if T.is_node(src) and src[0] == "Lit":
                continue
            dst_t, src_t = _norm(a[0]), _norm(a[1])
            ex = STRCOPY_EXEMPT.get(f["q"])
            if ex and ex[0] == dst_t:
                seen_exempt.add(f["q"])
                R.ok(RULE, inst, "exempt: " + ex[1])
                continue
            # the latest allocation of the destination before the copy
            alloc = None
            for line, w in assigns:
                if line <= c[1] and _norm(w[3]) == dst_t:
                    al = [k for k in T.calls(w[4]) if T.callee_name(k) in ALLOC]
                    if al and (alloc is None or line >= alloc[0]):
                        alloc = (line, al[0])
            need = [src_t] + ([dst_t] if name == "strcat" else [])

            def measures(expr_text, what):
                if "strlen(%s)" % what in expr_text:
                    return True
                if what.endswith(".c_str()"):
                    obj = what[:-len(".c_str()")]
                    return obj + ".size()" in expr_text or obj + ".length()" in expr_text
                return False
            if alloc is not None:
                aa = T.call_args(alloc[1])
                cap = aa[1] if T.callee_name(alloc[1]) == "PHRQ_realloc" else aa[0]
                texts = [_norm(cap)]
                names = {x[3] for x in T.walk(cap) if x[0] == "Ref" and x[2] == "local"} if T.is_node(cap) else set()
                for line, w in assigns:
                    if alloc[0] - 40 <= line <= alloc[0]:
                        l = T.strip_casts(w[3])
                        if T.is_node(l) and l[0] == "Ref" and l[3] in names:
                            texts.append(_norm(w[4]))
                for x in T.walk(f["body"]):     # declarations with initialiser, compound += in the same window
                    if x[0] == "Decl" and alloc[0] - 40 <= x[1] <= alloc[0]:
                        for d in x[2]:
                            if d[0] in names and d[2] is not None:
                                texts.append(_norm(d[2]))
                    if x[0] == "Bin" and x[2] == "+=" and alloc[0] - 40 <= x[1] <= alloc[0]:
                        l = T.strip_casts(x[3])
                        if T.is_node(l) and l[0] == "Ref" and l[3] in names:
                            texts.append(_norm(x[4]))
                joined = " ".join(texts)
                missing = [w for w in need if not measures(joined, w)]
                if not missing:
                    R.ok(RULE, inst, "block allocated at line %d with capacity `%s` computed from the copied string" % (alloc[0], T.text(cap)[:40]))
                    continue
                # a shrinking copy: the source is a std::string initialised from the destination and only cut since
                if src_t.endswith(".c_str()"):
                    obj = src_t[:-len(".c_str()")]
                    init = [d for x in T.walk(f["body"]) if x[0] == "Decl" and x[1] <= c[1] for d in x[2] if d[0] == obj and d[2] is not None and dst_t in _norm(d[2])]
                    later = [w for t, how, line, w in T.writes(f["body"]) if _norm(t) == obj and init and c[1] - 15 <= line <= c[1]]
                    if init and all(any(m in _norm(w) for m in (".substr(", ".clear()")) for w in later):
                        R.ok(RULE, inst, "shrinking copy: %s is the destination's own text, only cut by substr / clear" % obj)
                        continue
                R.violation(RULE, inst, "%s(%s, %s): the destination block (line %d) has capacity `%s`, which does not depend on the length of %s - a longer string "
                            "overflows it" % (name, T.text(a[0]), T.text(a[1])[:40], alloc[0], T.text(cap)[:30], " / ".join(missing)), file=f["file"], line=c[1], function=f["q"])
                continue
            # a shrinking copy without local allocation (the block came with the evaluated operand)
            if src_t.endswith(".c_str()"):
                obj = src_t[:-len(".c_str()")]
                init = [d for x in T.walk(f["body"]) if x[0] == "Decl" and c[1] - 15 <= x[1] <= c[1] for d in x[2] if d[0] == obj and d[2] is not None and dst_t in _norm(d[2])]
                later = [w for t, how, line, w in T.writes(f["body"]) if _norm(t) == obj and c[1] - 15 <= line <= c[1]]
                if init and all(any(m in _norm(w) for m in (".substr(", ".clear()")) for w in later):
                    R.ok(RULE, inst, "shrinking copy: %s is the destination's own text, only cut by substr / clear" % obj)
                    continue
            # caller-supplied buffer: the source must be bounded against MAX_LENGTH before the copy
            params = {p_[0] for p_ in f.get("params", [])} if f.get("params") else set()
            bounded = False
            for x in T.walk(f["body"]):
                if x[0] == "If" and x[1] < c[1] and "strlen(%s)" % src_t in _norm(x[2]) and any(T.callee_name(k) == "snprintf" and _norm(T.call_args(k)[0]) == src_t
                                                                                             for k in T.calls(x[3])):
                    bounded = True
            if bounded:
                R.ok(RULE, inst, "caller's buffer: a text of MAX_LENGTH characters or more is re-formatted (bounded format) before the copy")
                continue
            R.violation(RULE, inst, "%s(%s, %s): the destination is not allocated here and the length of the source is not bounded before the copy"
                        % (name, T.text(a[0]), T.text(a[1])[:40]), file=f["file"], line=c[1], function=f["q"])
    for q in STRCOPY_EXEMPT:
        if q not in seen_exempt:
            R.anchor_missing(RULE, "exemption for %s matched no call" % q)


def putkey_rule(P, R):
    """PUT / PUT$ store under a key that is the text of the subscripts ("3,4,"), GET / GET$ / EXISTS look the same text up.  Writer and
    readers agree only if each subscript is held, between intexpr and the stream, in the type intexpr returns: PUT kept it in an int while
    GET used a long, so PUT(5, 3000000000) was stored as "-1294967296," and never found."""
    RULE = "C17.putkey"
    R.rule(RULE, "PUT/GET key builders: a subscript streamed into the key text is held in the type intexpr returns (no narrowing on one side only)", minimum=8)
    ie = P.one("PBasic::intexpr")
    ret = None
    for f in P.functions.values():
        for c in T.calls(f.get("body")):
            if T.callee_q(c) == "PBasic::intexpr":
                ret = c[2].get("ret")
                break
        if ret:
            break
    if not ret:
        R.anchor_missing(RULE, "no call of PBasic::intexpr found")
        return
    n_writer = n_reader = 0
    for f in sorted(P.functions.values(), key=lambda g: (g["file"], g["line"])):
        if not f["file"].endswith("PBasic.cpp") or not f.get("body"):
            continue
        streamed = set()
        for c in T.calls(f["body"]):
            if T.callee_name(c) == "operator<<" and len(c[4]) == 2:
                root = c[4][0]
                while T.is_node(root) and root[0] == "Call" and T.callee_name(root) == "operator<<":
                    root = root[4][0]
                if T.is_node(root) and root[0] == "Ref" and "ostringstream" in str(root[4]):
                    r = T.strip_casts(c[4][1])
                    if T.is_node(r) and r[0] == "Ref" and r[2] == "local":
                        streamed.add(r[3])
        for w in T.walk(f["body"]):
            if w[0] == "Bin" and w[2] == "=":
                r = T.strip_casts(w[4])
                l = T.strip_casts(w[3])
                if T.is_node(r) and r[0] == "Call" and T.callee_q(r) == "PBasic::intexpr" and T.is_node(l) and l[0] == "Ref" and l[3] in streamed:
                    inst = "%s@%d:%s" % (f["q"].split("::")[-1], w[1] - f["line"], l[3])
                    if f["q"].endswith("factor"):
                        n_reader += 1
                    else:
                        n_writer += 1
                    if l[4] == ret and r is w[4]:
                        R.ok(RULE, inst, "held in %s" % ret)
                    else:
                        R.violation(RULE, inst, "the subscript is held in `%s` (intexpr returns %s) before it is written into the key text: writer and reader build different "
                                    "keys for values outside that type" % (l[4], ret), file=f["file"], line=w[1], function=f["q"])
    if not n_writer or not n_reader:
        R.anchor_missing(RULE, "key builders not found on both sides (writers %d, readers %d)" % (n_writer, n_reader))


def progkeep_rule(P, R):
    """"the values delivered by PUNCH/SAVE/PRINT equal those of a reference evaluation of the same program": the program is every numbered
    line of the block.  The block readers collect the lines in a loop that also recognises option lines (-start, -end, -headings) and
    falls back to the default case after each of them; inside that loop the collected text (rate::commands) may be emptied only once -
    under a flag that the same block sets, or for a new named definition (RATES, CALCULATE_VALUES read a name first).  An unconditional
    clear in the default case throws away the lines read before an option line."""
    RULE = "C17.progkeep"
    R.rule(RULE, "block readers of BASIC programs: the collected lines are not discarded by a later line of the same definition", minimum=2)
    n = 0
    for q in ("Phreeqc::read_user_punch", "Phreeqc::read_user_print"):
        f = P.one(q)
        loops = [x for x in T.walk(f["body"]) if x[0] in ("For", "While")]
        if not loops:
            R.anchor_missing(RULE, "%s: line loop not found" % q)
            continue
        lp = max(loops, key=lambda x: len(str(x)))
        clears = []

        def visit(node, conds):
            if not T.is_node(node):
                return
            if node[0] == "If":
                visit(node[3], conds + [node[2]])
                visit(node[4], conds)
                return
            if node[0] == "Call" and T.callee_name(node) == "clear" and T.call_obj(node) is not None and "commands" in T.text(T.call_obj(node)):
                clears.append((node[1], conds))
            for c in node[2:]:
                if isinstance(c, list):
                    if c and isinstance(c[0], str):
                        visit(c, conds)
                    else:
                        for cc in c:
                            if isinstance(cc, list) and cc and isinstance(cc[0], str):
                                visit(cc, conds)
        visit(lp[-1], [])
        n += 1
        inst = q.split("::")[-1]
        bad = None
        for line, conds in clears:
            once = False
            for c in conds:      # `if (!flag)` with `flag = true` in the guarded block
                t = T.strip_casts(c)
                if T.is_node(t) and t[0] == "Un" and t[2] == "!" and T.is_node(T.strip_casts(t[3])) and T.strip_casts(t[3])[0] == "Ref":
                    flag = T.strip_casts(t[3])[3]
                    if any(w[0] == "Bin" and w[2] == "=" and T.is_node(T.strip_casts(w[3])) and T.strip_casts(w[3])[0] == "Ref" and T.strip_casts(w[3])[3] == flag
                           for w in T.walk(lp[-1])):
                        once = True
            if not once:
                bad = line
        if bad is None:
            R.ok(RULE, inst, "%d clear(s) of the program text inside the line loop, each under a once-per-block flag" % len(clears))
        else:
            R.violation(RULE, inst, "%s empties the collected program text inside its line loop (line %d) without a once-per-block guard: the BASIC lines read before an option "
                        "line (-headings, -start) are discarded silently" % (inst, bad), file=f["file"], line=bad, function=q)
    if n < 2:
        R.anchor_missing(RULE, "readers of USER_PUNCH / USER_PRINT not found")


def linestore_rule(P, R):
    """The line store (parseinput): a line entered with a number that is already in the program REPLACES the old line, a new number is
    inserted in order.  The walk `while (l != NULL && l->num ? curline)` and the test `if (l != NULL && l->num == curline)` that
    follows it are executed concretely on a model program with the lines 10, 20, 30 for the new numbers 5, 10, 15, 20, 30, 40: the walk
    must stop at the first line whose number is not smaller, and the replacement test must fire exactly for 10, 20, 30.  (With `<=` the
    walk passes the equal line, both lines stay in the program and the old one keeps executing first.)"""
    from .. import minieval as ME
    RULE = "C17.linestore"
    R.rule(RULE, "parseinput: the walk of the line list stops at the first line number >= the new one and an equal number replaces the stored line", minimum=6)
    f = P.one("PBasic::parseinput")
    walks = [x for x in T.walk(f["body"]) if x[0] == "While" and any(y[0] == "Member" and y[2].endswith("::num") for y in T.walk(x[2]))
             and any(y[0] == "Member" and y[2].endswith("curline") or (y[0] == "Ref" and y[3] == "curline") for y in T.walk(x[2]))]
    if len(walks) != 1:
        R.anchor_missing(RULE, "parseinput: the walk over the line list was found %d times" % len(walks))
        return
    wk = walks[0]
    # the walking pointer: the local that the body advances with `p = p->next`
    adv = [w for w in T.walk(wk[3]) if w[0] == "Bin" and w[2] == "=" and T.is_node(T.strip_casts(w[4])) and T.strip_casts(w[4])[0] == "Member"
           and T.strip_casts(w[4])[2].endswith("::next")]
    if len(adv) != 1:
        R.anchor_missing(RULE, "parseinput: the walk does not advance with `l = l->next`")
        return
    ptr = T.strip_casts(adv[0][3])[3]
    stmts = None
    for blk in T.walk(f["body"]):
        if blk[0] == "Compound" and wk in blk[2]:
            stmts = blk[2]
    k = stmts.index(wk)
    tests = [x for x in stmts[k + 1:k + 3] if T.is_node(x) and x[0] == "If" and any(y[0] == "Member" and y[2].endswith("::num") for y in T.walk(x[2]))]
    if len(tests) != 1:
        R.anchor_missing(RULE, "parseinput: the replacement test after the walk was not found")
        return
    nums = [10, 20, 30]
    for cur in (5, 10, 15, 20, 30, 40):
        idx = [0]

        def resolve(n, cur=cur, idx=idx):
            if n[0] == "Ref" and n[3] == ptr:
                return idx[0] + 1 if idx[0] < len(nums) else 0
            if n[0] == "Member" and n[2].endswith("::num"):
                if idx[0] >= len(nums):
                    raise ME.Unsupported("dereference of the end of the list")
                return nums[idx[0]]
            if (n[0] == "Member" and n[2].endswith("curline")) or (n[0] == "Ref" and n[3] == "curline"):
                return cur
            return None
        inst = "new=%d" % cur
        try:
            env = ME.Env(resolve=resolve)
            guard = 0
            while ME.ev(wk[2], env):
                idx[0] += 1
                guard += 1
                if guard > 10:
                    raise ME.Unsupported("walk does not end")
            replaced = bool(ME.ev(tests[0][2], env))
        except ME.Unsupported as e:
            R.anchor_missing(RULE, "parseinput: %s not evaluable (%s)" % (inst, e))
            return
        want_idx = sum(1 for v in nums if v < cur)
        want_rep = cur in nums
        if idx[0] == want_idx and replaced == want_rep:
            R.ok(RULE, inst, "stops before position %d, %s" % (idx[0], "replaces" if replaced else "inserts"))
        else:
            R.violation(RULE, inst, "program 10 20 30, new line %d: the walk stops before position %d (%d expected) and the line is %s (%s expected): a line entered again "
                        "does not replace the stored one" % (cur, idx[0], want_idx, "replaced" if replaced else "inserted", "replaced" if want_rep else "inserted"),
                        file=f["file"], line=wk[1], function=f["q"])


def powargs_rule(P, R):
    """x ^ y: upexpr holds the base in `n` (the left operand, parsed first) and the exponent in `n2` (parsed by the recursive call after
    the ^ token).  Every pow() call of the function must take the base from n and the exponent from n2 - swapped operands still give a
    number (2^3 -> 9)."""
    RULE = "C17.powargs"
    R.rule(RULE, "upexpr: pow(base, exponent) takes the base from the left operand and the exponent from the right operand", minimum=2)
    f = P.one("PBasic::upexpr")
    # left operand: the local assigned from factor(); right operand: the local assigned from the recursive upexpr()
    left = right = None
    for x in T.walk(f["body"]):
        tgt = val = None
        if x[0] == "Bin" and x[2] == "=":
            tgt, val = T.strip_casts(x[3]), T.strip_casts(x[4])
        elif x[0] == "Call" and T.callee_name(x) == "operator=" and len(x[4]) == 2:      # valrec is a class: assignment is an operator call
            tgt, val = T.strip_casts(x[4][0]), T.strip_casts(x[4][1])
        if T.is_node(tgt) and tgt[0] == "Ref" and T.is_node(val) and val[0] == "Call":
            if T.callee_name(val) == "factor":
                left = tgt[3]
            elif T.callee_name(val) == "upexpr":
                right = tgt[3]
    pows = [c for c in T.calls(f["body"]) if T.callee_name(c) == "pow" and len(c[4]) == 2]
    if left is None or right is None or len(pows) < 2:
        R.anchor_missing(RULE, "upexpr: operands (%s, %s) or pow calls (%d) not found" % (left, right, len(pows)))
        return
    for c in pows:
        a0 = {y[3] for y in T.walk(c[4][0]) if y[0] == "Ref" and y[2] == "local"}
        a1 = {y[3] for y in T.walk(c[4][1]) if y[0] == "Ref" and y[2] == "local"}
        inst = "pow@%d" % (c[1] - f["line"])
        if a0 == {left} and a1 == {right}:
            R.ok(RULE, inst, "pow(%s, %s)" % (T.text(c[4][0])[:20], T.text(c[4][1])[:20]))
        else:
            R.violation(RULE, inst, "pow(%s, %s): the base must come from the left operand `%s` and the exponent from the right operand `%s`"
                        % (T.text(c[4][0])[:30], T.text(c[4][1])[:30], left, right), file=f["file"], line=c[1], function=f["q"])


def dimsize_rule(P, R):
    """"never a crash": DIM multiplies the dimensions given by the program into the number of elements it allocates.  A product that wraps
    around allocates a small block for a large array, and the first store writes outside it.  In cmddim every `size *= dimension` must be
    preceded, in the same block, by a test that bounds the running product by (a limit) / dimension - the overflow test that does not
    itself overflow - whose failing branch raises the BASIC error."""
    RULE = "C17.dimsize"
    R.rule(RULE, "cmddim: the running product of the dimensions is bounded by limit / dimension before each multiplication", minimum=1)
    f = P.one("PBasic::cmddim")
    n = 0
    for blk in T.walk(f["body"]):
        if blk[0] != "Compound":
            continue
        for k, st in enumerate(blk[2]):
            if not (T.is_node(st) and st[0] == "Bin" and st[2] == "*=" and T.is_node(T.strip_casts(st[3])) and T.strip_casts(st[3])[0] == "Ref"):
                continue
            prod, dim = T.strip_casts(st[3])[3], T.strip_casts(st[4])
            if not (T.is_node(dim) and dim[0] == "Ref"):
                continue
            n += 1
            inst = "%s*=%s@%d" % (prod, dim[3], st[1] - f["line"])
            ok = False
            for pv in blk[2][:k]:
                if T.is_node(pv) and pv[0] == "If":
                    c = T.strip_casts(pv[2])
                    if T.is_node(c) and c[0] == "Bin" and c[2] in (">", ">=") and T.is_node(T.strip_casts(c[3])) and T.strip_casts(c[3])[0] == "Ref" \
                            and T.strip_casts(c[3])[3] == prod and any(y[0] == "Bin" and y[2] == "/" and T.is_node(T.strip_casts(y[4])) and T.strip_casts(y[4])[0] == "Ref"
                                                                         and T.strip_casts(y[4])[3] == dim[3] for y in T.walk(c[4])) \
                            and any(T.callee_name(x) in ("badsubscr", "errormsg", "snerr", "tmerr") for x in T.calls(pv[3])):
                        ok = True
            if ok:
                R.ok(RULE, inst, "bounded by limit / %s before the multiplication" % dim[3])
            else:
                R.violation(RULE, inst, "cmddim multiplies the running element count `%s` by the dimension `%s` without an overflow test: DIM a(65535,65535,65535,65535) wraps to 0 "
                            "elements, the first store writes outside the block" % (prod, dim[3]), file=f["file"], line=st[1], function=f["q"])
    if n < 1:
        R.anchor_missing(RULE, "cmddim: the size product was not found")


def loopvar_rule(P, R):
    """FOR / NEXT: the control variable is the variable (or array ELEMENT) named in the FOR statement.  findvar() leaves varrec::val
    pointing to the array element named last, and every later reference to another element moves it; the loop record must therefore keep
    the address it found at FOR time, and NEXT must increment and test through that address - not through `vp->val`, which by then may
    point to another element (FOR c(1) ... with a body that reads c(2) incremented c(2))."""
    RULE = "C17.loopvar"
    R.rule(RULE, "cmdfor / cmdnext read and write the control variable through the address stored in the loop record, not through varrec::val", minimum=2)
    for q in ("PBasic::cmdfor", "PBasic::cmdnext"):
        f = P.one(q)
        inst = q.split("::")[-1]
        # dereferences of ...->UU.U0.vp->UU.U0.val  (value pointer reached through the loop record's varrec)
        bad = []
        for x in T.walk(f["body"]):
            if x[0] == "Un" and x[2] == "*":
                t = "".join(T.text(x[3], -40).split())
                if t.endswith("U0.vp.UU.U0.val") or ".vp.UU.U0.val" in t:
                    bad.append(x[1])
        if q.endswith("cmdfor"):
            # the one legitimate use: capturing the address right after findvar
            stores = [w for w in T.walk(f["body"]) if w[0] == "Bin" and w[2] == "=" and "".join(T.text(w[3], -40).split()).endswith("valp")]
            if not stores:
                R.violation(RULE, inst, "cmdfor does not record the address of the control variable in the loop record", file=f["file"], line=f["line"], function=q)
                continue
        if bad:
            R.violation(RULE, inst, "%s dereferences the control variable through varrec::val (line %d): for an array that is the element referenced last, not the one "
                        "named in FOR" % (inst, bad[0]), file=f["file"], line=bad[0], function=q)
        else:
            R.ok(RULE, inst, "control variable reached through the stored address")
