"""C15 – results are invariant under physically irrelevant changes of the input.

The property is metamorphic (equalities between pairs of runs) and is NOT decided as a whole.  One of its mechanisms is
structural: "order-independent storage (sorted lists)".  The engine sorts its species, master-species, element, rate, reaction
token and isotope lists with qsort and looks names up with bsearch; the order of the input can only be forgotten if every
comparison callback is a consistent ordering.  Decided:
  C15.compare  every function handed to qsort is antisymmetric by construction:
               - every comparison that relates the two operands (a relational operator or a str*cmp call with one side derived
                 from the first parameter and the other from the second) applies the SAME accessor to both operands;
               - locals derived from the two operands are defined by the same expressions of their operand;
               - `if (<cond on both>) return v` tests come in mirrored pairs (reversed operator, negated v), one-sided tests
                 (`if (f(x1)) return v; if (f(x2)) return -v;`) likewise.
               A comparator that reads different keys from its two operands, or returns the same sign for both directions, makes
               the sorted order - and every sum or search that walks it - depend on the order of the input.
  C15.search   a list searched with bsearch is searched by the key it is sorted by: for every <x>_compare / <x>_compare_string
               pair the element accessor and the comparison function agree.
  C15.addsol   "extensive/intensive separation when adding solutions": in cxxSolution::add every scalar member is either
               extensive (this.x += addee.x * extensive) or intensive (this.x = f1 this.x + f2 addee.x) with weights that are
               the water fractions of the two solutions (f1 = w1/(w1 + e w2), f2 = e w2/(w1 + e w2), so f1 + f2 = 1 - exact
               rational identities with the locals inlined); the extensive set is exactly the set cxxSolution::multiply scales,
               and the element totals / isotopes are added and scaled by their extensive helpers.  A member moved to the other
               class, or an extensive term without the factor, makes scaling or splitting a mix change the result.
  C15.addmul   the same partition for the other reactant classes that can be mixed (exchange, gas, kinetics, pure-phase, surface,
               surface-charge and surface-site components): a member added as  += addee.x * extensive  in <class>::add is scaled
               by <class>::multiply and vice versa (multiplications by the literal 1 are no-ops); one recorded deviation
               (tables/c15_addmul_exempt.json)
  C15.scale    "scaling the water mass and all extensive amounts by a common factor": Phreeqc::calc_dens turns species amounts into
               the solution density, mass and volume.  With the extensive inputs (species moles, water mass) scaled by 2 - decided
               as an exact rational identity, accumulators classified from their own update statements - the density is unchanged
               (degree 0) and the solution mass and volume double (degree 1).  A term that loses its division by the water mass
               makes the density depend on how much solution there is.
  C15.gfw      "expressing concentrations in different supported units": when a mass-based concentration carries neither `as` nor
               `gfw`, convert_units takes the formula weight of the master species the concentration was entered for; the
               look-up feeding `Set_gfw(master_ptr->gfw)` is the exact-entry search (master_bsearch), not the search that
               returns the element's primary master (master_bsearch_primary), whose weight differs for valence states such as
               S(-2) or C(-4)
  C15.mixweights  "scaling the water mass ... / mixing": add_mix weights the intensive properties of the mixed solutions by their
               share of the water: every value assigned to the weight handed to add_solution (intensive_water) is of degree 0 in
               the water masses of the solutions (a water-weighted amount divided by a water-weighted sum, accumulators
               classified from their own updates); divided by a plain sum of fractions the weights scale with the water mass and
               temperature / pressure of a mix depend on how much water the solutions hold
  C15.unitfamilies  in convert_units every condition that names a unit family per litre (g/l, Mol/l, eq/l) names it per kg solution too
  C15.spreaddefaults  every member of the SOLUTION_SPREAD `defaults` object (block-level -temp, -density [calculate], -units, -redox, -pH,
               -pe, -water, -pressure, -isotope) is applied to the rows by spread_row_to_solution
Not decided: unit conversion, density iteration, extensive/intensive scaling, mixing order, repeated definitions (all need the
numerical result of two runs).
"""
from .. import tree as T
from .. import shape as SH

PROP = "C15"
EXPLANATION = __doc__

CMPFN = ("strcmp", "strncmp", "strcmp_nocase", "strcmp_nocase_arg1", "strcasecmp", "strncasecmp")
REL = {"<": ">", ">": "<", "<=": ">=", ">=": "<=", "==": "==", "!=": "!="}


def comparators(P, via):
    out = {}
    for key, f in sorted(P.functions.items()):
        for c in T.calls(f["body"]):
            if T.callee_name(c) in via:
                for a in c[4]:
                    for y in T.walk(a):
                        if y[0] == "Ref" and y[2] == "func":
                            out.setdefault(y[3], []).append((f["q"], c[1]))
    return out


class Roots:
    """which comparator parameter (1 or 2) each local is derived from"""

    def __init__(self, f):
        self.f = f
        self.p = f["pnames"][:2]
        self.root = {self.p[0]: 1, self.p[1]: 2}
        self.defs = {}
        changed = True
        while changed:
            changed = False
            for x in T.walk(f["body"]):
                tgt = src = None
                if x[0] == "Bin" and x[2] == "=" and T.strip_casts(x[3])[0] == "Ref" and T.strip_casts(x[3])[2] == "local":
                    tgt, src = T.strip_casts(x[3])[3], x[4]
                elif x[0] == "Decl":
                    for d in x[2]:
                        if T.is_node(d[2]):
                            r = self.of(d[2])
                            if len(r) == 1 and d[0] not in self.root:
                                self.root[d[0]] = next(iter(r))
                                changed = True
                    continue
                if tgt is not None:
                    r = self.of(src)
                    if len(r) == 1 and tgt not in self.root:
                        self.root[tgt] = next(iter(r))
                        changed = True
        for x in T.walk(f["body"]):
            if x[0] == "Bin" and x[2] == "=" and T.strip_casts(x[3])[0] == "Ref" and T.strip_casts(x[3])[3] in self.root:
                self.defs.setdefault(T.strip_casts(x[3])[3], []).append(x[4])
            elif x[0] == "Decl":
                for d in x[2]:
                    if T.is_node(d[2]) and d[0] in self.root:
                        self.defs.setdefault(d[0], []).append(d[2])
        # pair locals of root 1 with locals of root 2 in order of appearance
        order = []
        for x in T.walk(f["body"]):
            if x[0] == "Ref" and x[2] in ("local", "param") and x[3] in self.root and x[3] not in order:
                order.append(x[3])
            if x[0] == "Decl":
                for d in x[2]:
                    if d[0] in self.root and d[0] not in order:
                        order.append(d[0])
        l1 = [n for n in order if self.root[n] == 1]
        l2 = [n for n in order if self.root[n] == 2]
        self.subst = {}
        for i, (a, b) in enumerate(zip(l1, l2)):
            self.subst[a] = self.subst[b] = "#%d" % i
        self.unpaired = l1[len(l2):] + l2[len(l1):]

    def of(self, n):
        return set(self.root[y[3]] for y in T.walk(n) if y[0] == "Ref" and y[2] in ("local", "param") and y[3] in self.root)

    def sh(self, n):
        return SH.shape(n, self.subst)


def ret_value(stmt):
    """literal returned by `return LIT;` possibly inside a one-statement compound"""
    s_ = stmt
    while T.is_node(s_) and s_[0] == "Compound" and len([c for c in s_[2] if T.is_node(c)]) == 1:
        s_ = [c for c in s_[2] if T.is_node(c)][0]
    if T.is_node(s_) and s_[0] == "Return":
        return T.lit_value(s_[2])
    return None


def addsol_rule(P, R):
    from .. import ratfun as RF
    from fractions import Fraction
    R.rule("C15.addsol", "cxxSolution::add treats each scalar as extensive (+= addee.x * e) or intensive (water-fraction weights), consistently with multiply", minimum=15)
    fa = [f for f in P.fns_named("cxxSolution::add") if len(f["pnames"]) == 2]
    fm = P.fns_named("cxxSolution::multiply")
    if len(fa) != 1 or len(fm) != 1:
        R.anchor_missing("C15.addsol", "cxxSolution::add(const cxxSolution&, LDBLE) / multiply not found")
        return
    fa, fm = fa[0], fm[0]
    addee, ext = fa["pnames"]
    where = dict(file=fa["file"], function=fa["q"])
    locs = {}
    for x in T.walk(fa["body"]):
        if x[0] == "Decl":
            for d in x[2]:
                if T.is_node(d[2]):
                    locs.setdefault(d[0], []).append(d[2])

    def conv(n):
        n = T.strip_casts(n)
        if n[0] == "Lit":
            return RF.Rat.const(Fraction(str(n[3]).rstrip("fFlL")))
        if n[0] == "Member":
            b = T.strip_casts(n[3]) if T.is_node(n[3]) else None
            fld = n[2].split("::")[-1]
            if T.is_node(b) and b[0] == "This":
                return RF.Rat.sym("t." + fld)
            if T.is_node(b) and b[0] == "Ref" and b[3] == addee:
                return RF.Rat.sym("a." + fld)
            raise RF.NotRational(T.text(n))
        if n[0] == "Ref" and n[2] == "param" and n[3] == ext:
            return RF.Rat.sym("e")
        if n[0] == "Ref" and n[2] == "local" and len(locs.get(n[3], [])) == 1:
            return conv(locs[n[3]][0])
        if n[0] == "Bin" and n[2] in ("+", "-", "*", "/"):
            a, b = conv(n[3]), conv(n[4])
            return a + b if n[2] == "+" else a - b if n[2] == "-" else a * b if n[2] == "*" else a / b
        if n[0] == "Un" and n[2] == "-":
            return -conv(n[3])
        raise RF.NotRational(T.text(n)[:40])
    # the weights
    try:
        f1 = conv(locs["f1"][0]) if "f1" in locs else None
        f2 = conv(locs["f2"][0]) if "f2" in locs else None
    except (RF.NotRational, ZeroDivisionError, KeyError):
        f1 = f2 = None
    if f1 is None or f2 is None:
        R.anchor_missing("C15.addsol", "weights f1 / f2 of cxxSolution::add not found as single-definition locals")
        return
    w1, w2 = RF.Rat.sym("t.mass_water"), RF.Rat.sym("a.mass_water") * RF.Rat.sym("e")
    if f1.same(w1 / (w1 + w2)) and f2.same(w2 / (w1 + w2)):
        R.ok("C15.addsol", "weights", "f1 = w1/(w1 + e w2), f2 = e w2/(w1 + e w2)")
    else:
        R.violation("C15.addsol", "weights", "the mixing weights are not the water fractions of the two solutions (f1 = %s, f2 = %s)" % (T.text(locs["f1"][0])[:60], T.text(locs["f2"][0])[:60]),
                    line=fa["line"], **where)
    ext_add, int_add = {}, {}
    top = [s_ for s_ in fa["body"][2] if T.is_node(s_)]
    for x in top:
        if x[0] != "Bin" or x[2] not in T.ASSIGN_OPS:
            continue
        t = T.strip_casts(x[3])
        if not (t[0] == "Member" and T.is_node(t[3]) and T.strip_casts(t[3])[0] == "This"):
            continue
        fld = t[2].split("::")[-1]
        inst = "add:%s" % fld
        try:
            rhs = conv(x[4])
        except (RF.NotRational, ZeroDivisionError) as e_:
            R.violation("C15.addsol", inst, "`%s %s %s` is neither the extensive nor the intensive form" % (fld, x[2], T.text(x[4])[:80]), line=x[1], **where)
            continue
        tf, af = RF.Rat.sym("t." + fld), RF.Rat.sym("a." + fld)
        if x[2] == "+=" and rhs.same(af * RF.Rat.sym("e")):
            ext_add[fld] = x[1]
            R.ok("C15.addsol", inst, "extensive: += addee.%s * extensive" % fld)
        elif x[2] == "=" and rhs.same(f1 * tf + f2 * af):
            int_add[fld] = x[1]
            R.ok("C15.addsol", inst, "intensive: water-fraction weighted mean")
        else:
            R.violation("C15.addsol", inst, "`%s %s %s` is neither `+= addee.%s * extensive` nor `= f1*this + f2*addee`: the member is mixed in a way that is not invariant under "
                        "scaling or splitting the added solution" % (fld, x[2], T.text(x[4])[:80], fld), line=x[1], **where)
    # multiply scales exactly the extensive scalars
    mul = {}
    for x in fm["body"][2]:
        if T.is_node(x) and x[0] == "Bin" and x[2] == "*=":
            t = T.strip_casts(x[3])
            if t[0] == "Member":
                mul[t[2].split("::")[-1]] = x[1]
    for fld in sorted(set(ext_add) | set(mul)):
        inst = "partition:%s" % fld
        if fld in ext_add and fld in mul:
            R.ok("C15.addsol", inst, "extensive in add and scaled by multiply")
        elif fld in ext_add:
            R.violation("C15.addsol", inst, "%s is added as an extensive quantity but cxxSolution::multiply does not scale it" % fld, file=fm["file"], line=fm["line"], function=fm["q"])
        else:
            R.violation("C15.addsol", inst, "cxxSolution::multiply scales %s but cxxSolution::add does not add it as an extensive quantity (%s)"
                        % (fld, "it is averaged as intensive" if fld in int_add else "it is not added at all"), line=int_add.get(fld, fa["line"]), **where)
    # containers
    ca = [T.callee_name(c) for s_ in top for c in T.calls(s_) if s_[0] == "Call"]
    cm = [T.callee_name(c) for s_ in fm["body"][2] if T.is_node(s_) and s_[0] == "Call" for c in T.calls(s_)]
    for a_, m_ in (("add_extensive", "multiply"), ("Add_isotopes", "Multiply_isotopes")):
        if a_ in ca and m_ in cm:
            R.ok("C15.addsol", "container:%s" % a_, "%s in add, %s in multiply" % (a_, m_))
        else:
            R.violation("C15.addsol", "container:%s" % a_, "element totals / isotopes are not both added (%s) and scaled (%s) through their extensive helpers" % (a_, m_), line=fa["line"], **where)


def scale_rule(P, R):
    from .. import ratfun as RF
    from fractions import Fraction
    R.rule("C15.scale", "calc_dens: density is intensive (degree 0), solution mass and volume are extensive (degree 1) under scaling of amounts and water mass", minimum=5)
    f = P.one("Phreeqc::calc_dens")
    where = dict(file=f["file"], function=f["q"])
    EXT = {"moles": 1, "mass_water_aq_x": 1}       # base extensive quantities (species/unknown amounts, kg water)
    deg = {}

    def conv(n):
        n = T.strip_casts(n)
        if n[0] == "Lit":
            return RF.Rat.const(Fraction(str(n[3]).rstrip("fFlL")))
        if n[0] == "Member":
            return RF.Rat.sym(n[2].split("::")[-1])
        if n[0] == "Ref" and n[2] in ("local", "param"):
            return RF.Rat.sym(n[3])
        if n[0] == "Index":
            return RF.Rat.sym(T.text(n).replace(" ", ""))
        if n[0] == "Bin" and n[2] in ("+", "-", "*", "/"):
            a, b = conv(n[3]), conv(n[4])
            return a + b if n[2] == "+" else a - b if n[2] == "-" else a * b if n[2] == "*" else a / b
        if n[0] == "Un" and n[2] == "-":
            return -conv(n[3])
        raise RF.NotRational(T.text(n)[:40])

    def degree(r):
        """k such that r(2*ext) == 2^k r, for k in 0, 1, -1; None otherwise"""
        sc = r
        for nm, d in list(EXT.items()) + list(deg.items()):
            if d and nm in r.symbols():
                sc = sc.scaled(nm, 2 ** d)
        for k in (0, 1, -1, 2):
            if sc.same(r * RF.Rat.const(Fraction(2) ** k)):
                return k
        return None
    # accumulators: X += <expr> inside the species loop
    for x in T.walk(f["body"]):
        if x[0] == "Bin" and x[2] == "+=" and T.strip_casts(x[3])[0] in ("Member", "Ref"):
            nm = T.text(x[3]).split(".")[-1]
            try:
                d = degree(conv(x[4]))
            except RF.NotRational:
                d = None
            inst = "accumulator:%s" % nm
            if d is None:
                R.violation("C15.scale", inst, "`%s += %s` is not homogeneous in the amounts" % (nm, T.text(x[4])[:60]), line=x[1], **where)
            else:
                if nm in deg and deg[nm] != d:
                    R.violation("C15.scale", inst, "%s is accumulated with terms of different degree" % nm, line=x[1], **where)
                deg[nm] = d
                R.ok("C15.scale", inst, "degree %d in the amounts" % d)
    want = {"density_x": 0, "solution_mass_x": 1, "solution_volume_x": 1}
    seen = set()
    for x in T.walk(f["body"]):
        if x[0] == "Bin" and x[2] == "=" and T.strip_casts(x[3])[0] in ("Member", "Ref"):
            nm = T.text(x[3]).split(".")[-1]
            if nm not in want:
                continue
            try:
                r = conv(x[4])
            except RF.NotRational:
                continue
            d = degree(r)
            seen.add(nm)
            inst = "%s@%d" % (nm, x[1])
            if d == want[nm]:
                R.ok("C15.scale", inst, "degree %d" % d)
                deg[nm] = d
            else:
                R.violation("C15.scale", inst, "`%s = %s` has degree %s in the extensive amounts, expected %d: %s" % (nm, T.text(x[4])[:100], d, want[nm],
                            "the density would depend on the size of the solution" if want[nm] == 0 else "it would not scale with the size of the solution"), line=x[1], **where)
                deg[nm] = want[nm]
    for nm in want:
        if nm not in seen:
            R.anchor_missing("C15.scale", "calc_dens: assignment of %s not found" % nm)


def addmul_rule(P, R):
    import json, os
    from ..facts import VERIF
    tab = json.load(open(os.path.join(VERIF, "tables", "c15_addmul_exempt.json")))
    R.table("c15_addmul_exempt.json", tab)
    R.rule("C15.addmul", "reactant component classes: members added extensively in add() are exactly the members scaled by multiply()", minimum=12)
    used = set()
    for c in ("cxxExchComp", "cxxGasComp", "cxxKineticsComp", "cxxPPassemblageComp", "cxxSurfaceCharge", "cxxSurfaceComp"):
        fa = [f for f in P.fns_named(c + "::add") if len(f["pnames"]) == 2]
        fm = P.fns_named(c + "::multiply")
        if len(fa) != 1 or len(fm) != 1:
            R.anchor_missing("C15.addmul", "%s::add / multiply not found" % c)
            continue
        fa, fm = fa[0], fm[0]
        addee, ext = fa["pnames"]
        extadd, other = {}, {}
        for x in T.walk(fa["body"]):
            if x[0] == "Bin" and x[2] in T.ASSIGN_OPS:
                t = T.strip_casts(x[3])
                if t[0] == "Member" and T.is_node(t[3]) and T.strip_casts(t[3])[0] == "This":
                    fld = t[2].split("::")[-1]
                    r = T.strip_casts(x[4])
                    # += addee.fld * extensive (either operand order)
                    okx = False
                    if x[2] == "+=" and r[0] == "Bin" and r[2] == "*":
                        sides = [T.strip_casts(r[3]), T.strip_casts(r[4])]
                        hasf = any(s_[0] == "Member" and s_[2].split("::")[-1] == fld and T.is_node(s_[3]) and T.strip_casts(s_[3])[0] == "Ref" and T.strip_casts(s_[3])[3] == addee for s_ in sides)
                        hase = any(s_[0] == "Ref" and s_[3] == ext for s_ in sides)
                        okx = hasf and hase
                    if okx:
                        extadd[fld] = x[1]
                    elif x[2] == "+=":
                        other[fld] = (x[1], T.text(x[4])[:60])
        mul = {}
        for x in T.walk(fm["body"]):
            if x[0] == "Bin" and x[2] == "*=":
                t = T.strip_casts(x[3])
                r = T.strip_casts(x[4])
                if t[0] == "Member" and not (r[0] == "Lit" and float(str(r[3]).rstrip("fFlL")) == 1.0):
                    mul[t[2].split("::")[-1]] = x[1]
        for fld, (line, txt) in sorted(other.items()):
            R.violation("C15.addmul", "%s::%s" % (c, fld), "`%s += %s` in %s::add is not `addee.%s * extensive`" % (fld, txt, c, fld), file=fa["file"], line=line, function=fa["q"])
        for fld in sorted(set(extadd) | set(mul)):
            inst = "%s::%s" % (c, fld)
            if fld in extadd and fld in mul:
                R.ok("C15.addmul", inst, "extensive in add and scaled by multiply")
                continue
            row = tab["rows"].get(inst)
            if row:
                used.add(inst)
                R.ok("C15.addmul", inst, "recorded deviation (%s)" % row["kind"])
            elif fld in extadd:
                R.violation("C15.addmul", inst, "%s is added extensively by %s::add but %s::multiply does not scale it: a mixing fraction is ignored for it" % (fld, c, c), file=fm["file"], line=fm["line"], function=fm["q"])
            else:
                R.violation("C15.addmul", inst, "%s::multiply scales %s but %s::add does not add it extensively" % (c, fld, c), file=fa["file"], line=fa["line"], function=fa["q"])
    for k in tab["rows"]:
        if k not in used:
            R.anchor_missing("C15.addmul", "exemption row %s no longer matches a deviation" % k)


def gfw_rule(P, R):
    R.rule("C15.gfw", "convert_units takes the default formula weight from the exact master entry of the description", minimum=1)
    f = P.one("Phreeqc::convert_units")
    n = 0
    for blk in T.walk(f["body"]):
        if blk[0] != "Compound":
            continue
        stm = [s_ for s_ in blk[2] if T.is_node(s_)]
        look = [s_ for s_ in stm if s_[0] == "Bin" and s_[2] == "=" and T.text(s_[3]) == "master_ptr" and T.strip_casts(s_[4])[0] == "Call"]
        uses = [s_ for s_ in stm if any(T.callee_name(c) == "Set_gfw" and any(y[0] == "Member" and y[2] == "master::gfw" for y in T.walk(c)) for c in T.calls(s_))]
        if look and uses:
            n += 1
            cal = T.callee_name(T.strip_casts(look[-1][4]))
            inst = "convert_units@%d" % look[-1][1]
            if cal == "master_bsearch":
                R.ok("C15.gfw", inst, "master_bsearch(description)")
            else:
                R.violation("C15.gfw", inst, "the default formula weight is taken from %s(): for a concentration entered for a valence state (S(-2), C(-4)) this is the weight of the "
                            "element's primary species, so mg/kgw and mmol/kgw descriptions of the same water disagree" % cal, file=f["file"], line=look[-1][1], function=f["q"])
    if n == 0:
        R.anchor_missing("C15.gfw", "convert_units: the default formula-weight look-up was not found")


def spreaddefaults_rule(P, R):
    """"SOLUTION_SPREAD rows versus SOLUTION blocks": the block-level options of SOLUTION_SPREAD (-temp, -density [calculate], -units,
    -redox, -pH, -pe, -water, -pressure, -isotope) are collected in an object of class `defaults` and applied to every row by
    spread_row_to_solution.  Every member of that class must be read there; a member that is parsed but not applied makes the rows
    differ from the SOLUTION block that states the same option."""
    RULE = "C15.spreaddefaults"
    R.rule(RULE, "every member of the SOLUTION_SPREAD defaults object is applied to the rows by spread_row_to_solution", minimum=9)
    from .. import mustwrite as MW
    flds = MW.all_fields(P, "defaults")
    if len(flds) < 9:
        R.anchor_missing(RULE, "class defaults: only %d members found" % len(flds))
        return
    f = P.one("Phreeqc::spread_row_to_solution")
    reads = set(y[2] for y in T.walk(f["body"]) if y[0] == "Member" and y[2].startswith("defaults::"))
    for fl in flds:
        if fl["q"] in reads:
            R.ok(RULE, fl["name"], "applied")
        else:
            R.violation(RULE, fl["name"], "the block-level default `%s` of SOLUTION_SPREAD is parsed (read_solution_spread) but never applied to the rows: a spread row differs from the "
                        "SOLUTION block that states the same option" % fl["name"], file=f["file"], line=f["line"], function=f["q"])


def unitfamilies_rule(P, R):
    """"Equivalent descriptions ... units": concentrations are given per kg solution (`/kgs`) or per litre (`/l`) in grams, moles or
    equivalents.  In convert_units every test that classifies a unit string by its amount unit treats the two bases alike: a condition
    that names `<amount>/l` also names `<amount>/kgs` and vice versa (strstr literals of one if-condition, closed under swapping the
    base).  A missing sibling drops that family from the solute-mass sum or from the gram-to-mole conversion."""
    RULE = "C15.unitfamilies"
    R.rule(RULE, "convert_units: every condition that names a unit family per litre names it per kg solution too (and vice versa)", minimum=2)
    f = P.one("Phreeqc::convert_units")
    where = dict(file=f["file"], function=f["q"])
    n = 0
    for x in T.walk(f["body"]):
        if x[0] != "If":
            continue
        lits = [str(T.strip_casts(c[4][1])[3]).strip('"') for c in T.calls(x[2]) if T.callee_name(c) == "strstr" and len(c[4]) == 2 and T.strip_casts(c[4][1])[0] == "Lit"]
        fam = [l for l in lits if l.endswith("/l") or l.endswith("/kgs")]
        if len(fam) < 2:
            continue
        n += 1
        inst = "cond@%d" % x[1]
        miss = []
        for l in fam:
            amt, base = l.rsplit("/", 1)
            other = amt + ("/kgs" if base == "l" else "/l")
            if other not in lits:
                miss.append((l, other))
        if miss:
            R.violation(RULE, inst, "the condition names `%s` but not `%s`: concentrations given in that unit are left out of this step (e.g. their mass does not enter the kgs -> kgw "
                        "conversion), so the same solution described per litre and per kg solution gives different molalities" % miss[0], line=x[1], **where)
        else:
            R.ok(RULE, inst, "closed under /l <-> /kgs: %s" % ", ".join(sorted(fam)))
    if n < 2:
        R.anchor_missing(RULE, "convert_units: only %d unit-family conditions found" % n)


def mixweights_rule(P, R):
    from .. import ratfun as RF
    from fractions import Fraction
    R.rule("C15.mixweights", "add_mix: the water-share weights passed to add_solution are of degree 0 in the water masses", minimum=2)
    fs = [f for f in P.fns_named("Phreeqc::add_mix")]
    f = None
    for g in fs:
        if any(y[0] == "Ref" and len(y) > 3 and y[3] == "intensive_water" for y in T.walk(g["body"])):
            f = g
    if f is None:
        R.anchor_missing("C15.mixweights", "add_mix with the water-share weight `intensive_water` not found")
        return
    where = dict(file=f["file"], function=f["q"])
    deg = {}

    def conv(n):
        n = T.strip_casts(n)
        if n[0] == "Lit":
            return RF.Rat.const(Fraction(str(n[3]).rstrip("fFlL")))
        if n[0] == "Call" and T.callee_name(n) == "Get_mass_water":
            return RF.Rat.sym("W")
        if n[0] == "Ref" and n[2] in ("local", "param"):
            return RF.Rat.sym(n[3])
        if n[0] == "Member":
            return RF.Rat.sym(T.text(n).replace(" ", ""))
        if n[0] == "Bin" and n[2] in ("+", "-", "*", "/"):
            a, b = conv(n[3]), conv(n[4])
            return a + b if n[2] == "+" else a - b if n[2] == "-" else a * b if n[2] == "*" else a / b
        if n[0] == "Un" and n[2] == "-":
            return -conv(n[3])
        raise RF.NotRational(T.text(n)[:40])

    def degree(r):
        sc = r.scaled("W", 2) if "W" in r.symbols() else r
        for nm, d in deg.items():
            if d and nm in sc.symbols():
                sc = sc.scaled(nm, 2 ** d)
        for k in (0, 1, -1, 2):
            if sc.same(r * RF.Rat.const(Fraction(2) ** k)):
                return k
        return None
    # two passes: accumulators and plain definitions first, then the weights
    assigns = [x for x in T.walk(f["body"]) if x[0] == "Bin" and x[2] in ("=", "+=") and T.strip_casts(x[3])[0] == "Ref"]
    for _ in range(3):
        for x in assigns:
            nm = T.strip_casts(x[3])[3]
            if nm == "intensive_water":
                continue
            try:
                r = conv(x[4])
            except RF.NotRational:
                continue
            if not r.symbols():
                continue            # initialisation with a constant
            d = degree(r)
            if d is not None:
                deg[nm] = d
    n = 0
    for x in assigns:
        if T.strip_casts(x[3])[3] != "intensive_water":
            continue
        try:
            r = conv(x[4])
        except RF.NotRational:
            continue
        if not r.symbols():
            continue
        n += 1
        d = degree(r)
        inst = "intensive_water@%d" % x[1]
        if d == 0:
            R.ok("C15.mixweights", inst, "degree 0 in the water masses: %s" % T.text(x[4])[:50])
        else:
            R.violation("C15.mixweights", inst, "`intensive_water = %s` has degree %s in the water masses of the mixed solutions: the weights no longer sum to one when the solutions hold "
                        "other than 1 kg of water, so temperature, pressure and the starting estimates of a MIX scale with the water mass" % (T.text(x[4])[:60], d), line=x[1], **where)
    if n < 2:
        R.anchor_missing("C15.mixweights", "add_mix: only %d assignments of the water-share weight found" % n)


def run(P, R, tier):
    mixweights_rule(P, R)
    mixsiblings_rule(P, R)
    gfwcache_rule(P, R)
    isoweights_rule(P, R)
    xstate_rule(P, R)
    dlhomog_rule(P, R)
    addmembers_rule(P, R)
    unitfamilies_rule(P, R)
    spreaddefaults_rule(P, R)
    gfw_rule(P, R)
    addsol_rule(P, R)
    addmul_rule(P, R)
    scale_rule(P, R)
    R.undecided += ["unit conversion and density iteration (numerical)", "scaling of extensive amounts, mixing order, repeated definitions (pairs of runs)"]
    R.rule("C15.compare", "every qsort comparison callback applies the same accessor to both operands and returns mirrored signs", minimum=25)
    qs = comparators(P, ("qsort", "sort", "stable_sort"))
    if len(qs) < 10:
        R.anchor_missing("C15.compare", "fewer than 10 qsort comparators found (%d)" % len(qs))
        return
    for q in sorted(qs):
        fs = P.fns_named(q)
        if len(fs) != 1 or len(fs[0]["pnames"]) < 2:
            R.anchor_missing("C15.compare", "comparator %s not found" % q)
            continue
        f = fs[0]
        nm = q.split("::")[-1]
        where = dict(file=f["file"], function=f["q"])
        rt = Roots(f)
        # (1) derived locals defined alike
        seen = set()
        for a, tag in sorted(rt.subst.items()):
            if tag in seen:
                continue
            seen.add(tag)
            mates = [n for n, t_ in rt.subst.items() if t_ == tag]
            if len(mates) != 2 or mates[0] in rt.p or mates[1] in rt.p:
                continue
            d0 = sorted(str(rt.sh(d)) for d in rt.defs.get(mates[0], []))
            d1 = sorted(str(rt.sh(d)) for d in rt.defs.get(mates[1], []))
            inst = "%s:%s~%s" % (nm, mates[0], mates[1])
            if d0 == d1:
                R.ok("C15.compare", inst, "derived alike from their operands")
            else:
                R.violation("C15.compare", inst, "`%s` and `%s` are derived from the two operands by different expressions: the comparator reads different keys from its "
                            "two arguments, so the sorted order depends on the input order" % (mates[0], mates[1]), line=f["line"], **where)
        # (2) cross comparisons use the same accessor
        ncross = 0
        for x in T.walk(f["body"]):
            sides = None
            if x[0] == "Bin" and x[2] in REL:
                sides = (x[3], x[4])
            elif x[0] == "Call" and T.callee_name(x) in CMPFN and len(x[4]) >= 2:
                sides = (x[4][0], x[4][1])
            if sides is None:
                continue
            r0, r1 = rt.of(sides[0]), rt.of(sides[1])
            if len(r0) == 1 and len(r1) == 1 and r0 != r1:
                ncross += 1
                inst = "%s:cmp@%d" % (nm, x[1])
                if rt.sh(sides[0]) == rt.sh(sides[1]):
                    R.ok("C15.compare", inst, "same accessor on both operands: %s" % T.text(sides[0])[:50])
                else:
                    R.violation("C15.compare", inst, "compares `%s` of one operand with `%s` of the other: not the same key" % (T.text(sides[0])[:50], T.text(sides[1])[:50]),
                                line=x[1], **where)
        if ncross == 0:
            R.anchor_missing("C15.compare", "%s: no comparison relating the two operands found" % nm)
        # (3) mirrored returns
        tests = []
        for x in T.walk(f["body"]):
            if x[0] != "If":
                continue
            v = ret_value(x[3])
            if v is None:
                continue
            c = T.strip_casts(x[2])
            r = rt.of(c)
            if c[0] == "Bin" and c[2] in ("<", ">", "<=", ">=") and len(rt.of(c[3])) == 1 and len(rt.of(c[4])) == 1 and rt.of(c[3]) != rt.of(c[4]):
                first = next(iter(rt.of(c[3])))
                op = c[2] if first == 1 else REL[c[2]]
                tests.append(("cross", str(rt.sh(c[3])), op, v, x[1]))
            elif len(r) == 1:
                tests.append(("one", str(rt.sh(c)), next(iter(r)), v, x[1]))
        for t_ in tests:
            inst = "%s:return@%d" % (nm, t_[4])
            if t_[0] == "cross":
                mate = [u for u in tests if u[0] == "cross" and u[1] == t_[1] and u[2] == REL[t_[2]]]
                if t_[3] == 0:
                    continue
                if mate and all(u[3] == -t_[3] for u in mate):
                    R.ok("C15.compare", inst, "mirrored by the test at line %d" % mate[0][4])
                elif mate:
                    R.violation("C15.compare", inst, "`%s` returns %d and the reversed test at line %d returns %d: both directions get the same sign" % (t_[2], t_[3], mate[0][4], mate[0][3]),
                                line=t_[4], **where)
                else:
                    # a chain ending in `else return ...` / a final return: accept when the function's remaining returns are literals of the other sign or 0
                    R.ok("C15.compare", inst, "single directed test (remaining paths return through the tail)")
            else:
                mate = [u for u in tests if u[0] == "one" and u[1] == t_[1] and u[2] != t_[2]]
                if not mate:
                    R.violation("C15.compare", inst, "the one-sided test on operand %d (return %d) has no mirror on the other operand" % (t_[2], t_[3]), line=t_[4], **where)
                elif all(u[3] == -t_[3] for u in mate):
                    R.ok("C15.compare", inst, "mirrored by the test at line %d" % mate[0][4])
                else:
                    R.violation("C15.compare", inst, "the one-sided tests on the two operands return %d and %d: not mirrored" % (t_[3], mate[0][3]), line=t_[4], **where)

    # ------------------------------------------------------------------ search key = sort key
    R.rule("C15.search", "lists searched with bsearch are searched by the key (accessor and comparison function) they are sorted by", minimum=2)
    bs = comparators(P, ("bsearch",))
    n = 0
    for q in sorted(bs):
        nm = q.split("::")[-1]
        if not nm.endswith("_compare_string"):
            continue
        sortq = q[:-len("_string")]
        if sortq not in qs:
            continue
        fb, fsrt = P.one(q), P.one(sortq)
        cb = [c for c in T.calls(fb["body"]) if T.callee_name(c) in CMPFN]
        cs = [c for c in T.calls(fsrt["body"]) if T.callee_name(c) in CMPFN]
        if len(cb) != 1 or len(cs) != 1:
            R.anchor_missing("C15.search", "%s / %s: expected one string comparison each" % (nm, sortq.split("::")[-1]))
            continue
        n += 1
        rb, rs = Roots(fb), Roots(fsrt)
        # element side of the search comparator = the side derived from parameter 2
        eb = [a for a in cb[0][4][:2] if rb.of(a) == {2}]
        es = [a for a in cs[0][4][:2] if rs.of(a) == {2}]
        fam = lambda nme: "nocase" if "nocase" in nme or "case" in nme else "case"
        okk = eb and es and SH.shape(eb[0], {k: "#" for k in rb.root}) == SH.shape(es[0], {k: "#" for k in rs.root}) and fam(T.callee_name(cb[0])) == fam(T.callee_name(cs[0]))
        if okk:
            R.ok("C15.search", nm, "searches %s with %s, sorted by the same key" % (T.text(eb[0])[:40], T.callee_name(cb[0])))
        else:
            R.violation("C15.search", nm, "the list is sorted by %s(%s) but searched by %s(%s): look-ups miss entries depending on the order of the input"
                        % (T.callee_name(cs[0]), T.text(es[0])[:40] if es else "?", T.callee_name(cb[0]), T.text(eb[0])[:40] if eb else "?"),
                        file=fb["file"], line=fb["line"], function=fb["q"])
    if n < 2:
        R.anchor_missing("C15.search", "only %d sort/search comparator pairs found" % n)


def mixsiblings_rule(P, R):
    """add_mix computes two parallel weights per mixed solution - `intensive` (share of the mixing fractions) and the water-weighted
    one that is actually passed to add_solution for temperature, pressure, pH, pe ... - and renormalises them when some fractions
    are negative (positive components share 1, negative ones get 0).  Every block that assigns one of the two must assign the other:
    a block that resets only `intensive` leaves the passed weight at its un-renormalised value, the weights no longer sum to one and
    a mixture of solutions of equal temperature gets another temperature (equivalent descriptions: 1.0 * A - 0.1 * A' vs 0.9 * A)."""
    RULE = "C15.mixsiblings"
    R.rule(RULE, "add_mix: every block that assigns the fraction-share weight also assigns the weight actually passed to add_solution", minimum=3)
    f = None
    for g in P.fns_named("Phreeqc::add_mix"):
        if any(y[0] == "Ref" and len(y) > 3 and y[3] == "intensive_water" for y in T.walk(g["body"])):
            f = g
    if f is None:
        R.anchor_missing(RULE, "add_mix with the water-share weight not found")
        return
    calls = [c for c in T.calls(f["body"]) if T.callee_name(c) == "add_solution" and len(c[4]) == 3]
    if len(calls) != 1:
        R.anchor_missing(RULE, "add_mix: %d add_solution calls" % len(calls))
        return
    w = T.strip_casts(calls[0][4][2])
    if not (T.is_node(w) and w[0] == "Ref"):
        R.anchor_missing(RULE, "add_mix: weight argument of add_solution is not a variable")
        return
    passed = w[3]
    sibling = "intensive" if passed != "intensive" else None
    if sibling is None:
        R.ok(RULE, "add_mix:single", "only one weight is computed and passed")
        return

    def assigns(st, name):
        if not (T.is_node(st) and st[0] == "Bin"):
            return False
        for y in T.walk(st):        # `a = b = 0;` assigns both
            if y[0] == "Bin" and y[2] == "=" and T.is_node(T.strip_casts(y[3])) and T.strip_casts(y[3])[0] == "Ref" and T.strip_casts(y[3])[3] == name:
                return True
        return False
    n = 0
    for comp in T.walk(f["body"]):
        if comp[0] != "Compound":
            continue
        a = [st for st in comp[2] if assigns(st, sibling)]
        b = [st for st in comp[2] if assigns(st, passed)]
        if not a and not b:
            continue
        n += 1
        inst = "add_mix:block@%d" % comp[1]
        if a and b:
            R.ok(RULE, inst, "%s and %s assigned together" % (sibling, passed))
        elif a:
            R.violation(RULE, inst, "this block assigns `%s` (line %d) but not `%s`, the weight that is passed to add_solution: the passed weights of the mixed solutions no longer "
                        "sum to one (temperature, pressure and the starting estimates of the mixture are wrong)" % (sibling, a[0][1], passed), file=f["file"], line=a[0][1], function=f["q"])
        else:
            R.ok(RULE, inst, "%s assigned (the unused sibling is not)" % passed)
    if n < 3:
        R.anchor_missing(RULE, "add_mix: only %d blocks assign the weights" % n)


def gfwcache_rule(P, R):
    """"Expressing concentrations in different supported units": mass units are converted with the formula weight of the `as` formula (or of
    the element), which compute_gfw caches per formula string in gfw_map.  The cached weights are sums of element::gfw; the one function
    that assigns element weights from input, read_master_species, must empty the cache on every path, otherwise `Ca 40.078 mg/kgw` after a
    SOLUTION_MASTER_SPECIES block that changes the weight of Ca is converted with the old weight while `gfw 40.078` uses the new one."""
    RULE = "C15.gfwcache"
    R.rule(RULE, "every function that assigns element::gfw from input empties the formula-weight cache gfw_map on every path", minimum=1)
    users = [g for g in P.functions.values() if any(y[0] == "Member" and y[2] == "Phreeqc::gfw_map" for y in T.walk(g["body"]))]
    if not any(g["q"] == "Phreeqc::compute_gfw" for g in users):
        R.anchor_missing(RULE, "compute_gfw no longer caches in gfw_map")
        return
    n = 0
    for k, g in sorted(P.functions.items(), key=lambda kv: kv[1]["q"]):
        if not g["q"].startswith("Phreeqc::read_"):
            continue
        # weights taken from the input text: scanned (sscanf(&elt->gfw)) or assigned from a non-literal; `gfw = 0.0` of an exchange master is a constant
        sets = [line for t, how, line, w in T.writes(g["body"]) if T.access_path(t)[1][-1:] == [("f", "element::gfw")] and (
            how == "addr" or (how == "=" and T.lit_value(T.strip_casts(w[4])) is None and not (T.is_node(T.strip_casts(w[4])) and T.strip_casts(w[4])[0] == "Lit")))]
        if not sets:
            continue
        n += 1
        cfg = T.CFG(g)
        dom = cfg.dominators()
        clears = [nd["id"] for nd in cfg.nodes if T.is_node(nd["n"]) and any(
            T.callee_name(c) == "clear" and T.call_obj(c) is not None and any(y[0] == "Member" and y[2] == "Phreeqc::gfw_map" for y in T.walk(T.call_obj(c))) for c in T.calls(nd["n"]))]
        inst = g["q"].split("::")[-1]
        if any(c in dom.get(cfg.exit, ()) for c in clears):
            R.ok(RULE, inst, "gfw_map.clear() on every path")
        else:
            R.violation(RULE, inst, "%s assigns element weights (line %d) but does not empty gfw_map on every path: formula weights cached before keep the old atomic weights, so a "
                        "concentration in mass units and the same concentration with an explicit gfw give different molalities" % (g["q"], sets[0]), file=g["file"], line=sets[0], function=g["q"])
    if n < 1:
        R.anchor_missing(RULE, "no reader assigns element::gfw")


def isoweights_rule(P, R):
    """"Mixing a solution with itself ... gives the same results": cxxSolution::add combines intensive properties as f1 * here + f2 * added.
    Add_isotopes does the same for the isotope ratios: for each intensive isotope member (ratio, ratio_uncertainty) the value stored is
    built in a local from Get_<m>() of the entry already there and Get_<m>() of the added entry; with both set to 1 the result must be 1
    (the weights sum to one) - evaluated symbolically on the statements of the function (engine/ratfun.py)."""
    from .. import ratfun as RF
    from fractions import Fraction
    RULE = "C15.isoweights"
    R.rule(RULE, "Add_isotopes: the weights of the ratio already accumulated and of the added ratio sum to one", minimum=2)
    f = P.one("cxxSolution::Add_isotopes")
    wname = f["pnames"][1] if len(f.get("pnames", [])) > 1 else "intensive"

    def conv(n, env):
        n = T.strip_casts(n)
        if n[0] == "Paren":
            return conv(n[2], env)
        if n[0] == "Lit":
            return RF.Rat.const(Fraction(str(n[3]).rstrip("fFlL")))
        if n[0] == "Ref" and n[2] == "local" and n[3] in env:
            return env[n[3]]
        if n[0] == "Ref" and n[2] == "param":
            return RF.Rat.sym(n[3])
        if n[0] == "Call" and (T.callee_name(n) or "").startswith("Get_"):
            return RF.Rat.const(Fraction(1))          # both ratios set to 1
        if n[0] == "Bin" and n[2] in ("+", "-", "*", "/"):
            a, b = conv(n[3], env), conv(n[4], env)
            return a + b if n[2] == "+" else a - b if n[2] == "-" else a * b if n[2] == "*" else a / b
        raise RF.NotRational(T.text(n)[:40])
    n_ = 0
    for comp in T.walk(f["body"]):
        if comp[0] != "Compound":
            continue
        env = {}
        for st in comp[2]:
            if not T.is_node(st):
                continue
            try:
                if st[0] == "Bin" and st[2] in ("=", "+=") and T.is_node(T.strip_casts(st[3])) and T.strip_casts(st[3])[0] == "Ref" and T.strip_casts(st[3])[2] == "local":
                    v = T.strip_casts(st[3])[3]
                    val = conv(st[4], env)
                    env[v] = val if st[2] == "=" else env[v] + val
                elif st[0] == "Call" and T.callee_name(st) in ("Set_ratio", "Set_ratio_uncertainty") and st[4]:
                    n_ += 1
                    val = conv(st[4][0], env)
                    inst = "%s@%d" % (T.callee_name(st)[4:], st[1])
                    if val.same(RF.Rat.const(Fraction(1))):
                        R.ok(RULE, inst, "weights sum to one")
                    else:
                        R.violation(RULE, inst, "with both ratios equal to 1 Add_isotopes stores a value that is not 1 (the accumulated ratio is not weighted with 1 - %s): mixing identical "
                                    "solutions changes their isotope ratio" % wname, file=f["file"], line=st[1], function=f["q"])
            except (RF.NotRational, KeyError):
                continue
    if n_ < 2:
        R.anchor_missing(RULE, "Add_isotopes: only %d intensive isotope members evaluated" % n_)


def xstate_rule(P, R):
    """"Renumbering entities ... gives the same results": what xsolution_save stores with a solution must come from the solutions the
    calculation was made from.  Every engine member `<name>_x` that xsolution_save reads is calculation state: xsolution_zero, which
    starts every combination of solutions, must reset it, and a member that the solver does not recompute (a container such as
    isotopes_x) must be filled by add_solution.  A member that only initial_solutions assigns holds the data of the initial solution
    calculated last - the saved result then depends on the order and numbering of the definitions."""
    RULE = "C15.xstate"
    R.rule(RULE, "every <name>_x member stored by xsolution_save is reset by xsolution_zero; containers among them are filled by add_solution", minimum=10)
    sv, zero, add = P.one("Phreeqc::xsolution_save"), P.one("Phreeqc::xsolution_zero"), P.one("Phreeqc::add_solution")
    mems = []
    for x in T.walk(sv["body"]):
        if x[0] == "Member" and T.is_node(x[3]) and x[3][0] == "This" and x[2].endswith("_x") and x[2] not in [m for m, _ in mems]:
            mems.append((x[2], str(x[4])))

    def written(fn, m):
        for t, how, line, w in T.writes(fn["body"]):
            root, steps = T.access_path(t)
            if steps and steps[0] == ("f", m) and how != "ref":
                return line
        return None
    for m, ty in mems:
        inst = m.split("::")[-1]
        z = written(zero, m)
        if z is None:
            # the other per-calculation starters: prep() takes the description of the solution in use, free_model_allocs() empties the
            # species list that the next model build refills
            alt = [(q, written(P.one(q), m)) for q in ("Phreeqc::prep", "Phreeqc::free_model_allocs")]
            alt = [(q, l) for q, l in alt if l is not None]
            if alt:
                R.ok(RULE, inst, "set for every calculation by %s (line %d)" % alt[0])
                continue
            R.violation(RULE, inst, "%s is stored by xsolution_save but not reset by xsolution_zero: a saved solution carries the value of an earlier calculation" % m,
                        file=zero["file"], line=zero["line"], function=zero["q"])
            continue
        if "std::map" in ty or "std::vector" in ty:
            a = written(add, m)
            if a is None:
                R.violation(RULE, inst, "%s (%s) is stored by xsolution_save and never filled by add_solution: the saved solution does not carry the data of the solutions it was made "
                            "from" % (m, ty[:40]), file=add["file"], line=add["line"], function=add["q"])
                continue
            R.ok(RULE, inst, "reset (line %d) and filled by add_solution (line %d)" % (z, a))
        else:
            R.ok(RULE, inst, "reset by xsolution_zero (line %d)" % z)


def dlhomog_rule(P, R):
    """"scaling the water mass and all extensive amounts by a common factor ... gives the same results": in molalities() the diffuse-layer
    terms of every species are built from extensive quantities (moles of the species, mass of water in the diffuse layer, mass of free
    water) and intensive ones (g, dg, erm_ddl).  Scaling every extensive symbol by 2 must leave the intensive sum total_g unchanged
    (degree 0) and double the mole amounts g_moles and dh2o_moles (degree 1) - checked as rational-function identities.  A water mass
    that is not divided by the free-water mass makes total_g (which feeds the mole balances and the Jacobian) depend on the system size."""
    from .. import ratfun as RF
    RULE = "C15.dlhomog"
    R.rule(RULE, "molalities(): diffuse-layer terms are homogeneous in the extensive quantities (total_g degree 0, g_moles / dh2o_moles degree 1)", minimum=3)
    f = P.one("Phreeqc::molalities")

    def sym(n):
        return "".join(T.text(n, -40).split())

    def rat(n):
        return RF.from_tree(n, sym, opaque_calls=("Get_g", "Get_dg", "Get_mass_water", "Get_specific_area", "Get_grams"))
    EXT = ("moles", "Get_mass_water()", "mass_water_aq_x", "mass_water_bulk_x", "Get_grams()")

    def degree(r):
        q = r
        for s_ in sorted(r.symbols()):
            if any(s_.endswith(e) or e in s_ for e in EXT):
                q = q.scaled(s_, 2)
        for d in (0, 1, 2):
            if q.same(r * RF.Rat.const(2 ** d)):
                return d
        return None
    items = []
    for x in T.walk(f["body"]):
        if x[0] == "Bin" and x[2] == "+=" and T.text(T.strip_casts(x[3])) == "total_g":
            items.append(("total_g", 0, x[1], x[4]))
        if x[0] == "Call" and T.callee_name(x) in ("Set_g_moles", "Set_dh2o_moles") and x[4]:
            items.append((T.callee_name(x)[4:], 1, x[1], x[4][0]))
    if len(items) < 3:
        R.anchor_missing(RULE, "molalities(): only %d diffuse-layer terms found" % len(items))
        return
    for name, want, line, e in items:
        inst = "%s@%d" % (name, line - f["line"])
        try:
            d = degree(rat(e))
        except RF.NotRational as ex:
            R.anchor_missing(RULE, "%s: not rational (%s)" % (inst, ex))
            continue
        if d == want:
            R.ok(RULE, inst, "homogeneous of degree %d" % d)
        else:
            R.violation(RULE, inst, "`%s` is %s in the extensive quantities, degree %d is required: the diffuse-layer term depends on the size of the system (water mass), "
                        "results change when everything is scaled by a common factor" % (T.text(e)[:70], "not homogeneous" if d is None else "of degree %d" % d, want),
                        file=f["file"], line=line, function=f["q"])


ADDMEMBERS_EXEMPT = {
    # class: {member: why add() need not carry it}
    "cxxSurface": {"new_def": "a mixture is a calculated entity: the constructor's false stands", "tidied": "set by tidy_surface for the result",
                   "totals": "recomputed from the components (totalize) after the mix"},
    "cxxExchange": {"new_def": "as for surfaces", "totals": "recomputed (totalize)",
                    "solution_equilibria": "a mixture is not to be equilibrated with a solution again: the constructor's false stands",
                    "n_solution": "goes with solution_equilibria"},
    "cxxSSassemblage": {"new_def": "as for surfaces", "totals": "recomputed (totalize)"},
    "cxxPPassemblage": {"new_def": "as for surfaces", "assemblage_totals": "recomputed (totalize)"},
    "cxxKinetics": {"totals": "recomputed"},
}


def addmembers_rule(P, R):
    """"Mixing a solution with itself ... gives the same results" - for reactants: a *_MIX of 1.0 x one entity is that entity.  The add()
    function of each container class builds the mixture member by member, so a data member it never mentions keeps the default of an
    empty object: cxxSurface::add left out calc_DDL_viscosity and Donnan_factors, and SURFACE_MIX of one `-donnan ... viscosity calc`
    surface had another diffuse-layer composition.  Every non-static data member of the class must be referenced in add() or be listed,
    with the reason, among the members that are recomputed or deliberately reset."""
    RULE = "C15.addmembers"
    R.rule(RULE, "container classes: add() mentions every data member (or the member is recomputed / deliberately reset)", minimum=40)
    n = 0
    for cls, exempt in sorted(ADDMEMBERS_EXEMPT.items()):
        rec = P.records.get(cls)
        fs = [g for g in P.fns_named(cls + "::add") if g.get("body")]
        if rec is None or not fs:
            R.anchor_missing(RULE, "%s::add not found" % cls)
            continue
        seen = set()
        for g in fs:
            for x in T.walk(g["body"]):
                if x[0] == "Member" and x[2].startswith(cls + "::") and T.is_node(x[3]) and x[3][0] == "This":
                    seen.add(x[2].split("::")[-1])
        names = [fld["name"] for fld in rec["fields"] if not fld.get("static")]
        for nm in exempt:
            if nm not in names:
                R.anchor_missing(RULE, "%s: exempt member %s no longer exists" % (cls, nm))
        for nm in names:
            n += 1
            inst = "%s::%s" % (cls, nm)
            if nm in seen:
                R.ok(RULE, inst, "handled in add()")
            elif nm in exempt:
                R.ok(RULE, inst, "not carried: " + exempt[nm])
            else:
                R.violation(RULE, inst, "%s::add never mentions the data member `%s`: a mixture (also of 1.0 x one entity) has the default value instead of the value of its "
                            "parts" % (cls, nm), file=fs[0]["file"], line=fs[0]["line"], function=fs[0]["q"])
    if n < 40:
        R.anchor_missing(RULE, "only %d data members examined" % n)
