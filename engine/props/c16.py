"""C16 – activity-coefficient models follow their defining equations.

Only the ion-association clause has parts whose truth is in the shape of the code; those parts are decided:
  C16.cases    exhaustiveness: every model number that any code assigns to species::gflag (readers of -gamma, -llnl_gamma,
               -co2_llnl_gamma, -activity_water, the defaults for charged / uncharged species, e-, H2O, exchange and surface
               species) has a case in every `switch (...->gflag)` (gammas, gammas_pz, gammas_sit): a species with an
               unhandled model number keeps whatever log gamma it had
  C16.lg       every case of Phreeqc::gammas assigns species::lg on every path that does not end in a STOP error
  C16.param    reader/writer agreement on the model parameters: the species fields among {dha, dhb} that case v of gammas
               reads are exactly fields that the code assigning gflag = v stores (the option's sscanf targets or the default
               assignments next to it); a parameter parsed into the sibling field is read as 0 by the model
  C16.formula  the right-hand side of the lg assignment of the closed-form cases equals the defining equation of the model,
               compared as exact rational functions in (A, B, z, sqrt(I), a0, b, bdot) after substituting I = sqrt(I)^2
               (the function's own `muhalf = sqrt(mu)`): Davies  -A z^2 (sqrt(I)/(1+sqrt(I)) - 0.3 I),
               extended/WATEQ Debye-Hueckel  -A z^2 sqrt(I)/(1 + a0 B sqrt(I)) + b I,  uncharged  b I,
               LLNL B-dot  -A z^2 sqrt(I)/(1 + a0 B sqrt(I)) + bdot I,  "always 1"  0.
               The exchange-species variants (case 4 with exch_gflag 1, 2, 7) must be coef times the same equation plus the
               (opaque) equivalent-fraction term.  Algebraically equivalent rewrites compare equal; a changed coefficient, sign or operand does not.
  C16.water    Pitzer and SIT: "water activity equals exp(-M_w phi sum m)" as far as it is closed-form code: the osmotic coefficient
               is 1 + 2 OSMOT/OSUM (Pitzer) resp. 1 + OSMOT ln10/OSUM (SIT), the water activity is exp(-OSUM COSMOT/55.50837), and
               OSUM - the total solute molality - is accumulated as + M[i] over the list that the model's make_lists routine
               fills with EVERY solute present (the push that is not conditional on the charge class), not over a sub-list
  C16.llnlconst  in LLNL mode (calc_dielectrics computes nothing) the constants a, b of the Davies / WATEQ cases are the interpolated LLNL
               constants, the values the BASIC functions DH_A / DH_B report
  C16.lambdamult  Pitzer neutral-species lambda terms: on every path of pitzer_tidy the multiplicities satisfy ln_coef[0] + ln_coef[1] =
               4 os_coef (Euler's relation for a Gibbs-energy term of degree 2, with the factor 2 / Sum m of pitzer())
  C16.etheta   Pitzer unsymmetrical mixing: in ETHETAS  E-theta = zj zk (J(xjk) - J(xjj)/2 - J(xkk)/2) / (4 I)  and
               E-theta' = zj zk (J'(xjk) - J'(xjj)/2 - J'(xkk)/2) / (8 I^2) - E-theta / I  with x_ab = 6 A0 sqrt(I) za zb, as exact
               rational identities over the opaque integrals J, J'; each (J, J') pair is produced by the call receiving its own x
  C16.present  Pitzer: pitzer_make_lists may list a species that is not in the current model (the MacInnes reference ion is listed
               under `ICON == TRUE && i == IC`), so every place that loads a molality M[i] from species::lm tests species::in:
               otherwise a solution without that ion inherits a phantom molality from an earlier calculation
Not decided: the values of A, B and the ionic strength, the exchange and surface conventions (cases 4 and 6), Pitzer and SIT
sums, Gibbs-Duhem consistency, water activity (all numerical).
"""
from .. import tree as T
from .. import rawio
from .. import ratfun as RF

PROP = "C16"
EXPLANATION = __doc__

REFERENCE = {
    0: ("uncharged: b*I", "dhb*muhalf^2"),
    1: ("Davies", "-a*z^2*(muhalf/(1+muhalf) - 0.3*muhalf^2)"),
    2: ("extended / WATEQ Debye-Hueckel", "-a*z^2*muhalf/(1 + dha*b*muhalf) + dhb*muhalf^2"),
    3: ("always 1", "0"),
    5: ("always 1", "0"),
    7: ("LLNL B-dot", "-a_llnl*z^2*muhalf/(1 + dha*b_llnl*muhalf) + bdot_llnl*muhalf^2"),
}
PARAMS = ("dha", "dhb")


def is_gflag(n):
    n = T.strip_casts(n)
    return T.is_node(n) and n[0] == "Member" and n[2] == "species::gflag"


def lg_writes(n):
    return [x for x in T.walk(n) if x[0] == "Bin" and x[2] == "=" and T.strip_casts(x[3])[0] == "Member" and T.strip_casts(x[3])[2] == "species::lg"]


def is_stop(n):
    return any(T.callee_name(c) == "error_msg" and len(c[4]) == 2 and T.text(c[4][1]) in ("STOP", "1") for c in T.calls(n))


def always_lg(stmts):
    """does every path through the statement list assign species::lg or end in a STOP error?"""
    for s in stmts:
        if not T.is_node(s):
            continue
        if s[0] == "Bin" and lg_writes(s) and s in lg_writes(s):
            return True
        if s[0] == "Call" and is_stop(s):
            return True
        if s[0] == "Compound" and always_lg(s[2]):
            return True
        if s[0] == "If" and T.is_node(s[4]):
            th = s[3][2] if s[3][0] == "Compound" else [s[3]]
            el = s[4][2] if s[4][0] == "Compound" else [s[4]]
            if always_lg(th) and always_lg(el):
                return True
        if s[0] in ("Break", "Return", "Continue"):
            return False
    return False


def symbol_of(n):
    if n[0] == "Member":
        return n[2].split("::")[-1]
    if n[0] == "Ref" and n[2] in ("local", "param"):
        return n[3]
    return None


def llnlconst_rule(P, R):
    """"evaluated at the reported ... Debye-Hueckel constants": with LLNL_AQUEOUS_MODEL_PARAMETERS calc_dielectrics() leaves DH_A / DH_B
    uncomputed (zero) and the BASIC functions DH_A / DH_B report the interpolated LLNL constants a_llnl / b_llnl.  The locals a, b that
    the Davies and WATEQ cases of gammas() use must then be those constants too: the block that interpolates a_llnl / b_llnl assigns them
    to a and b."""
    RULE = "C16.llnlconst"
    R.rule(RULE, "gammas(): in LLNL mode the Davies / WATEQ constants a, b are the interpolated LLNL constants (the values DH_A / DH_B report)", minimum=2)
    g = P.one("Phreeqc::gammas")
    where = dict(file=g["file"], function=g["q"])
    blk = None
    for x in T.walk(g["body"]):
        if x[0] == "If" and any(y[0] == "Member" and y[2] == "Phreeqc::llnl_temp" for y in T.walk(x[2])) and \
                any(y[0] == "Bin" and y[2] == "=" and T.strip_casts(y[3])[0] == "Member" and T.strip_casts(y[3])[2] == "Phreeqc::a_llnl" for y in T.walk(x[3])):
            blk = x
    if blk is None:
        R.anchor_missing(RULE, "gammas(): the block that interpolates a_llnl / b_llnl not found")
        return
    for loc, mem in (("a", "Phreeqc::a_llnl"), ("b", "Phreeqc::b_llnl")):
        ok = any(y[0] == "Bin" and y[2] == "=" and T.strip_casts(y[3])[0] == "Ref" and T.strip_casts(y[3])[3] == loc and T.strip_casts(y[4])[0] == "Member" and T.strip_casts(y[4])[2] == mem
                 for y in T.walk(blk[3]))
        if ok:
            R.ok(RULE, loc, "%s = %s in LLNL mode" % (loc, mem.split("::")[-1]))
        else:
            R.violation(RULE, loc, "in LLNL mode gammas() keeps `%s` = DH_%s, which calc_dielectrics() does not compute when LLNL parameters are defined (it stays 0): the Davies / WATEQ "
                        "species of an LLNL database get log gamma = 0 while DH_%s reports %s" % (loc, loc.upper(), loc.upper(), mem.split("::")[-1]), line=blk[1], **where)


def lambdamult_rule(P, R):
    """Gibbs-Duhem for the neutral-species lambda terms of the Pitzer model.  A term  G = g lambda m_i m_j  of the excess Gibbs energy gives
    ln gamma_i += g lambda m_j (both slots, also when they address the same species) and (phi - 1) Sum m += g lambda m_i m_j; with the factor
    2 / Sum m that pitzer() applies to OSMOT this is  ln_coef[0] = ln_coef[1] = g,  os_coef = g / 2  for distinct species and, for i = j
    (G = lambda m_i^2),  ln_coef[0] + ln_coef[1] = 2,  os_coef = 1/2: on every path of pitzer_tidy's TYPE_LAMBDA block the multiplicities it
    assigns satisfy  ln_coef[0] + ln_coef[1] = 4 os_coef  (Euler's relation for a term of degree 2)."""
    RULE = "C16.lambdamult"
    R.rule(RULE, "pitzer_tidy: on every path of the TYPE_LAMBDA block ln_coef[0] + ln_coef[1] = 4 os_coef (gamma and osmotic multiplicities of one Gibbs-energy term)", minimum=2)
    f = P.one("Phreeqc::pitzer_tidy")
    where = dict(file=f["file"], function=f["q"])
    blk = None
    for x in T.walk(f["body"]):
        if x[0] == "If" and any(y[0] == "Ref" and y[2] in ("enum",) and y[3].endswith("TYPE_LAMBDA") for y in T.walk(x[2])) or \
                (x[0] == "If" and "TYPE_LAMBDA" in T.text(x[2])):
            if any(yy[0] == "Member" and yy[2] == "pitz_param::os_coef" for yy in T.walk(x[3])):
                blk = x
    if blk is None:
        # the macro may have been expanded to a literal: find the If whose body assigns both os_coef and ln_coef and compares ispec entries
        for x in T.walk(f["body"]):
            if x[0] == "If" and any(yy[0] == "Member" and yy[2] == "pitz_param::os_coef" for yy in T.walk(x[3])) \
                    and any(yy[0] == "Member" and yy[2] == "pitz_param::ln_coef" for yy in T.walk(x[3])) \
                    and any(yy[0] == "Bin" and yy[2] == "==" and T.text(yy[3]) == "i0" for yy in T.walk(x[3])):
                blk = x
    if blk is None:
        R.anchor_missing(RULE, "pitzer_tidy: the TYPE_LAMBDA block that assigns os_coef and ln_coef was not found")
        return

    def slot(n):
        n = T.strip_casts(n)
        if n[0] == "Member" and n[2] == "pitz_param::os_coef":
            return "os"
        if n[0] == "Index" and T.strip_casts(n[2])[0] == "Member" and T.strip_casts(n[2])[2] == "pitz_param::ln_coef" and T.lit_value(n[3]) is not None:
            return "ln%d" % T.lit_value(n[3])
        return None

    def paths(stmt, env):
        """all final environments of constant assignments through stmt"""
        if not T.is_node(stmt):
            return [env]
        if stmt[0] == "Compound":
            envs = [env]
            for s_ in stmt[2]:
                envs = [e2 for e in envs for e2 in paths(s_, e)]
            return envs
        if stmt[0] == "If":
            out = paths(stmt[3], dict(env, _p=env.get("_p", "") + "T"))
            out += paths(stmt[4], dict(env, _p=env.get("_p", "") + "F")) if T.is_node(stmt[4]) else [dict(env, _p=env.get("_p", "") + "F")]
            return out
        if stmt[0] == "Bin" and stmt[2] == "=" and slot(stmt[3]):
            v = T.strip_casts(stmt[4])
            if v[0] == "Lit":
                e = dict(env)
                e[slot(stmt[3])] = float(str(v[3]).rstrip("fFlL"))
                return [e]
        return [env]
    n = 0
    for e in paths(blk[3], {}):
        if not all(k in e for k in ("os", "ln0", "ln1")):
            continue
        n += 1
        inst = "path %s (os %g, ln %g %g)" % (e.get("_p", ""), e["os"], e["ln0"], e["ln1"])
        if abs(e["ln0"] + e["ln1"] - 4 * e["os"]) < 1e-12:
            R.ok(RULE, inst, "ln_coef[0] + ln_coef[1] = 4 os_coef")
        else:
            R.violation(RULE, inst, "this path of pitzer_tidy leaves os_coef = %g with ln_coef = %g, %g: the lambda term enters ln gamma with total multiplicity %g and the osmotic "
                        "coefficient with %g instead of %g - activity coefficients and osmotic coefficient no longer derive from one Gibbs-energy function"
                        % (e["os"], e["ln0"], e["ln1"], e["ln0"] + e["ln1"], 2 * e["os"], (e["ln0"] + e["ln1"]) / 2), line=blk[1], **where)
    if n < 2:
        R.anchor_missing(RULE, "only %d complete assignment paths found in the TYPE_LAMBDA block (n,n and n,n')" % n)


def etheta_rule(P, R):
    """Pitzer unsymmetrical mixing (Pitzer 1975, eqs A1-A3 as coded by Harvie/Plummer): for ions j, k of like sign and different
    charge  E-theta = zj zk / (4 I) [ J(xjk) - J(xjj)/2 - J(xkk)/2 ],  E-theta' = zj zk / (8 I^2) [ J'(xjk) - J'(xjj)/2 - J'(xkk)/2 ]
    - E-theta / I  with  x_ab = 6 A0 sqrt(I) za zb.  Decided as exact rational identities; the J / J' integrals (ETHETA_PARAMS) are
    opaque but each must be evaluated at its own argument (J_ab, J'_ab come from the call that receives x_ab)."""
    RULE = "C16.etheta"
    R.rule(RULE, "ETHETAS: E-theta and E-theta' are the defining combinations of J and J' at x_jk, x_jj, x_kk; each J pair comes from its own argument", minimum=8)
    f = P.one("Phreeqc::ETHETAS")
    where = dict(file=f["file"], function=f["q"])

    def unstar(n):
        if not T.is_node(n):
            return n
        if n[0] == "Un" and n[2] == "*" and T.strip_casts(n[3])[0] == "Ref":
            r = T.strip_casts(n[3])
            return ["Ref", n[1], "local", r[3], "double"]
        return [unstar(c) if isinstance(c, list) else c for c in n]
    REF = {"etheta": "ZZ * (JAY_XJK - JAY_XJJ / 2 - JAY_XKK / 2) / (4 * I)",
           "ethetap": "ZZ * (JPRIME_XJK - JPRIME_XJJ / 2 - JPRIME_XKK / 2) / (8 * I * I) - etheta / I",
           "ZZ": "ZJ * ZK", "XJK": "XCON * ZZ", "XJJ": "XCON * ZJ * ZJ", "XKK": "XCON * ZK * ZK", "XCON": "6 * A0 * sqrt(I)"}
    found = {}
    for x in T.walk(f["body"]):
        if x[0] == "Bin" and x[2] == "=":
            l = T.strip_casts(x[3])
            if l[0] == "Un" and l[2] == "*" and T.strip_casts(l[3])[0] == "Ref" and T.strip_casts(l[3])[3] in ("etheta", "ethetap"):
                found.setdefault(T.strip_casts(l[3])[3], []).append((x[1], x[4]))
        if x[0] == "Decl":
            for d in x[2]:
                if d[0] in REF and T.is_node(d[2]):
                    found.setdefault(d[0], []).append((x[1], d[2]))
    for name, ref in REF.items():
        w = RF.parse(ref.replace("sqrt(I)", "SQRTI"))
        cands = []
        for line, rhs in found.get(name, []):
            try:
                got = _with_sqrt_symbol(unstar(rhs), "SQRTI")
            except (RF.NotRational, ZeroDivisionError):
                continue
            if not got.symbols():
                continue            # the initial `= 0.0`
            cands.append((line, got, rhs))
        if not cands:
            R.anchor_missing(RULE, "ETHETAS: no rational definition of `%s` found (renamed?)" % name)
            continue
        for line, got, rhs in cands:
            if got.same(w):
                R.ok(RULE, name, "equals %s" % ref)
            elif RF.unknown_reference_symbols(w, f["body"], ignore=("SQRTI", "etheta")):
                R.anchor_missing(RULE, "ETHETAS: reference for `%s` names %s which no longer occur (renamed?)" % (name, RF.unknown_reference_symbols(w, f["body"], ignore=("SQRTI", "etheta"))))
            else:
                R.violation(RULE, name, "`%s = %s` is not the defining expression %s: E-theta' is no longer d(E-theta)/dI, so the activity coefficients (through F) and the "
                            "osmotic coefficient (through E-theta + I E-theta') of mixtures with unequal like-signed charges stop satisfying Gibbs-Duhem" % (name, T.text(rhs)[:120], ref),
                            line=line, **where)
    # each (J, J') pair is produced by the call that receives its own x
    n = 0
    for c in T.calls(f["body"]):
        if T.callee_name(c) != "ETHETA_PARAMS" or len(c[4]) != 3:
            continue
        a = [T.strip_casts(z) for z in c[4]]
        if not all(z[0] == "Ref" for z in a):
            continue
        n += 1
        x, j, jp = a[0][3], a[1][3], a[2][3]
        suffix = x[1:]
        if j.endswith("_X" + suffix) and jp.endswith("_X" + suffix) and j != jp:
            R.ok(RULE, "ETHETA_PARAMS(%s)" % x, "%s, %s" % (j, jp))
        else:
            R.violation(RULE, "ETHETA_PARAMS(%s)" % x, "the integrals evaluated at %s are stored in %s, %s" % (x, j, jp), line=c[1], **where)
    if n != 3:
        R.anchor_missing(RULE, "ETHETAS: expected three ETHETA_PARAMS evaluations (x_jk, x_jj, x_kk), found %d" % n)


def _with_sqrt_symbol(tree, name):
    def conv(n):
        n = T.strip_casts(n)
        if n[0] == "Call" and T.callee_name(n) == "sqrt":
            return RF.Rat.sym(name)
        if n[0] == "Lit":
            from fractions import Fraction
            return RF.Rat.const(Fraction(str(n[3]).rstrip("fFlL")))
        if n[0] in ("Ref", "Member"):
            return RF.Rat.sym(symbol_of(n))
        if n[0] == "Un" and n[2] == "-":
            return -conv(n[3])
        if n[0] == "Bin" and n[2] in "+-*/":
            a, b = conv(n[3]), conv(n[4])
            return a + b if n[2] == "+" else a - b if n[2] == "-" else a * b if n[2] == "*" else a / b
        raise RF.NotRational(T.text(n)[:40])
    return conv(tree)


def run(P, R, tier):
    llnlconst_rule(P, R)
    lambdamult_rule(P, R)
    etheta_rule(P, R)
    R.undecided += ["values of the Debye-Hueckel constants and of the ionic strength at which the formulas are evaluated",
                    "exchange and surface activity conventions (gflag 4, 6)", "Pitzer and SIT excess-energy sums, Gibbs-Duhem consistency, water activity / osmotic coefficient"]
    water_rule(P, R)
    sitpair_rule(P, R)
    slotreset_rule(P, R)
    present_rule(P, R)
    llnlbracket_rule(P, R)
    # ------------------------------------------------------------------ writers of gflag
    R.rule("C16.cases", "every activity-model number assigned to species::gflag has a case in every switch over gflag", minimum=40)
    written = {}
    sites = {}
    for key, f in sorted(P.functions.items()):
        for x in T.walk(f["body"]):
            if x[0] == "Bin" and x[2] == "=" and is_gflag(x[3]):
                v = T.lit_value(x[4])
                if v is not None:
                    written.setdefault(int(v), []).append((f["q"], x[1]))
                    sites.setdefault(int(v), []).append((f, x))
    if len(written) < 8:
        R.anchor_missing("C16.cases", "fewer than 8 distinct literal activity-model numbers are assigned to species::gflag (%s)" % sorted(written))
        return
    switches = []
    for key, f in sorted(P.functions.items()):
        for x in T.walk(f["body"]):
            if x[0] == "Switch" and is_gflag(x[2]):
                switches.append((f, x))
    if len(switches) < 5:
        R.anchor_missing("C16.cases", "expected the gflag switches of gammas, gammas_pz and gammas_sit, found %d" % len(switches))
        return
    for f, sw in switches:
        groups = rawio.switch_groups(sw)
        labels = set(l for g in groups for l in g[0])
        for v in sorted(written):
            inst = "%s@%d:case %d" % (f["q"].split("::")[-1], sw[1], v)
            if v in labels or "default" in labels:
                R.ok("C16.cases", inst, "handled")
            else:
                w = written[v][0]
                R.violation("C16.cases", inst, "activity model %d is assigned (%s line %d) but the switch over gflag in %s has no case for it: such a species keeps a stale "
                            "log activity coefficient" % (v, w[0], w[1], f["q"]), file=f["file"], line=sw[1], function=f["q"])

    # ------------------------------------------------------------------ gammas: lg assigned in every case, formulas, parameters
    g = P.one("Phreeqc::gammas")
    gsw = [sw for f, sw in switches if f["q"] == "Phreeqc::gammas"]
    if len(gsw) != 1:
        R.anchor_missing("C16.lg", "expected exactly one gflag switch in Phreeqc::gammas")
        return
    groups = rawio.switch_groups(gsw[0])
    where = dict(file=g["file"], function=g["q"])
    R.rule("C16.lg", "every case of gammas assigns species::lg on every path that does not end in a STOP error", minimum=8)
    bycase = {}
    for labels, stmts, line in groups:
        for l in labels:
            bycase[l] = (stmts, line)
    for v in sorted(k for k in bycase if k != "default"):
        stmts, line = bycase[v]
        if always_lg(stmts):
            R.ok("C16.lg", "case %s" % v, "lg assigned on every path")
        elif lg_writes(["Compound", line, stmts]) and v in (4,):
            # exchange: a nest of conventions, each of which assigns lg; checked for presence only
            R.ok("C16.lg", "case %s" % v, "lg assigned in %d places (nested exchange conventions; presence only)" % len(lg_writes(["Compound", line, stmts])))
        else:
            R.violation("C16.lg", "case %s" % v, "a path through case %s of gammas leaves species::lg unassigned: the species keeps the log gamma of an earlier iteration or model" % v,
                        line=line, **where)

    # muhalf = sqrt(mu) ties the two symbols together
    tie = any(x[0] == "Bin" and x[2] == "=" and T.strip_casts(x[3])[0] == "Ref" and T.strip_casts(x[3])[3] == "muhalf" and
              any(T.callee_name(c) == "sqrt" and T.text(c[4][0]) == "mu" for c in T.calls(x[4])) for x in T.walk(g["body"]))
    R.rule("C16.formula", "the lg assignment of each closed-form model equals its defining equation as an exact rational function", minimum=9)
    if not tie:
        R.anchor_missing("C16.formula", "gammas no longer defines muhalf = sqrt(mu)")
    else:
        for v, (name, ref) in sorted(REFERENCE.items()):
            if v not in bycase:
                R.anchor_missing("C16.formula", "case %d vanished" % v)
                continue
            stmts, line = bycase[v]
            ws = lg_writes(["Compound", line, stmts])
            want = RF.parse(ref)
            cands = []
            err = None
            for w in ws:
                try:
                    got = RF.from_tree(w[4], symbol_of).subst_pow("mu", "muhalf", 2)
                except (RF.NotRational, ZeroDivisionError) as e:
                    err = str(e)
                    continue
                cands.append((w, got))
            # in the LLNL case the uncharged branch assigns 0; the formula is the non-constant assignment
            nonconst = [(w, got) for w, got in cands if got.symbols()] or cands
            if v in (3, 5):
                nonconst = cands
            if not nonconst:
                R.anchor_missing("C16.formula", "case %d: no lg assignment that is a rational expression (%s)" % (v, err))
                continue
            bad = [(w, got) for w, got in nonconst if not got.same(want)]
            if bad and RF.unknown_reference_symbols(want, g["body"]):
                R.anchor_missing("C16.formula", "case %d: the reference formula names %s which no longer occur in gammas (renamed?)" % (v, RF.unknown_reference_symbols(want, g["body"])))
                continue
            if bad:
                w, got = bad[0]
                R.violation("C16.formula", "case %d (%s)" % (v, name), "lg = %s is not the defining equation %s of the %s model" % (T.text(w[4])[:160], ref.replace("muhalf^2", "I").replace("muhalf", "sqrt(I)"), name),
                            line=w[1], **where)
            else:
                R.ok("C16.formula", "case %d (%s)" % (v, name), "equals %s" % ref)

        # exchange species with their own -gamma / -davies / -llnl_gamma data (exch_gflag k): coef times the same model
        # equation (charge of the exchanged cation) plus the equivalent-fraction convention term, which is kept opaque
        if 4 in bycase:
            stmts, line = bycase[4]
            n_ex = 0
            for x in T.walk(["Compound", line, stmts]):
                if x[0] != "If":
                    continue
                k = None
                for y in T.walk(x[2]):
                    if y[0] == "Bin" and y[2] == "==" and T.strip_casts(y[3])[0] == "Member" and T.strip_casts(y[3])[2] == "species::exch_gflag":
                        k = T.lit_value(y[4])
                if k is None or int(k) not in REFERENCE:
                    continue
                k = int(k)
                th = x[3]
                for w in lg_writes(th):
                    try:
                        got = RF.from_tree(w[4], symbol_of, opaque_calls=("log10",)).subst_pow("mu", "muhalf", 2)
                    except (RF.NotRational, ZeroDivisionError) as e:
                        R.anchor_missing("C16.formula", "exchange model %d: lg is not a rational expression (%s)" % (k, e))
                        continue
                    opaque = [sy for sy in got.symbols() if sy.startswith("log10(")]
                    want = RF.Rat.sym("coef") * RF.parse(REFERENCE[k][1])
                    for sy in opaque:
                        want = want + RF.Rat.sym(sy)
                    n_ex += 1
                    inst = "case 4 exchange model %d (%s)" % (k, REFERENCE[k][0])
                    if len(opaque) == 1 and got.same(want):
                        R.ok("C16.formula", inst, "coef * (%s) + convention term" % REFERENCE[k][1])
                    else:
                        R.violation("C16.formula", inst, "lg = %s is not coef times the defining equation %s plus the equivalent-fraction term" % (T.text(w[4])[:200], REFERENCE[k][1]),
                                    line=w[1], **where)
            if n_ex < 3:
                R.anchor_missing("C16.formula", "exchange sub-models of case 4 (exch_gflag 1, 2, 7): found %d lg assignments" % n_ex)

    # ------------------------------------------------------------------ parameters: reader case v vs writer of gflag = v
    R.rule("C16.param", "the parameter fields a model reads are the fields stored where that model is assigned", minimum=4)
    for v in sorted(bycase, key=str):
        if v == "default" or v not in written:
            continue
        stmts, line = bycase[v]
        reads = set(x[2].split("::")[-1] for s in stmts for x in T.walk(s) if x[0] == "Member" and x[2].split("::")[-1] in PARAMS and x[2].startswith("species::"))
        if not reads:
            continue
        # every assignment site of gflag = v: fields stored in the same statement list (block) as the assignment
        for f, asg in sites[v]:
            stored = set()
            blk = enclosing_list(f["body"], asg)
            for s in blk or []:
                for x in T.walk(s):
                    if x[0] == "Bin" and x[2] in T.ASSIGN_OPS:
                        t = T.strip_casts(x[3])
                        if t[0] == "Member" and t[2].startswith("species::") and t[2].split("::")[-1] in PARAMS:
                            stored.add(t[2].split("::")[-1])
                    if x[0] == "Un" and x[2] == "&":
                        t = T.strip_casts(x[3])
                        if t[0] == "Member" and t[2].startswith("species::") and t[2].split("::")[-1] in PARAMS:
                            stored.add(t[2].split("::")[-1])
            inst = "model %s @%s:%d" % (v, f["q"].split("::")[-1], asg[1])
            if not stored:
                # a site that only switches the model (e.g. copies) keeps the parameters of the default site
                R.ok("C16.param", inst, "no parameter stored here (defaults apply)")
            elif reads <= stored:
                R.ok("C16.param", inst, "reads {%s}, stored {%s}" % (", ".join(sorted(reads)), ", ".join(sorted(stored))))
            else:
                R.violation("C16.param", inst, "model %s reads species field(s) {%s} in gammas but the code that selects it stores {%s}: the parsed parameter never reaches the model"
                            % (v, ", ".join(sorted(reads - stored)), ", ".join(sorted(stored))), file=f["file"], line=asg[1], function=f["q"])


def water_rule(P, R):
    R.rule("C16.water", "Pitzer / SIT: osmotic coefficient and water activity are the defining expressions; total molality runs over the all-solutes list", minimum=6)
    S = RF.Rat.sym
    for model, fn, mk, want_cos in (("pitzer", "Phreeqc::pitzer", "Phreeqc::pitzer_make_lists", "1 + 2*OSMOT/OSUM"), ("sit", "Phreeqc::sit", "Phreeqc::sit_make_lists", "1 + OSMOT*LN10/OSUM")):
        fs = P.fns_named(fn)
        ms = P.fns_named(mk)
        if len(fs) != 1 or len(ms) != 1:
            R.anchor_missing("C16.water", "%s / %s not found exactly once" % (fn, mk))
            continue
        f, m = fs[0], ms[0]
        where = dict(file=f["file"], function=f["q"])
        # the all-solutes list: a push_back in make_lists whose enclosing Ifs do not compare the species index / charge class,
        # in the same block as the class-specific pushes
        alls = None
        for blk in T.walk(m["body"]):
            if blk[0] != "Compound":
                continue
            direct = [s_ for s_ in blk[2] if T.is_node(s_) and s_[0] == "Call" and T.callee_name(s_) == "push_back"]
            nested = [c for s_ in blk[2] if T.is_node(s_) and s_[0] == "If" for c in T.calls(s_[3]) if T.callee_name(c) == "push_back"]
            if len(direct) == 1 and len(nested) >= 3:
                alls = T.text(direct[0][3]).split(".")[-1]
        if alls is None:
            R.anchor_missing("C16.water", "%s: the unconditional push of every present solute not found" % mk)
            continue

        def sym(n):
            if n[0] == "Member":
                nm = n[2].split("::")[-1]
                return "LN10" if nm == "LOG_10" else nm
            if n[0] == "Ref":
                return n[3]
            return None
        osum_ok = cos_ok = aw_ok = None
        for lp in T.walk(f["body"]):
            if lp[0] == "For":
                for w in T.walk(lp[5]):
                    if w[0] == "Bin" and w[2] in ("=", "+=") and T.text(w[3]) == "OSUM":
                        dom = [y[2].split("::")[-1] for y in T.walk(lp[3]) if y[0] == "Member"] if T.is_node(lp[3]) else []
                        r = T.strip_casts(w[4])
                        acc = (w[2] == "+=" and r[0] in ("Index", "Call")) or (w[2] == "=" and r[0] == "Bin" and r[2] == "+" and T.text(r[3]) == "OSUM")
                        osum_ok = (dom, acc, w[1])
        for w in T.walk(f["body"]):
            if w[0] == "Bin" and w[2] == "=" and T.text(w[3]) == "COSMOT":
                try:
                    cos_ok = (RF.from_tree(w[4], sym).same(RF.parse(want_cos)), w[1], T.text(w[4]))
                except RF.NotRational:
                    cos_ok = (False, w[1], T.text(w[4]))
            if w[0] == "Bin" and w[2] == "=" and T.text(w[3]).endswith("AW"):
                r = T.strip_casts(w[4])
                if r[0] == "Call" and T.callee_name(r) == "exp":
                    try:
                        aw_ok = (RF.from_tree(r[4][0], sym).same(RF.parse("0 - OSUM*COSMOT/55.50837")), w[1], T.text(w[4]))
                    except RF.NotRational:
                        aw_ok = (False, w[1], T.text(w[4]))
        if osum_ok is None or cos_ok is None or aw_ok is None:
            R.anchor_missing("C16.water", "%s: OSUM loop / COSMOT / AW assignment not found" % fn)
            continue
        if osum_ok[1] and alls in osum_ok[0]:
            R.ok("C16.water", model + ":total-molality", "OSUM += M[i] over %s (every solute present)" % alls)
        else:
            R.violation("C16.water", model + ":total-molality", "the total molality OSUM is accumulated over %s, not over %s which holds every solute present: species left out do not lower the "
                        "water activity" % (osum_ok[0], alls), line=osum_ok[2], **where)
        if cos_ok[0]:
            R.ok("C16.water", model + ":osmotic", "COSMOT = %s" % want_cos)
        else:
            R.violation("C16.water", model + ":osmotic", "`COSMOT = %s` is not %s" % (cos_ok[2][:80], want_cos), line=cos_ok[1], **where)
        if aw_ok[0]:
            R.ok("C16.water", model + ":water-activity", "AW = exp(-OSUM COSMOT / 55.50837)")
        else:
            R.violation("C16.water", model + ":water-activity", "`AW = %s` is not exp(-OSUM COSMOT / 55.50837)" % aw_ok[2][:80], line=aw_ok[1], **where)


def present_rule(P, R):
    R.rule("C16.present", "Pitzer: every load of a molality from species::lm is conditional on species::in", minimum=2)
    n = 0
    for q in ("Phreeqc::pitzer", "Phreeqc::pitzer_make_lists"):
        for f in P.fns_named(q):
            def rec(nd, guards):
                nonlocal n
                if not T.is_node(nd):
                    return
                if nd[0] == "Compound":
                    # an early `if (<test on species::in>) continue;` guards the rest of the block
                    g2 = list(guards)
                    for st_ in nd[2]:
                        rec(st_, g2)
                        if T.is_node(st_) and st_[0] == "If" and not T.is_node(st_[4]) and any(y[0] in ("Continue", "Break", "Return") for y in T.walk(st_[3])):
                            g2 = g2 + [st_[2]]
                    return
                if nd[0] == "If":
                    rec(nd[3], guards + [nd[2]])
                    rec(nd[4], guards)
                    return
                if nd[0] == "Bin" and nd[2] == "=" and any(y[0] == "Member" and y[2].split("::")[-1] == "M" for y in T.walk(nd[3])) and any(y[0] == "Member" and y[2] == "species::lm" for y in T.walk(nd[4])):
                    n += 1
                    inst = "%s@%d" % (f["q"].split("::")[-1], nd[1])
                    if any(y[0] == "Member" and y[2] == "species::in" for g_ in guards for y in T.walk(g_)):
                        R.ok("C16.present", inst, "guarded by species::in")
                    else:
                        R.violation("C16.present", inst, "the molality of a listed species is loaded without testing species::in: the MacInnes reference ion, listed even when absent, "
                                    "contributes the molality of an earlier calculation", file=f["file"], line=nd[1], function=f["q"])
                    return
                for c in T.children(nd):
                    rec(c, guards)
            rec(f["body"], [])
    if n < 2:
        R.anchor_missing("C16.present", "fewer than 2 molality loads found in pitzer / pitzer_make_lists (%d)" % n)


def enclosing_list(body, node):
    """the innermost statement list (Compound or switch group) that directly contains the statement `node`"""
    found = [None]

    def rec(n):
        if not T.is_node(n):
            return
        if n[0] == "Compound":
            if any(s is node for s in n[2]):
                found[0] = n[2]
            # statements directly under a Case label
            for i, s in enumerate(n[2]):
                c = s
                while T.is_node(c) and c[0] in ("Case", "Default"):
                    c = c[4] if c[0] == "Case" else c[2]
                    if c is node:
                        # the group runs until the next Case/Default
                        grp = [c]
                        for t in n[2][i + 1:]:
                            if T.is_node(t) and t[0] in ("Case", "Default"):
                                break
                            grp.append(t)
                        found[0] = grp
            if found[0] is not None and any(s is node for s in found[0]) and n[2] is not found[0]:
                pass
            # a statement list inside a switch: restrict to the group between the surrounding Case labels
            if found[0] is n[2]:
                idx = next(i for i, s in enumerate(n[2]) if s is node)
                lo = idx
                while lo > 0 and not (T.is_node(n[2][lo]) and n[2][lo][0] in ("Case", "Default")):
                    lo -= 1
                hi = idx + 1
                while hi < len(n[2]) and not (T.is_node(n[2][hi]) and n[2][hi][0] in ("Case", "Default")):
                    hi += 1
                if T.is_node(n[2][lo]) and n[2][lo][0] in ("Case", "Default"):
                    found[0] = n[2][lo:hi]
        for c in T.children(n):
            rec(c)
    rec(body)
    return found[0]


def llnlbracket_rule(P, R):
    """"B-dot for LLNL evaluated at the reported I and DH constants": gammas() interpolates A, B and B-dot linearly between the two
    tabulated temperatures that bracket the solution temperature.  The search for the bracket (the loop over llnl_temp that sets
    ifirst / ilast) is run concretely on a four-column table for temperatures on, between and at the ends of the grid; the bracket
    must be tight (ilast - ifirst <= 1) and contain the temperature.  The loop is taken from the code; only the table is assumed."""
    from .. import minieval as ME
    RULE = "C16.llnlbracket"
    R.rule(RULE, "gammas: the LLNL temperature bracket is tight and contains the temperature (bracket search evaluated on a 4-column table)", minimum=9)
    f = P.one("Phreeqc::gammas")
    loops = [x for x in T.walk(f["body"]) if x[0] == "For" and any(y[0] == "Member" and y[2] == "Phreeqc::llnl_temp" for y in T.walk(x))
             and any(how == "=" and T.is_node(T.strip_casts(t)) and T.strip_casts(t)[0] == "Ref" and T.strip_casts(t)[3] == "ilast" for t, how, line, n in T.writes(x))]
    if len(loops) != 1:
        R.anchor_missing(RULE, "gammas: %d loops over llnl_temp that assign ilast" % len(loops))
        return
    loop = loops[0]
    # the initialisation that precedes the loop in the same block (ifirst = 0; ilast = size)
    blocks = [c for c in T.walk(f["body"]) if c[0] == "Compound" and any(st is loop for st in c[2])]
    pre = []
    for st in blocks[0][2]:
        if st is loop:
            break
        if T.is_node(st) and st[0] == "Bin" and st[2] == "=":
            pre.append(st)
    table = [0.0, 25.0, 60.0, 100.0]
    for tc in (0.0, 10.0, 25.0, 40.0, 60.0, 75.0, 99.0, 100.0, 24.999):
        env = ME.Env(vectors={"llnl_temp": table}, scalars={"tc_x": tc})
        try:
            for st in pre:
                ME.run(st, env)
            ME.run(loop, env)
        except (ME.Unsupported, IndexError) as e:
            R.anchor_missing(RULE, "bracket search not evaluable: %s" % e)
            return
        lo, hi = env.var.get("ifirst"), env.var.get("ilast")
        inst = "tc=%g" % tc
        ok = isinstance(lo, int) and isinstance(hi, int) and 0 <= lo <= hi < len(table) and hi - lo <= 1 and table[lo] <= tc <= table[hi]
        if ok:
            R.ok(RULE, inst, "bracket [%g, %g]" % (table[lo], table[hi]))
        else:
            R.violation(RULE, inst, "for %g C on the grid %s the search ends with ifirst = %s, ilast = %s: A, B and B-dot are interpolated between columns that are not the "
                        "neighbours of the temperature" % (tc, table, lo, hi), file=f["file"], line=loop[1], function=f["q"])


def sitpair_rule(P, R):
    """"In Pitzer and SIT databases the solute activity coefficients and the ... osmotic coefficient are thermodynamically consistent".  A
    SIT interaction with a constant coefficient is a term g = eps m0 m1 of the excess Gibbs energy, homogeneous of degree two in the
    molalities: it adds d g / d m_i to each ln gamma_i and g itself to (phi - 1) sum m, so on every path of the TYPE_SIT_EPSILON case
        m0 * (increment of LGAMMA[i0]) + m1 * (increment of LGAMMA[i1]) = 2 * (increment of OSMOT)
    as a polynomial identity (Euler's theorem).  The case halved the osmotic increment when both species were neutral."""
    RULE = "C16.sitpair"
    R.rule(RULE, "sit(), constant epsilon: on every path m0 dLGAMMA[i0] + m1 dLGAMMA[i1] = 2 dOSMOT (gamma and osmotic increments of one Gibbs-energy term)", minimum=1)
    f = P.one("Phreeqc::sit")
    sw = [x for x in T.walk(f["body"]) if x[0] == "Switch"]
    seg = None
    for s_ in sw:
        body = s_[3][2] if T.is_node(s_[3]) and s_[3][0] == "Compound" else []
        cur, on = [], False
        for st in body:
            lab = []
            while T.is_node(st) and st[0] == "Case":
                lab.append(T.text(st[2]).split("::")[-1])
                st = st[4]
            if lab:
                on = "TYPE_SIT_EPSILON" in lab
                cur = [] if on else cur
            if on:
                cur.append(st)
                if T.is_node(st) and st[0] == "Break":
                    seg = cur
                    on = False
    if not seg:
        R.anchor_missing(RULE, "sit(): case TYPE_SIT_EPSILON not found")
        return

    def sym(n):
        t = "".join(T.text(n, -40).split())
        return t

    def rat(n):
        n = T.strip_casts(n)
        if T.is_node(n) and n[0] in ("Index", "Call") and "sit_M" in T.text(n, -40):
            return RF.Rat.sym("M[" + "".join(T.text(n, -40).split()).split("[")[-1].split(",")[-1].rstrip(")]") + "]")
        if T.is_node(n) and n[0] == "Paren":
            return rat(n[2])
        if T.is_node(n) and n[0] == "Bin" and n[2] in ("+", "-", "*", "/"):
            a, b = rat(n[3]), rat(n[4])
            return a + b if n[2] == "+" else a - b if n[2] == "-" else a * b if n[2] == "*" else a / b
        return RF.from_tree(n, sym)

    def paths(stmts):
        out = [[]]
        for st in stmts:
            if T.is_node(st) and st[0] == "Compound":
                sub = paths(st[2])
                out = [a + b for a in out for b in sub]
            elif T.is_node(st) and st[0] == "If":
                th = paths([st[3]])
                el = paths([st[4]]) if T.is_node(st[4]) else [[]]
                out = [a + b for a in out for b in th + el]
            elif T.is_node(st) and st[0] == "Bin" and st[2] == "+=":
                out = [a + [st] for a in out]
        return out
    n = 0
    for k, pth in enumerate(paths(seg)):
        inc = {}
        try:
            for st in pth:
                tgt = "".join(T.text(st[3], -40).split())
                inc[tgt] = inc.get(tgt, RF.Rat.const(0)) + rat(st[4])
        except RF.NotRational as e:
            R.anchor_missing(RULE, "sit(): increment not rational (%s)" % e)
            return
        lg = sorted(t for t in inc if "LGAMMA" in t)
        osm = [t for t in inc if t.endswith("OSMOT")]
        if len(lg) != 2 or len(osm) != 1:
            R.anchor_missing(RULE, "sit(): path %d of the epsilon case has increments of %s" % (k, sorted(inc)))
            return
        idx = [t.split("[")[-1].split(",")[-1].rstrip(")]") for t in lg]
        lhs = RF.Rat.sym("M[%s]" % idx[0]) * inc[lg[0]] + RF.Rat.sym("M[%s]" % idx[1]) * inc[lg[1]]
        n += 1
        inst = "path%d" % k
        if lhs.same(inc[osm[0]] * RF.Rat.const(2)):
            R.ok(RULE, inst, "m0 dLG0 + m1 dLG1 = 2 dOSMOT")
        else:
            R.violation(RULE, inst, "case TYPE_SIT_EPSILON: on one path the osmotic increment is %r while the log-gamma increments give %r for twice that amount: activity coefficients "
                        "and osmotic coefficient do not come from one excess Gibbs energy (Gibbs-Duhem fails)" % (inc[osm[0]], lhs), file=f["file"], line=pth[0][1], function=f["q"])
    if n < 1:
        R.anchor_missing(RULE, "sit(): no path through the epsilon case")


def slotreset_rule(P, R):
    """pitzer_make_lists / sit_make_lists rebuild, for every model, the per-slot tables the activity-coefficient routines read: IPRSNT[i]
    (species present) and M[i] (its molality).  The tables live as long as the database, and a slot is written with the values of the
    current model only under `spec[i] != NULL && spec[i]->in == TRUE`.  Every slot the loop visits must therefore first be reset
    unconditionally - a direct statement of the loop body with the loop variable as subscript - or a species of an earlier calculation
    stays "present" with its old molality: its interaction terms enter log gamma and the osmotic sum of the new solution, while it counts
    neither in the total molality nor in the ionic strength, and Gibbs-Duhem fails."""
    RULE = "C16.slotreset"
    R.rule(RULE, "pitzer_make_lists / sit_make_lists: every per-slot table that is filled under a condition is reset unconditionally for the same slot first", minimum=4)
    n = 0
    for q in ("Phreeqc::pitzer_make_lists", "Phreeqc::sit_make_lists"):
        f = P.one(q)
        for lp in T.walk(f["body"]):
            if lp[0] != "For" or not T.is_node(lp[3]) or lp[3][0] != "Bin":
                continue
            v = T.strip_casts(lp[3][3])
            if not (T.is_node(v) and v[0] == "Ref"):
                continue
            var = v[3]
            body = lp[5]
            direct = body[2] if T.is_node(body) and body[0] == "Compound" else [body]

            def slot_of(t):
                """name of the array member when t is A[var]"""
                t = T.strip_casts(t)
                if T.is_node(t) and t[0] == "Call" and T.callee_name(t) == "operator[]" and len(t[4]) == 2:
                    a, i = T.strip_casts(t[4][0]), T.strip_casts(t[4][1])
                elif T.is_node(t) and t[0] == "Index":
                    a, i = T.strip_casts(t[2]), T.strip_casts(t[3])
                else:
                    return None
                if T.is_node(a) and a[0] == "Member" and T.is_node(i) and i[0] == "Ref" and i[3] == var:
                    return a[2].split("::")[-1]
                return None
            cond_written, reset = {}, set()
            for st in direct:
                if not T.is_node(st):
                    continue
                if st[0] == "Bin" and st[2] == "=":
                    a = slot_of(st[3])
                    if a and not cond_written.get(a):
                        reset.add(a)
                elif st[0] in ("If", "Compound", "For", "While"):
                    for t, how, line, w in T.writes(st):
                        a = slot_of(t)
                        if a and how == "=":
                            cond_written.setdefault(a, line)
            for a, line in sorted(cond_written.items()):
                if not ("IPRSNT" in a or a.endswith("_M") or a == "M"):
                    continue
                n += 1
                inst = "%s:%s" % (q.split("::")[-1], a)
                if a in reset:
                    R.ok(RULE, inst, "%s[%s] reset unconditionally before it is filled (line %d)" % (a, var, line))
                else:
                    R.violation(RULE, inst, "%s[%s] is filled only for species of the current model (line %d) and not reset for the other slots the loop visits: a species of an "
                                "earlier calculation stays present with its old molality" % (a, var, line), file=f["file"], line=line, function=q)
    if n < 4:
        R.anchor_missing(RULE, "only %d conditionally filled per-slot tables found" % n)
