"""C03 – reactant assemblages end in a valid heterogeneous equilibrium state.

The property describes the fixed point of an inequality-constrained Newton iteration and is NOT decided as a whole.  What the
iteration is allowed to call "converged" and how solid-solution fractions are formed is closed-form code; that part is decided:
  C03.converge  Phreeqc::residuals is the only judge of convergence: every branch of its chain over the unknown types that assigns
                residual[i] also contains a test on residual[i] (absolute or signed) that sets converge = FALSE (a branch without it would let
                the iteration stop with that equation unsatisfied)
  C03.balance   "exchangers keep their exchange capacity and surfaces their site totals": the exchange and surface mole-balance
                residuals are  defined amount - sum of occupied equivalents  (x.moles - x.f, exact rational identity) and are
                tested relative to the defined amount; the pure-phase and solid-solution residuals are the saturation function
                in natural-log units (x.f * ln 10)
  C03.ssfrac    "solid-solution component mole fractions are non-negative and sum to one, ideal components at activity equal to
                mole fraction": calc_ss_fractions forms the total and the fractions over the same component list from the same
                clamped amount (negative -> a positive minimum), stores moles/total and log10 of the same quotient, and
                dispatches to ss_ideal exactly when both Guggenheim parameters are zero; ss_ideal sets log10 lambda = 0
  C03.quick     "SI equal to the requested target": prep() takes a fast path (quick_setup) when the model structure is unchanged; the
                fast path must refresh, for every pure-phase unknown, each field that the full set-up (setup_pure_phases) copies
                from the assemblage component's getters (amount, target SI, delta, dissolve_only, component pointer) - otherwise
                the second of two consecutive reaction calculations keeps the previous assemblage's request
  C03.inert     "dissolve_only / precipitate_only restrictions are respected": precipitate_only is enforced by parking a phase's
                amount as inert before the iterations (set_inert_moles) and restoring it afterwards (unset_inert_moles).  In
                Phreeqc::model the parking call dominates every solver entry (model_pz, model_sit, the default loop's ineq)
                and every restore, and every return is preceded by a restore
  C03.accum     a mineral that carries an element the solution lacks must still enter the model: the element list of an
                assemblage (elt_list_NameDouble() after a loop over its phases) is accumulated over ALL phases - the accumulator
                reset `count_elts = 0` that precedes a use lies in the same loop nest as the use, not inside an inner loop that
                the use has already left (23 accumulate/use pairs in the engine)
The unknown-type codes (macros) are recovered from the set-up functions (setup_exchange, setup_surface, setup_pure_phases,
setup_ss_assemblage).
  C03.onecomp  "exchangers keep their exchange capacity": step_save_exch books each exchange master's site total on exactly one component
               (the component loop is left after the first store); setup_exchange sums the element over the components of a master
  C03.ssphase  the solid-solution terms of a component (dn, dnb, dnc, log10_fraction_x, log10_lambda) are copied into the shared phase
               unconditionally and together, in setup_ss_assemblage and in quick_setup
  C03.zerosites  an exchanger related to an absent phase has no sites but does have an unknown: on model reuse quick_setup assigns
               unknown->moles for exchange / surface-site masters with total == 0 as well (finite-domain evaluation of the master loop)
Not decided: SI = target / phase absent with SI <= target, dissolve_only / precipitate_only / force_equality (inequality solver
outcome), the non-ideal solid-solution model, initial exchanger / surface composition.
"""
from .. import tree as T
from .. import ratfun as RF

PROP = "C03"
EXPLANATION = __doc__


def type_codes(P, fname):
    """integer literals assigned to unknown::type in a set-up function"""
    f = P.one("Phreeqc::" + fname)
    out = []
    for x in T.walk(f["body"]):
        if x[0] == "Bin" and x[2] == "=":
            t = T.strip_casts(x[3])
            if t[0] == "Member" and t[2] == "unknown::type":
                v = T.lit_value(x[4])
                if v is not None and v not in out:
                    out.append(v)
    return out


def conv(n):
    n = T.strip_casts(n)
    if n[0] == "Lit":
        from fractions import Fraction
        return RF.Rat.const(Fraction(str(n[3]).rstrip("fFlL")))
    if n[0] == "Member":
        f = n[2].split("::")[-1]
        return RF.Rat.sym("LN10" if f == "LOG_10" else f)
    if n[0] == "Bin" and n[2] in ("+", "-", "*", "/"):
        a, b = conv(n[3]), conv(n[4])
        return a + b if n[2] == "+" else a - b if n[2] == "-" else a * b if n[2] == "*" else a / b
    if n[0] == "Un" and n[2] == "-":
        return -conv(n[3])
    raise RF.NotRational(T.text(n)[:40])


def onecomp_rule(P, R):
    """"Exchangers keep their exchange capacity": after a reaction the exchanger is written back by step_save_exch, which zeroes the
    totals of every component and then books the site total of each exchange master on ONE component that holds the element
    (setup_exchange later sums the element over the components sharing the master).  The store inside the component loop must be
    followed by `break`; without it every formula on the site receives the full total and the capacity is multiplied."""
    RULE = "C03.onecomp"
    R.rule(RULE, "step_save_exch books the site total of an exchange master on exactly one component (store followed by break); setup_exchange sums over the components", minimum=2)
    f = P.one("Phreeqc::step_save_exch")
    where = dict(file=f["file"], function=f["q"])

    def is_store(n):
        if n[0] == "Call" and (T.callee_q(n) or "") == "cxxNameDouble::insert":
            return True
        if n[0] == "Bin" and n[2] == "=" and T.strip_casts(n[3])[0] == "Call" and T.callee_name(T.strip_casts(n[3])) == "operator[]":
            return True
        if n[0] == "Call" and (T.callee_q(n) or "").endswith("operator=") and n[4] and T.strip_casts(n[4][0])[0] == "Call" and T.callee_name(T.strip_casts(n[4][0])) == "operator[]":
            return True
        return False
    found = 0
    for lp in T.walk(f["body"]):
        if lp[0] != "For" or not any(T.callee_name(c) == "Get_exchange_comps" for c in T.calls(lp[3]) ) :
            continue
        # only the loop nested in the loop over the masters
        stores = [y for y in T.walk(lp[5]) if is_store(y)]
        if not stores or not any(z[0] == "Member" and z[2] == "master::total" for z in T.walk(lp[5])):
            continue
        found += 1
        # control flow: from the store, the loop's next iteration is not reachable
        sub = dict(f, body=["Compound", lp[1], [lp]])
        cfg = T.CFG(sub)
        st_ids = [n["id"] for n in cfg.nodes if T.is_node(n["n"]) and any(y is stores[0] for y in T.walk(n["n"]))]
        cond_ids = [n["id"] for n in cfg.nodes if n["kind"] == "cond" and n["n"] is lp[3]]
        inst = "step_save_exch:store@%d" % stores[0][1]
        if not st_ids or not cond_ids:
            R.anchor_missing(RULE, "step_save_exch: store / loop condition not found in the flow graph")
            continue
        reach = cfg.reachable(st_ids[0])
        if cond_ids[0] in reach:
            R.violation(RULE, inst, "after booking the site total on a component the loop over the components goes on: every component that holds the exchange element receives the "
                        "full total, and setup_exchange, which sums the element over the components of a master, multiplies the defined capacity by the number of formulas on the site",
                        line=stores[0][1], **where)
        else:
            R.ok(RULE, inst, "the component loop is left after the first store")
    if found == 0:
        R.anchor_missing(RULE, "step_save_exch: loop over the exchange components that stores master->total not found")
    # cooperating site: setup_exchange accumulates over the components
    g = P.one("Phreeqc::setup_exchange")
    acc = [x for x in T.walk(g["body"]) if x[0] == "Bin" and x[2] == "+=" and "moles" in T.text(x[3])]
    if acc:
        R.ok(RULE, "setup_exchange:sum", "x->moles += element total of each component (line %d)" % acc[0][1])
    else:
        R.anchor_missing(RULE, "setup_exchange no longer accumulates the site total over the components")


def ssphase_rule(P, R):
    """"ideal components at activity equal to mole fraction": the solid-solution terms of a component (dn, dnb, dnc, log10_fraction_x,
    log10_lambda) live twice - in the component of the entity and in the shared `class phase`, which the residual and the Jacobian of
    EVERY component read (build_ss_assemblage stores phase->log10_lambda for ideal ones too) and which survives from calculation to
    calculation.  When the unknowns of a solid solution are set up (setup_ss_assemblage) or reloaded (quick_setup) all five phase fields
    are copied from the component, unconditionally and side by side: a copy made only for non-ideal solid solutions leaves an ideal
    component with the activity coefficient the phase had in an earlier calculation."""
    RULE = "C03.ssphase"
    R.rule(RULE, "setup_ss_assemblage / quick_setup copy all five solid-solution terms of a component into the shared phase, unconditionally", minimum=10)
    FIELDS = ("dn", "dnb", "dnc", "log10_fraction_x", "log10_lambda")
    for q in ("Phreeqc::setup_ss_assemblage", "Phreeqc::quick_setup"):
        f = P.one(q)
        where = dict(file=f["file"], function=f["q"])
        # the block that holds the copies: the Compound containing the assignment of phase::dn from Get_dn()
        def copies(blk):
            out = {}
            for st in blk[2]:
                if T.is_node(st) and st[0] == "Bin" and st[2] == "=":
                    l = T.strip_casts(st[3])
                    if l[0] == "Member" and l[2].startswith("phase::") and l[2].split("::")[-1] in FIELDS and any(T.callee_name(c) == "Get_" + l[2].split("::")[-1] for c in T.calls(st[4])):
                        out[l[2].split("::")[-1]] = st
            return out
        best = {}
        for blk in T.walk(f["body"]):
            if blk[0] == "Compound":
                c = copies(blk)
                if "dn" in c and len(c) > len(best):
                    best = c
        if not best:
            R.anchor_missing(RULE, "%s: the copies of the solid-solution terms into the phase were not found" % q)
            continue
        for fld in FIELDS:
            inst = "%s:%s" % (q.split("::")[-1], fld)
            if fld in best:
                R.ok(RULE, inst, "copied next to dn (line %d)" % best[fld][1])
            else:
                # is it copied elsewhere (conditionally)?
                cond = [x for x in T.walk(f["body"]) if x[0] == "Bin" and x[2] == "=" and T.strip_casts(x[3])[0] == "Member" and T.strip_casts(x[3])[2] == "phase::" + fld]
                R.violation(RULE, inst, "phase->%s is %s: build_ss_assemblage and the residuals read it for every component, so an ideal component keeps the value the shared phase "
                            "had in an earlier (non-ideal) calculation and its activity no longer equals its mole fraction"
                            % (fld, "copied only under a condition (line %d), not side by side with dn" % cond[0][1] if cond else "no longer copied from the component"),
                            line=(cond[0][1] if cond else best["dn"][1]), **where)


def run(P, R, tier):
    from .c04 import _Renamed
    from . import c10 as C10
    C10.casekey_rule(P, _Renamed(R, "C10.casekey", "C03.casekey"))
    onecomp_rule(P, R)
    mbcoef_rule(P, R)
    ssphase_rule(P, R)
    from . import c20 as C20
    C20.zerosites_rule(P, R, RULE="C03.zerosites")
    R.undecided += ["SI = target for present phases / SI <= target for absent ones; dissolve_only, precipitate_only, force_equality (solver outcome)",
                    "non-ideal solid solutions; initial exchanger and surface compositions"]
    f = P.one("Phreeqc::residuals")
    where = dict(file=f["file"], function=f["q"])

    def chain(n):
        out = []
        while T.is_node(n) and n[0] == "If":
            out.append(n)
            n = n[4]
        return out
    best = []
    for x in T.walk(f["body"]):
        if x[0] == "If" and any(y[0] == "Member" and y[2] == "unknown::type" for y in T.walk(x[2])):
            c = chain(x)
            if len(c) > len(best):
                best = c
    R.rule("C03.converge", "every branch of residuals that assigns residual[i] tests it and can refuse convergence", minimum=15)
    if len(best) < 15:
        R.anchor_missing("C03.converge", "the chain over unknown types in Phreeqc::residuals has only %d branches" % len(best))
        return
    branches = {}
    for b in best:
        codes = [T.lit_value(y[4]) for y in T.walk(b[2]) if y[0] == "Bin" and y[2] == "==" and T.strip_casts(y[3])[0] == "Member" and T.strip_casts(y[3])[2] == "unknown::type"]
        asg = [w for w in T.walk(b[3]) if w[0] == "Bin" and w[2] in T.ASSIGN_OPS and "residual" in T.text(w[3]) and "(" in T.text(w[3])]
        tests = []
        for y in T.walk(b[3]):
            if y[0] == "If" and "residual" in T.text(y[2]):
                if any(w[0] == "Bin" and w[2] == "=" and T.text(w[3]).endswith("converge") and T.lit_value(w[4]) == 0 for w in T.walk(y[3])) or \
                        any(w[0] == "Bin" and w[2] == "=" and T.text(w[3]).endswith("converge") and T.lit_value(w[4]) == 0 for w in T.walk(y)):
                    tests.append(y)
        inst = "type %s @%d" % ("/".join(str(c) for c in codes), b[1])
        for c in codes:
            branches.setdefault(c, []).append((b, asg, tests))
        nonconst = [w for w in asg if T.lit_value(w[4]) is None and not (T.strip_casts(w[4])[0] == "Lit")]
        if not nonconst:
            R.ok("C03.converge", inst, "assigns only constants")
        elif tests:
            R.ok("C03.converge", inst, "%d residual assignment(s), %d refusing test(s)" % (len(nonconst), len(tests)))
        else:
            R.violation("C03.converge", inst, "this branch assigns residual[i] but contains no test on residual[i] that sets converge = FALSE: the iteration can stop with this "
                        "equation unsatisfied", line=b[1], **where)

    # ------------------------------------------------------------------ balances
    R.rule("C03.balance", "exchange and surface balances are defined amount - occupied equivalents, tested relative to the defined amount; PP / SS residuals are f * ln 10", minimum=6)
    ex = type_codes(P, "setup_exchange")
    su = type_codes(P, "setup_surface")
    pp = type_codes(P, "setup_pure_phases")
    ss = type_codes(P, "setup_ss_assemblage")
    if not (len(ex) == 1 and su and len(pp) == 1 and ss):
        R.anchor_missing("C03.balance", "unknown-type codes not recovered from the set-up functions (exchange %s, surface %s, pure phases %s, solid solutions %s)" % (ex, su, pp, ss))
        return
    su_bal = su[0]         # the first type assigned by setup_surface is the site balance; the charge balances follow
    for code, name in ((ex[0], "exchange"), (su_bal, "surface")):
        if code not in branches:
            R.anchor_missing("C03.balance", "no residual branch for the %s balance (type %s)" % (name, code))
            continue
        b, asg, tests = branches[code][0]
        first = asg[0] if asg else None
        try:
            okf = first is not None and first[2] == "=" and conv(first[4]).same(RF.parse("moles - f"))
        except RF.NotRational:
            okf = False
        if okf:
            R.ok("C03.balance", name + ":residual", "x.moles - x.f")
        else:
            R.violation("C03.balance", name + ":residual", "the %s balance residual `%s` is not defined amount - occupied equivalents (x.moles - x.f)"
                        % (name, T.text(first[4])[:80] if first else "?"), line=first[1] if first else b[1], **where)
        rel = False
        for y in tests:
            for c in T.walk(y[2]):
                if c[0] == "Bin" and c[2] == ">" and any(T.callee_name(k) == "fabs" for k in T.calls(c[3])):
                    r = T.strip_casts(c[4])
                    if r[0] == "Bin" and r[2] == "*" and any(z[0] == "Member" and z[2] == "unknown::moles" for z in T.walk(r)) and any(z[0] == "Ref" and "toler" in z[3] for z in T.walk(r)):
                        rel = True
        if rel:
            R.ok("C03.balance", name + ":tolerance", "fabs(residual) > toler * x.moles refuses convergence")
        else:
            R.violation("C03.balance", name + ":tolerance", "the %s balance is no longer tested relative to the defined amount (fabs(residual) > toler * moles)" % name, line=b[1], **where)
    for code, name in ((pp[0], "pure phase"), ([c for c in ss if c in branches and c != pp[0]][-1] if [c for c in ss if c in branches and c != pp[0]] else None, "solid solution")):
        if code is None or code not in branches:
            R.anchor_missing("C03.balance", "no residual branch for %s (type %s)" % (name, code))
            continue
        b, asg, tests = branches[code][0]
        first = asg[0] if asg else None
        try:
            okf = first is not None and first[2] == "=" and conv(first[4]).same(RF.parse("f*LN10"))
        except RF.NotRational:
            okf = False
        if okf:
            R.ok("C03.balance", name + ":residual", "x.f * ln 10 (saturation function in natural-log units)")
        else:
            R.violation("C03.balance", name + ":residual", "the %s residual `%s` is not x.f * ln 10" % (name, T.text(first[4])[:80] if first else "?"), line=first[1] if first else b[1], **where)

    quick_rule(P, R, pp[0])
    inert_rule(P, R)
    accum_rule(P, R)
    initmoles_rule(P, R)
    inertrelated_rule(P, R)
    # ------------------------------------------------------------------ solid-solution fractions
    R.rule("C03.ssfrac", "solid-solution fractions: total and fractions from the same clamped amounts over the same list; log of the same quotient; ideal <=> both parameters zero; lambda = 1", minimum=6)
    g = P.one("Phreeqc::calc_ss_fractions")
    gw = dict(file=g["file"], function=g["q"])
    loops = [x for x in T.walk(g["body"]) if x[0] == "For" and any(T.callee_name(c) == "Get_ss_comps" for c in T.calls(x[3]) if T.is_node(x[3]))]
    sumloop = [l for l in loops if any(w[0] == "Bin" and w[2] == "+=" and T.text(w[3]) == "n_tot" for w in T.walk(l[5]))]
    fraloop = [l for l in loops if any(T.callee_name(c) == "Set_fraction_x" for c in T.calls(l[5]))]
    if len(sumloop) != 1 or len(fraloop) != 1:
        R.anchor_missing("C03.ssfrac", "calc_ss_fractions: total loop / fraction loop not found (%d / %d)" % (len(sumloop), len(fraloop)))
        return
    sl, fl = sumloop[0], fraloop[0]
    if T.text(sl[3]) == T.text(fl[3]):
        R.ok("C03.ssfrac", "same-list", "total and fractions range over %s" % T.text(sl[3])[:60])
    else:
        R.violation("C03.ssfrac", "same-list", "the total is summed over `%s` but the fractions are formed over `%s`: they no longer sum to one" % (T.text(sl[3])[:50], T.text(fl[3])[:50]), line=fl[1], **gw)

    def moles_def(loop):
        """(source of `moles`, clamp condition text, clamp value text)"""
        src = clamp = None
        for w in T.walk(loop[5]):
            if w[0] == "Bin" and w[2] == "=" and T.text(w[3]) == "moles":
                if src is None:
                    src = T.text(w[4]).split(".")[-1]
            if w[0] == "If" and "moles" in T.text(w[2]):
                for v in T.walk(w[3]):
                    if v[0] == "Bin" and v[2] == "=" and T.text(v[3]) == "moles":
                        clamp = (T.text(w[2]), T.text(v[4]))
        return src, clamp
    ds, df = moles_def(sl), moles_def(fl)
    if ds == df and ds[0] == "Get_moles()":
        R.ok("C03.ssfrac", "same-amount", "both loops use Get_moles() with the clamp %s" % (ds[1],))
    else:
        R.violation("C03.ssfrac", "same-amount", "the total uses %s but the fractions use %s: the fractions no longer sum to one" % (ds, df), line=fl[1], **gw)
    if ds[1] and "<" in ds[1][0] and not ds[1][1].lstrip().startswith("-") and ds[1][1] not in ("0", "0.0", "0."):
        R.ok("C03.ssfrac", "non-negative", "negative amounts are replaced by %s" % ds[1][1])
    else:
        R.violation("C03.ssfrac", "non-negative", "negative component amounts are not replaced by a positive minimum before the fractions are formed (%s)" % (ds[1],), line=sl[1], **gw)
    fr = [c for c in T.calls(fl[5]) if T.callee_name(c) == "Set_fraction_x"]
    lg = [c for c in T.calls(fl[5]) if T.callee_name(c) == "Set_log10_fraction_x"]
    q = T.text(fr[0][4][0]).replace(" ", "") if fr else ""
    lq = ""
    if lg:
        a = T.strip_casts(lg[0][4][0])
        if a[0] == "Call" and T.callee_name(a) == "log10":
            lq = T.text(a[4][0]).replace(" ", "")
    if q == "moles/n_tot":
        R.ok("C03.ssfrac", "fraction", "x = moles / n_tot")
    else:
        R.violation("C03.ssfrac", "fraction", "the mole fraction is `%s`, not moles / n_tot" % q, line=fr[0][1] if fr else fl[1], **gw)
    if lq == q and q:
        R.ok("C03.ssfrac", "log-fraction", "log10 of the same quotient")
    else:
        R.violation("C03.ssfrac", "log-fraction", "log10_fraction_x is log10(%s) while fraction_x is %s" % (lq, q), line=lg[0][1] if lg else fl[1], **gw)
    # dispatch
    disp = None
    for x in T.walk(g["body"]):
        if x[0] == "If" and any(T.callee_q(c) == "Phreeqc::ss_binary" for c in T.calls(x[3])) and T.is_node(x[4]) and any(T.callee_q(c) == "Phreeqc::ss_ideal" for c in T.calls(x[4])):
            disp = x
    if disp is not None:
        c = T.strip_casts(disp[2])
        parts = [c[3], c[4]] if c[0] == "Bin" and c[2] == "||" else []
        names = sorted(T.callee_name(k) for p_ in parts for k in T.calls(p_))
        nz = all(T.strip_casts(p_)[0] == "Bin" and T.strip_casts(p_)[2] == "!=" and (T.lit_value(T.strip_casts(p_)[4]) == 0 or T.text(T.strip_casts(p_)[4]) in ("0.0", "0")) for p_ in parts)
        if names == ["Get_a0", "Get_a1"] and nz:
            R.ok("C03.ssfrac", "ideal-dispatch", "ss_ideal exactly when a0 == 0 and a1 == 0")
        else:
            R.violation("C03.ssfrac", "ideal-dispatch", "the ideal model is not selected exactly when both Guggenheim parameters are zero (`%s`)" % T.text(disp[2])[:80], line=disp[1], **gw)
    else:
        R.anchor_missing("C03.ssfrac", "calc_ss_fractions: ss_binary / ss_ideal dispatch not found")
    idl = P.one("Phreeqc::ss_ideal")
    lam = [c for c in T.calls(idl["body"]) if T.callee_name(c) == "Set_log10_lambda"]
    if lam and all(T.lit_value(c[4][0]) == 0 or T.text(c[4][0]) in ("0.0", "0") for c in lam):
        R.ok("C03.ssfrac", "ideal-lambda", "log10 lambda = 0: activity = mole fraction")
    else:
        R.violation("C03.ssfrac", "ideal-lambda", "ss_ideal does not set log10 lambda = 0 for every component", file=idl["file"], line=idl["line"], function=idl["q"])


def quick_rule(P, R, pp_code):
    R.rule("C03.quick", "quick_setup refreshes every pure-phase unknown field that setup_pure_phases copies from the component", minimum=4)
    full = P.one("Phreeqc::setup_pure_phases")
    fast = P.one("Phreeqc::quick_setup")

    def comp_fields(body):
        out = {}
        for x in T.walk(body):
            if x[0] == "Bin" and x[2] == "=":
                t = T.strip_casts(x[3])
                if t[0] == "Member" and t[2].startswith("unknown::"):
                    getters = [T.callee_name(c) for c in T.calls(x[4]) if T.callee_name(c).startswith("Get_") and T.is_node(c[3]) and "comp_ptr" in T.text(c[3])]
                    direct = T.text(x[4]).strip() == "comp_ptr"
                    if getters or direct:
                        out[t[2].split("::")[-1]] = (getters[0] if getters else "comp_ptr", x[1])
        return out
    # the PP block of quick_setup
    blk = None
    for x in T.walk(fast["body"]):
        if x[0] == "If":
            c = T.strip_casts(x[2])
            if c[0] == "Bin" and c[2] == "==" and T.strip_casts(c[3])[0] == "Member" and T.strip_casts(c[3])[2] == "unknown::type" and T.lit_value(c[4]) == pp_code:
                blk = x[3]
    if blk is None:
        R.anchor_missing("C03.quick", "quick_setup: pure-phase refresh block not found")
        return
    want = comp_fields(full["body"])
    got = comp_fields(blk)
    if len(want) < 4:
        R.anchor_missing("C03.quick", "setup_pure_phases copies only %d fields from the component" % len(want))
        return
    for fld, (getter, line) in sorted(want.items()):
        if fld in ("pp_assemblage_comp_name",) or getter == "Get_name":
            continue          # identity of the phase: part of the model structure that check_same_model compares
        if fld in got and got[fld][0] == getter:
            R.ok("C03.quick", fld, "refreshed from %s" % getter)
        elif fld in got:
            R.violation("C03.quick", fld, "quick_setup refreshes unknown::%s from %s, setup_pure_phases from %s" % (fld, got[fld][0], getter), file=fast["file"], line=got[fld][1], function=fast["q"])
        else:
            R.violation("C03.quick", fld, "setup_pure_phases copies unknown::%s from the component (%s) but the fast path quick_setup does not refresh it: the next reaction calculation on "
                        "an unchanged model structure keeps the previous assemblage's value" % (fld, getter), file=fast["file"], line=blk[1], function=fast["q"])


def inert_rule(P, R):
    R.rule("C03.inert", "Phreeqc::model: set_inert_moles() dominates every solver entry and every unset_inert_moles(); every return is preceded by the restore", minimum=4)
    f = P.one("Phreeqc::model")
    where = dict(file=f["file"], function=f["q"])
    cfg = T.CFG(f)
    dom = cfg.dominators()

    def nodes_calling(names):
        out = []
        for n in cfg.nodes:
            if T.is_node(n["n"]):
                for c in T.calls(n["n"]):
                    if T.callee_name(c) in names:
                        out.append((n["id"], c))
        return out
    sets = nodes_calling(("set_inert_moles",))
    if not sets:
        R.anchor_missing("C03.inert", "model() no longer calls set_inert_moles()")
        return
    sids = set(i for i, _ in sets)
    targets = nodes_calling(("model_pz", "model_sit", "ineq", "unset_inert_moles"))
    if len(targets) < 4:
        R.anchor_missing("C03.inert", "model(): solver entries / restore calls not found (%d)" % len(targets))
        return
    for nid, c in targets:
        inst = "%s@%d" % (T.callee_name(c), c[1])
        if any(s_ in dom.get(nid, ()) for s_ in sids):
            R.ok("C03.inert", inst, "reached only after set_inert_moles()")
        else:
            R.violation("C03.inert", inst, "%s() at line %d can be reached without set_inert_moles(): precipitate_only phases are treated as ordinary reversible phases on that path"
                        % (T.callee_name(c), c[1]), line=c[1], **where)


def accum_rule(P, R):
    R.rule("C03.accum", "element-list accumulators are reset in the loop nest of their use, not in an inner loop the use has left", minimum=15)
    LOOPS = ("For", "While", "Do", "RangeFor")
    tot = 0
    for key, f in sorted(P.functions.items()):
        if not f["q"].startswith("Phreeqc::"):
            continue
        events = []

        def rec(n, loops):
            if not T.is_node(n):
                return
            if n[0] in LOOPS:
                for c in T.children(n):
                    rec(c, loops + [n[1]])
                return
            if n[0] == "Bin" and n[2] == "=" and T.text(n[3]).endswith("count_elts") and T.lit_value(n[4]) == 0:
                events.append(("reset", n[1], tuple(loops)))
            if n[0] == "Call" and T.callee_name(n) == "elt_list_NameDouble":
                events.append(("use", n[1], tuple(loops)))
            for c in T.children(n):
                rec(c, loops)
        rec(f["body"], [])
        events.sort(key=lambda e: e[1])
        last = None
        for e in events:
            if e[0] == "reset":
                last = e
            elif last is not None:
                tot += 1
                inst = "%s:use@%d" % (f["q"].split("::")[-1], e[1])
                if len(last[2]) <= len(e[2]) and e[2][:len(last[2])] == last[2]:
                    R.ok("C03.accum", inst, "reset at line %d in the same loop nest" % last[1])
                else:
                    R.violation("C03.accum", inst, "the element list used at line %d was last reset at line %d inside the loop at line %d, which the use has left: it holds the elements of the "
                                "last item only (a phase with an element the solution lacks is then left out of the model)" % (e[1], last[1], last[2][-1]),
                                file=f["file"], line=last[1], function=f["q"])
    if tot < 15:
        R.anchor_missing("C03.accum", "only %d accumulate/use pairs of the element list found" % tot)


def initmoles_rule(P, R):
    """"dissolve_only / precipitate_only restrictions are respected": the restrictions compare the amount of a phase with
    pp_assemblage_comp::initial_moles, the amount at the start of the calculation, which set_initial_moles(n) records.  Every reaction
    step is a calculation of its own: in the step drivers (a loop over reaction_step that ends in run_reactions(-2, ...)) every path
    through the loop body must record the initial moles before the step is run.  If only step 1 (or only the non-incremental steps) does,
    a dissolve_only mineral that dissolved in an earlier incremental step may precipitate again in a later one."""
    RULE = "C03.initmoles"
    R.rule(RULE, "step drivers record the initial moles (set_initial_moles) on every path of the step loop before run_reactions", minimum=2)
    n = 0
    for k, g in sorted(P.functions.items(), key=lambda kv: kv[1]["q"]):
        for lp in T.walk(g["body"]):
            if lp[0] != "For" or not (T.is_node(lp[3]) and any(y[0] == "Member" and y[2] == "Phreeqc::reaction_step" for y in T.walk(lp[3]))):
                continue
            body = lp[5]
            runs = [c for c in T.calls(body) if T.callee_name(c) == "run_reactions"]
            if not runs:
                continue
            n += 1
            cfg = T.CFG({"body": body, "line": lp[1], "endline": lp[1]})
            seen, st, bad = {cfg.entry}, [cfg.entry], None
            while st:
                x = st.pop()
                nd = cfg.nodes[x]["n"]
                if T.is_node(nd) and any(T.callee_name(c) == "set_initial_moles" for c in T.calls(nd)):
                    continue
                if T.is_node(nd) and any(T.callee_name(c) == "run_reactions" for c in T.calls(nd)):
                    bad = cfg.nodes[x]["line"]
                    break
                for y in cfg.nodes[x]["succ"]:
                    if y not in seen:
                        seen.add(y)
                        st.append(y)
            inst = "%s@%d" % (g["q"].split("::")[-1], lp[1])
            if bad is None:
                R.ok(RULE, inst, "set_initial_moles precedes run_reactions on every path of the step loop")
            else:
                R.violation(RULE, inst, "a path through the step loop reaches run_reactions (line %d) without set_initial_moles: the dissolve_only / precipitate_only tests of that "
                            "step compare with the amounts of an earlier step" % bad, file=g["file"], line=bad, function=g["q"])
    if n < 2:
        R.anchor_missing(RULE, "only %d step loops over reaction_step that call run_reactions (reactions, run_as_cells)" % n)


def inertrelated_rule(P, R):
    """"Surfaces and exchangers keep their site totals": for the duration of model() set_inert_moles() moves the amount of every
    precipitate_only phase from unknown::moles to unknown::inert_moles (so that the phase cannot dissolve) and unset_inert_moles() moves it
    back.  Code that derives the sites or the area of a surface related to a phase from the phase's amount runs in between; it has to
    read moles + inert_moles.  Every expression that reads `<u>->phase_unknown->moles` must read `<u>->phase_unknown->inert_moles` too."""
    RULE = "C03.inertrelated"
    R.rule(RULE, "every read of phase_unknown->moles (amount of the phase a surface is related to) is accompanied by inert_moles of the same unknown", minimum=5)
    setters = [g for g in P.functions.values() if g["q"] == "Phreeqc::set_inert_moles"]
    if not setters:
        R.anchor_missing(RULE, "set_inert_moles not found")
        return
    n = 0
    for k, g in sorted(P.functions.items(), key=lambda kv: kv[1]["q"]):
        def rec(node, top):
            nonlocal n
            if not T.is_node(node):
                return
            # `top` = the enclosing full expression (statement-level expression or condition)
            is_stmt = node[0] in ("Compound", "If", "For", "While", "Do", "Switch", "Case", "Default", "Label", "Try")
            for ch in T.children(node):
                rec(ch, None if is_stmt else (top if top is not None else node))
            if node[0] == "Member" and node[2] == "unknown::moles" and T.is_node(T.strip_casts(node[3])) and T.strip_casts(node[3])[0] == "Member" \
                    and T.strip_casts(node[3])[2] == "unknown::phase_unknown":
                expr = top if top is not None else node
                base = " ".join(T.text(node[3]).split())
                ok = any(y[0] == "Member" and y[2] == "unknown::inert_moles" and " ".join(T.text(y[3]).split()) == base for y in T.walk(expr))
                n += 1
                inst = "%s@%d" % (g["q"].split("::")[-1], node[1])
                if ok:
                    R.ok(RULE, inst, "%s->moles + inert_moles" % base[:40])
                else:
                    R.violation(RULE, inst, "`%s->moles` is read without inert_moles: during model() the amount of a precipitate_only phase is parked there, so a surface related to "
                                "such a phase gets the sites of the newly precipitated part only and loses them in the next calculation" % base[:50],
                                file=g["file"], line=node[1], function=g["q"])
        rec(g["body"], None)
    if n < 5:
        R.anchor_missing(RULE, "only %d reads of phase_unknown->moles" % n)


def mbcoef_rule(P, R):
    """"exchangers and surfaces keep their site totals (sum of occupied equivalents = defined sites)": the site / element balance of a master
    species sums every species with the number of that master it contains.  mb_for_species_aq / _ex / _surf walk the element list of the
    species and register it in the balance of each master with store_mb_unknowns(master->unknown, &moles, COEF, ...): inside the loop
    over the element list COEF must be elt_list[i].coef * master->coef - the stoichiometric coefficient of the species times the atoms
    per master - as a polynomial identity.  Dropping elt_list[i].coef counts a bidentate surface species ((Hfo_wO)2Cd) as one site."""
    from .. import ratfun as RF
    RULE = "C03.mbcoef"
    R.rule(RULE, "mb_for_species_*: inside the element-list loop a species enters the balance of a master with elt_list[i].coef * master->coef", minimum=4)
    n = 0
    for q in ("Phreeqc::mb_for_species_aq", "Phreeqc::mb_for_species_ex", "Phreeqc::mb_for_species_surf"):
        f = P.one(q)
        for lp in T.walk(f["body"]):
            if lp[0] != "For" or not T.is_node(lp[3]) or "count_elts" not in T.text(lp[3], -40):
                continue
            iv = T.strip_casts(lp[3][3])[3] if T.is_node(T.strip_casts(lp[3][3])) and T.strip_casts(lp[3][3])[0] == "Ref" else None
            for c in T.calls(lp[5]):
                if T.callee_name(c) != "store_mb_unknowns" or len(c[4]) < 3:
                    continue
                tgt = "".join(T.text(c[4][0], -40).split())
                if not tgt.endswith(".unknown"):
                    continue
                n += 1
                base = tgt[:-len(".unknown")]
                inst = "%s@%d" % (q.split("::")[-1], c[1] - f["line"])

                def sym(x):
                    return "".join(T.text(x, -40).split())
                ctext = "".join(T.text(c[4][2], -40).split())
                if ctext.endswith(".z") or ".dz[" in ctext:
                    n -= 1      # charge of the species: the registration in the charge balance of a potential unknown, not a site / element balance
                    continue
                try:
                    got = RF.from_tree(c[4][2], sym, opaque_calls=("operator[]",))
                except RF.NotRational as e:
                    R.anchor_missing(RULE, "%s: coefficient not rational (%s)" % (inst, e))
                    continue
                want = None
                for s_ in got.symbols():
                    if "elt_list" in s_ and s_.endswith(".coef"):
                        want = RF.Rat.sym(s_) * RF.Rat.sym(base + ".coef")
                if want is not None and got.same(want):
                    R.ok(RULE, inst, "elt_list[%s].coef * %s.coef" % (iv, base))
                else:
                    R.violation(RULE, inst, "the species enters the balance of %s with the coefficient `%s`, not with elt_list[%s].coef * %s.coef: a species that holds the master "
                                "more than once (a bidentate surface complex, CaX2) is counted once" % (base, T.text(c[4][2])[:50], iv, base), file=f["file"], line=c[1], function=q)
    if n < 4:
        R.anchor_missing(RULE, "only %d balance registrations found in the element-list loops" % n)
