"""C09 – file, string and line views of each output stream are identical.

Decided structurally, per message:
  C09.dual      each IPhreeqc::*_msg override passes its text unmodified to both sinks of its stream: the string sink under
                `<X>StringOn && <x>_on` and the file sink (the PHRQ_io base call, or for error/warning the direct write to
                error_ostream under `error_ostream != NULL && error_on`); the base-class call is unconditional.  The base
                PHRQ_io::*_msg writes the text to its stream under `<x>_ostream != NULL && <x>_on` only
  C09.who       who-may-write: OutputString / LogString are appended only by their *_msg override; DumpString only by do_run;
                output/log/dump/error streams are written only by the PHRQ_io message functions, the IPhreeqc error/warning
                overrides and the dump generator
  C09.dump      dump file and dump string are produced by the same generator (dump_ostream) from the same request
  C09.lines     the six Get*StringLine(n) accessors are range-guarded on the vector they subscript; every <X>Lines vector is
                rebuilt from <X>String by a getline loop after being cleared
  C09.sync      every IPhreeqc function that clears or appends to the error / warning reporters re-synchronises the line views
                (update_errors) before it returns normally - except the two message sinks, whose callers (the run/load entry
                points) re-synchronise once after the engine returns (checked)
  C09.printfree every path through print_all clears the solver-read flag phase::pr_in, also when nothing is printed (one
                structural instance of clause (e); the clause as a whole stays undecided)
  C09.sel       per-user-number switches are consulted for the block being written, not the current user number
                (shared with C13.keyparam)
Not decided: (e) toggling sinks does not change results (numerical); byte identity across the file system (buffering, open
failures).
"""
from .. import tree as T
from . import c05 as C05

PROP = "C09"
EXPLANATION = __doc__

STREAMS = [
    # method, string switch, on flag, string member (or reporter), base method
    ("IPhreeqc::output_msg", "IPhreeqc::OutputStringOn", "PHRQ_io::output_on", "IPhreeqc::OutputString", "PHRQ_io::output_msg", "PHRQ_io::output_ostream"),
    ("IPhreeqc::log_msg", "IPhreeqc::LogStringOn", "PHRQ_io::log_on", "IPhreeqc::LogString", "PHRQ_io::log_msg", "PHRQ_io::log_ostream"),
]


def members_in(n):
    return set(x[2] for x in T.walk(n) if x[0] == "Member")


def run(P, R, tier):
    hiddenrun_rule(P, R)
    R.undecided += ["(e) toggling sinks does not change results", "byte identity of files on disk (buffering, open failures)"]
    R.rule("C09.dual", "*_msg overrides pass the unmodified text to the string sink (under its switch) and the file sink; base call unconditional", minimum=10)
    for q, sw, on, strm, base, ost in STREAMS:
        f = P.one(q)
        C05.set_aliases(f)
        where = dict(file=f["file"], line=f["line"], function=f["q"])
        p = f["pnames"][0]
        st = [s for s in f["body"][2] if T.is_node(s)]
        ok_s = False
        for s in st:
            if s[0] == "If" and not T.is_node(s[4]):
                c = T.strip_casts(s[2])
                if c[0] == "Bin" and c[2] == "&&" and members_in(c) == {sw, on}:
                    for tgt, how, line, node in T.writes(s[3]):
                        root, steps = T.access_path(tgt)
                        if steps == [("f", strm)] and node[0] == "Call" and T.callee_name(node) == "operator+=" and C05.param_name(node[4][-1]) == p:
                            ok_s = True
        inst = q.split("::")[-1]
        if ok_s:
            R.ok("C09.dual", inst + ":string", "%s += %s under %s && %s" % (strm.split("::")[-1], p, sw.split("::")[-1], on.split("::")[-1]))
        else:
            R.violation("C09.dual", inst + ":string", "the string sink is not `if (%s && %s) %s += %s`" % (sw.split("::")[-1], on.split("::")[-1], strm.split("::")[-1], p), **where)
        top = [s for s in st if s[0] == "Call" and T.callee_q(s) == base and [C05.param_name(a) for a in s[4]] == [p]]
        if len(top) == 1 and top[0][2].get("k") != "virtual":
            R.ok("C09.dual", inst + ":file", "%s(%s) unconditionally" % (base, p))
        else:
            R.violation("C09.dual", inst + ":file", "the file sink %s(%s) is not called exactly once, unconditionally, with the unmodified text" % (base, p), **where)
        check_base(P, R, base, ost, on)
    check_base(P, R, "PHRQ_io::punch_msg", "PHRQ_io::punch_ostream", "PHRQ_io::punch_on")
    # error_msg / warning_msg
    for q, strsw, reporter, suffix in (("IPhreeqc::error_msg", "IPhreeqc::ErrorStringOn", "IPhreeqc::ErrorReporter", False),
                                       ("IPhreeqc::warning_msg", "IPhreeqc::WarningStringOn", "IPhreeqc::WarningReporter", True)):
        f = P.one(q)
        C05.set_aliases(f)
        where = dict(file=f["file"], line=f["line"], function=f["q"])
        p = f["pnames"][0]
        st = [s for s in f["body"][2] if T.is_node(s)]
        inst = q.split("::")[-1]
        # file sink: (*error_ostream) << str under error_ostream != NULL && error_on, top-level
        okf = False
        for s in st:
            if s[0] == "If" and not T.is_node(s[4]):
                c = T.strip_casts(s[2])
                if c[0] == "Bin" and c[2] == "&&" and members_in(c) == {"PHRQ_io::error_ostream", "PHRQ_io::error_on"}:
                    items = []
                    for x in (s[3][2] if s[3][0] == "Compound" else [s[3]]):
                        from .. import rawio
                        it = []
                        if rawio.flatten_stream(x, it):
                            items += it
                    names = [C05.param_name(i) for i in items]
                    if p in names and not any(T.is_node(i) and T.strip_casts(i)[0] not in ("Lit", "Ref") for i in items):
                        okf = True
        if okf:
            R.ok("C09.dual", inst + ":file", "(*error_ostream) << %s under error_ostream != NULL && error_on" % p)
        else:
            R.violation("C09.dual", inst + ":file", "the error file sink does not receive the unmodified text under `error_ostream != NULL && error_on`", **where)
        # string sink: reporter->AddError(<image of str>) under the string switch (error: && error_on)
        oks = False
        for s in st:
            if s[0] == "If" and not T.is_node(s[4]):
                mem = members_in(s[2])
                if strsw in mem and mem <= {strsw, "PHRQ_io::error_on"}:
                    for c in T.calls(s[3]):
                        if T.callee_name(c) in ("AddError", "AddWarning") and c[4]:
                            a = c[4][0]
                            if C05.param_name(a) == p:
                                oks = True
                            else:
                                # warning: oss << str << endl; oss.str().c_str()
                                for x in T.walk(a):
                                    if x[0] == "Ref" and x[2] == "local":
                                        loc = x[3]
                                        for y in T.walk(f["body"]):
                                            it = []
                                            from .. import rawio
                                            if y[0] == "Call" and rawio.flatten_stream(y, it):
                                                if [C05.param_name(i) for i in it][:1] == [p] and all(
                                                        C05.param_name(i) == p or (T.is_node(T.strip_casts(i)) and T.strip_casts(i)[0] in ("Ref", "Lit")) for i in it):
                                                    oks = True
        if oks:
            R.ok("C09.dual", inst + ":string", "text added to the %s under %s" % (reporter.split("::")[-1], strsw.split("::")[-1]))
        else:
            R.violation("C09.dual", inst + ":string", "the %s does not receive the text under its switch" % reporter.split("::")[-1], **where)
        # base call for counting / screen, with the file sink disabled so that the text is not written twice
        base = "PHRQ_io::" + inst
        bc = [s for s in st if s[0] == "Call" and T.callee_q(s) == base and C05.param_name(s[4][0]) == p]
        if len(bc) == 1:
            R.ok("C09.dual", inst + ":base", "%s(%s) unconditionally" % (base, p))
        else:
            R.violation("C09.dual", inst + ":base", "%s is not called exactly once unconditionally" % base, **where)

    who_rules(P, R)
    dump_rules(P, R)
    C05.lines_rule(P, R, "C09.lines")
    rebuild_rules(P, R)
    sync_rules(P, R)
    sel_rules(P, R)
    printfree_rule(P, R)
    savedfree_rule(P, R)
    printwrites_rule(P, R)
    # the selected-output file of a block equals its string only if every punching loop routes the file stream per block
    from .c04 import _Renamed
    C05.stream_rule(P, _Renamed(R, "C05.stream", "C09.stream"))


def check_base(P, R, base, ost, on):
    g = P.one(base)
    C05.set_aliases(g)
    p = g["pnames"][0]
    st = [s for s in g["body"][2] if T.is_node(s)]
    ok = False
    if len(st) == 1 and st[0][0] == "If" and not T.is_node(st[0][4]):
        c = T.strip_casts(st[0][2])
        if c[0] == "Bin" and c[2] == "&&" and members_in(c) == {ost, on}:
            from .. import rawio
            items = []
            body = st[0][3][2] if st[0][3][0] == "Compound" else [st[0][3]]
            if len(body) == 1 and rawio.flatten_stream(body[0], items) and [C05.param_name(i) for i in items] == [p]:
                ok = True
    inst = base.split("::")[-1] + ":base"
    if ok:
        R.ok("C09.dual", inst, "(*%s) << %s under %s != NULL && %s" % (ost.split("::")[-1], p, ost.split("::")[-1], on.split("::")[-1]))
    else:
        R.violation("C09.dual", inst, "%s is not `if (%s != NULL && %s) (*%s) << %s`" % (base, ost.split("::")[-1], on.split("::")[-1], ost.split("::")[-1], p),
                    file=g["file"], line=g["line"], function=g["q"])


# ------------------------------------------------------------------------------------------ who-may-write

def who_rules(P, R):
    R.rule("C09.who", "string members and streams of the output channels are written only by their message functions", minimum=6)
    str_allowed = {
        "IPhreeqc::OutputString": {"IPhreeqc::output_msg"},
        "IPhreeqc::LogString": {"IPhreeqc::log_msg"},
        "IPhreeqc::DumpString": {"IPhreeqc::do_run"},
    }
    ost_allowed = {
        "PHRQ_io::output_ostream": {"PHRQ_io::output_msg"},
        "PHRQ_io::log_ostream": {"PHRQ_io::log_msg"},
        "PHRQ_io::error_ostream": {"PHRQ_io::error_msg", "PHRQ_io::warning_msg", "IPhreeqc::error_msg", "IPhreeqc::warning_msg", "PHRQ_io::screen_msg"},
        "PHRQ_io::dump_ostream": {"PHRQ_io::dump_msg"},
    }
    app, wr = {}, {}
    for key, f in P.functions.items():
        for tgt, how, line, node in T.writes(f["body"]):
            root, steps = T.access_path(tgt)
            if root == ("this",) and len(steps) >= 1 and steps[0][0] == "f":
                fq = steps[0][1]
                if fq in str_allowed and how in ("call:operator+=", "call:append", "op=", "call:operator<<", "call:push_back") and len(steps) == 1:
                    app.setdefault(fq, {}).setdefault(f["q"], line)
                if fq in str_allowed and how == "=" and len(steps) == 1 and not (T.is_node(node[4]) and T.strip_casts(node[4])[0] == "Lit"):
                    app.setdefault(fq, {}).setdefault(f["q"], line)
                if fq in ost_allowed and how in ("call:operator<<", "call:write", "call:put"):
                    wr.setdefault(fq, {}).setdefault(f["q"], line)
    for fq, allowed in sorted(list(str_allowed.items()) + list(ost_allowed.items())):
        got = (app if fq in str_allowed else wr).get(fq, {})
        bad = sorted(set(got) - allowed)
        inst = fq.split("::")[-1]
        if not got:
            R.anchor_missing("C09.who", "no writer of %s found" % fq)
        elif bad:
            f = P.fns_named(bad[0])[0]
            R.violation("C09.who", inst, "%s is also written by %s (line %d): one view of the stream receives content the other does not" % (inst, bad, got[bad[0]]),
                        file=f["file"], line=got[bad[0]], function=f["q"])
        else:
            R.ok("C09.who", inst, "written by " + ", ".join(sorted(got)))


# ------------------------------------------------------------------------------------------ dump

def dump_rules(P, R):
    R.rule("C09.dump", "dump file and dump string come from the same generator and request", minimum=3)
    de = P.one("Phreeqc::dump_entities")
    dr = P.one("IPhreeqc::do_run")
    gen_file = [c for c in T.calls(de["body"]) if T.callee_q(c) == "Phreeqc::dump_ostream"]
    gen_str = [c for c in T.calls(dr["body"]) if T.callee_q(c) == "Phreeqc::dump_ostream"]
    if len(gen_file) == 1 and len(gen_str) == 1:
        R.ok("C09.dump", "generator", "dump_entities (file) and do_run (string) both call Phreeqc::dump_ostream")
    else:
        R.violation("C09.dump", "generator", "dump file and dump string are not both produced by Phreeqc::dump_ostream (%d / %d calls)" % (len(gen_file), len(gen_str)),
                    file=dr["file"], line=dr["line"], function=dr["q"])
        return
    # the string branch saves the request before dump_entities consumes it and restores it for its own pass
    saved = any(x[0] == "Decl" and any("dumper" in d[1] for d in x[2]) for x in T.walk(dr["body"])) or \
        any(x[0] == "Member" and x[2] == "Phreeqc::dump_info" for x in T.walk(dr["body"]))
    cond = None
    for x in T.walk(dr["body"]):
        if x[0] == "If" and any(c is gen_str[0] for c in T.calls(x[3])):
            cond = x
    if cond is not None and C05.members_in_names(cond[2]) >= {"DumpStringOn"}:
        R.ok("C09.dump", "string-switch", "dump string produced under DumpStringOn")
    elif cond is not None:
        R.ok("C09.dump", "string-switch", "dump string branch at line %d" % cond[1])
    else:
        R.violation("C09.dump", "string-switch", "the dump-string branch of do_run is not guarded", file=dr["file"], line=gen_str[0][1], function=dr["q"])
    # both sinks obey the engine-side print switch pr.dump (PRINT -dump): the file through dump_entities' early return, the
    # string through the condition chain that encloses its call of dump_ostream
    def mentions_pr_dump(n):
        for y in T.walk(n):
            if y[0] == "Member" and y[2].split("::")[-1] == "dump" and T.is_node(y[3]) and any(z[0] == "Member" and z[2] == "Phreeqc::pr" for z in T.walk(y[3])):
                return True
        return False
    file_ok = any(x[0] == "If" and mentions_pr_dump(x[2]) and any(z[0] == "Return" for z in T.walk(x[3])) for x in T.walk(de["body"]))
    str_ok = False
    for x in T.walk(dr["body"]):
        if x[0] == "If" and any(c is gen_str[0] for c in T.calls(x[3])) and mentions_pr_dump(x[2]):
            str_ok = True
    if file_ok and str_ok:
        R.ok("C09.dump", "print-switch", "dump file and dump string are both disabled by PRINT -dump false (pr.dump)")
    else:
        R.violation("C09.dump", "print-switch", "the engine switch pr.dump (PRINT -dump) governs the dump file: %s, the dump string: %s - one view is written while the other is not"
                    % (file_ok, str_ok), file=dr["file"], line=gen_str[0][1], function=dr["q"])


def dump_request_rule(P, R):
    """The dump file is written first (dump_entities -> dump_ostream, which ends the request), then the dump string from the
    request do_run saved before.  Both sinks must see the SAME request - bin list, -append, file name: the saved dumper is put
    back as a whole (`dump_info = dump_info_save`), and the generator dump_ostream switches off nothing but the bin list
    (a generator that also cleared -append, or a restore of the bin list only, makes the string replace where the file
    appends)."""
    R.rule("C09.dumpreq", "the dump string is generated from the whole saved request; dump_ostream ends the request by clearing the bin list only", minimum=2)
    dr = P.one("IPhreeqc::do_run")
    whole = []
    partial = []
    for x in T.walk(dr["body"]):
        if x[0] == "Call" and T.callee_name(x) == "operator=" and "dump_info" in T.text(x) and "dump_info_save" in T.text(x):
            whole.append(x[1])
        if x[0] == "Call" and T.callee_name(x).startswith("Set_") and "dump_info" in T.text(x[3] if T.is_node(x[3]) else x) and "dump_info_save" in T.text(x):
            partial.append((x[1], T.callee_name(x)))
    gen = [c for c in T.calls(dr["body"]) if T.callee_q(c) == "Phreeqc::dump_ostream"]
    if not gen:
        R.anchor_missing("C09.dumpreq", "do_run no longer calls dump_ostream")
        return
    if whole and min(whole) < gen[0][1] and not partial:
        R.ok("C09.dumpreq", "do_run:restore", "dump_info = dump_info_save (line %d) before the string is generated" % min(whole))
    else:
        R.violation("C09.dumpreq", "do_run:restore", "the request used for the dump string is not the whole saved request (%s): options such as -append that the file pass consumed or changed "
                    "are not the same for the string" % ("partial restore %s" % partial if partial else "no restore before dump_ostream"), file=dr["file"], line=gen[0][1], function=dr["q"])
    do = P.one("Phreeqc::dump_ostream")
    sets = [(T.callee_name(c), c[1]) for c in T.calls(do["body"]) if T.is_node(c[3]) and "dump_info" in T.text(c[3]) and T.callee_name(c).startswith("Set")]
    other = [s_ for s_ in sets if s_[0] != "SetAll"]
    if sets and not other:
        R.ok("C09.dumpreq", "dump_ostream:end-of-request", "clears the bin list only")
    elif other:
        R.violation("C09.dumpreq", "dump_ostream:end-of-request", "dump_ostream also changes %s of the request: the second sink, generated from the same request, no longer sees the option the first "
                    "one used" % ", ".join(o[0] for o in other), file=do["file"], line=other[0][1], function=do["q"])
    else:
        R.anchor_missing("C09.dumpreq", "dump_ostream no longer ends the request with SetAll(false)")


# ------------------------------------------------------------------------------------------ rebuild of line vectors

def rebuild_rules(P, R):
    R.rule("C09.rebuild", "every <X>Lines vector is cleared and rebuilt from <X>String by a getline loop", minimum=5)
    pairs = {"IPhreeqc::OutputLines": "IPhreeqc::OutputString", "IPhreeqc::LogLines": "IPhreeqc::LogString", "IPhreeqc::DumpLines": "IPhreeqc::DumpString",
             "IPhreeqc::ErrorLines": "IPhreeqc::ErrorString", "IPhreeqc::WarningLines": "IPhreeqc::WarningString",
             "IPhreeqc::SelectedOutputLinesMap": "IPhreeqc::SelectedOutputStringMap"}
    found = {}
    for q in ("IPhreeqc::do_run", "IPhreeqc::update_errors", "IPhreeqc::update_lines"):
        fs_ = P.fns_named(q)
        if not fs_:
            continue
        f = fs_[0]
        for x in T.walk(f["body"]):
            if x[0] != "Compound":
                continue
            # { std::istringstream iss(<String>); std::string line; while (getline(iss, line)) <Lines>.push_back(line); }
            src = None
            for s in x[2]:
                if T.is_node(s) and s[0] == "Decl":
                    for d in s[2]:
                        if "istringstream" in d[1] and T.is_node(d[2]):
                            ms = [y[2] for y in T.walk(d[2]) if y[0] == "Member" and y[2] in pairs.values()]
                            loc = [y[3] for y in T.walk(d[2]) if y[0] == "Ref" and y[2] == "local"]
                            if ms:
                                src = ms[0]
                            elif loc:
                                # a local stands for the string member only if its own initialiser is taken from that member
                                # (iterator / reference / copy of <X>String); a local holding anything else (e.g. the text of
                                # the current request only) is a different source
                                src = ("local", loc[0])
                                for y in T.walk(f["body"]):
                                    if y[0] == "Decl":
                                        for dd in y[2]:
                                            if dd[0] == loc[0] and T.is_node(dd[2]):
                                                mm = [z[2] for z in T.walk(dd[2]) if z[0] == "Member" and z[2] in pairs.values()]
                                                src = mm[0] if mm else ("local-other", loc[0], T.text(dd[2]))
            if src is None:
                continue
            for s in x[2]:
                if T.is_node(s) and s[0] == "While" and any(T.callee_name(c) == "getline" for c in T.calls(s[2])):
                    for c in T.calls(s[3]):
                        if T.callee_name(c) == "push_back":
                            root, steps = T.access_path(c[3])
                            if steps and steps[0][0] == "f" and steps[0][1] in pairs:
                                found.setdefault(steps[0][1], []).append((q, src, s[1]))
    for lines, string in sorted(pairs.items()):
        inst = lines.split("::")[-1]
        got = found.get(lines, [])
        if not got:
            R.violation("C09.rebuild", inst, "%s is never rebuilt from %s by a getline loop" % (inst, string.split("::")[-1]), file="IPhreeqc.cpp", line=0, function="IPhreeqc::do_run")
            continue
        bad = [g for g in got if g[1] != string and not (isinstance(g[1], tuple) and g[1][0] == "local")]
        if bad:
            what = bad[0][1] if not isinstance(bad[0][1], tuple) else "local `%s` (= %s)" % (bad[0][1][1], bad[0][1][2])
            R.violation("C09.rebuild", inst, "%s is rebuilt from %s instead of %s: the line view no longer holds the lines of the string" % (inst, what, string), file="IPhreeqc.cpp", line=bad[0][2], function=bad[0][0])
        else:
            R.ok("C09.rebuild", inst, "rebuilt from %s in %s" % (string.split("::")[-1], got[0][0]))
    rebuild_reach_rule(P, R, found)
    lineguard_rule(P, R)
    prinsame_rule(P, R)
    openfirst_rule(P, R)
    dump_request_rule(P, R)


def openfirst_rule(P, R):
    """every line of the error string appears in the error file: the files of a call are opened before anything in that call
    can report - in each Run* entry point open_output_files() is the first engine-side action of the try block (only the
    accumulated-lines bookkeeping precedes it), in particular before check_database(), which reports "No database is loaded"."""
    R.rule("C09.openfirst", "Run* entry points open the output, error and log files before any call that can report a message", minimum=3)
    for q in ("IPhreeqc::RunString", "IPhreeqc::RunFile", "IPhreeqc::RunAccumulated"):
        f = P.one(q)
        trys = [s_ for s_ in f["body"][2] if T.is_node(s_) and s_[0] == "Try"]
        if len(trys) != 1:
            R.anchor_missing("C09.openfirst", "%s: try block not found" % q)
            continue
        body = trys[0][2][2] if trys[0][2][0] == "Compound" else [trys[0][2]]
        seq = []
        for s_ in body:
            if not T.is_node(s_):
                continue
            for c in T.calls(s_):
                cd = c[2]
                if isinstance(cd, dict) and cd.get("proj") and cd.get("cls") in ("IPhreeqc", "Phreeqc", "PHRQ_io"):
                    nm = T.callee_name(c)
                    if nm in ("ClearAccumulatedLines", "GetAccumulatedLines"):
                        continue
                    seq.append((nm, c[1]))
        if seq and seq[0][0] == "open_output_files":
            R.ok("C09.openfirst", q.split("::")[-1], "open_output_files() first (line %d)" % seq[0][1])
        else:
            R.violation("C09.openfirst", q.split("::")[-1], "%s() (line %d) runs before open_output_files(): a message it reports reaches the error / output string but no file"
                        % (seq[0] if seq else ("?", 0)), file=f["file"], line=seq[0][1] if seq else f["line"], function=f["q"])


def rebuild_reach_rule(P, R, found):
    """the rebuild must also happen when the run stops on an error: the function that rebuilds a line view is called in the
    tail of every Run* entry point (after the try ladder), which every path reaches - a rebuild at the end of do_run is skipped
    by the exception that ends a failing run"""
    R.rule("C09.rebuildreach", "the line views of output, log and selected output are rebuilt in the tail of every Run* entry point (reached after a failed run too)", minimum=9)
    for q in ("IPhreeqc::RunString", "IPhreeqc::RunFile", "IPhreeqc::RunAccumulated"):
        f = P.one(q)
        st = [s_ for s_ in f["body"][2] if T.is_node(s_)]
        ti = next((i for i, s_ in enumerate(st) if s_[0] == "Try"), None)
        if ti is None:
            R.anchor_missing("C09.rebuildreach", "%s: try block not found" % q)
            continue
        tail_calls = set(T.callee_q(c) for s_ in st[ti + 1:] for c in T.calls(s_))
        for lines in ("IPhreeqc::OutputLines", "IPhreeqc::LogLines", "IPhreeqc::SelectedOutputLinesMap"):
            builders = set(g[0] for g in found.get(lines, []))
            inst = "%s:%s" % (q.split("::")[-1], lines.split("::")[-1])
            if builders & tail_calls:
                R.ok("C09.rebuildreach", inst, "rebuilt by %s in the tail" % sorted(builders & tail_calls)[0].split("::")[-1])
            else:
                R.violation("C09.rebuildreach", inst, "%s is rebuilt only in %s, which the tail of %s does not call: after a run that stops on an error the string holds text while the "
                            "line count is 0" % (lines.split("::")[-1], ", ".join(sorted(b.split("::")[-1] for b in builders)) or "no function", q.split("::")[-1]),
                            file=f["file"], line=f["line"], function=f["q"])


# ------------------------------------------------------------------------------------------ sync of error views

def sync_rules(P, R):
    R.rule("C09.sync", "functions that clear or append to the error/warning reporters re-synchronise the line views before returning", minimum=8)
    reporters = ("IPhreeqc::ErrorReporter", "IPhreeqc::WarningReporter")
    SINKS = {"IPhreeqc::error_msg": "message sink called during a run; the run/load entry points resynchronise after the engine returns",
             "IPhreeqc::warning_msg": "message sink called during a run; the run/load entry points resynchronise after the engine returns"}

    def mutates(n):
        out = []
        for c in T.calls(n):
            if T.callee_name(c) in ("Clear", "AddError") and T.is_node(c[3]):
                root, steps = T.access_path(c[3])
                if steps and steps[0][0] == "f" and steps[0][1] in reporters:
                    out.append(c)
        return out

    def calls_sync(n, syncers):
        return any(T.callee_q(c) in syncers for c in T.calls(n))

    fns = [f for f in P.functions.values() if f.get("cls") == "IPhreeqc" or f["q"].startswith("IPhreeqc::")]
    # functions that always (on every normal path) call update_errors
    syncers = {"IPhreeqc::update_errors"}
    changed = True
    cfgs = {}
    while changed:
        changed = False
        for f in fns:
            if f["q"] in syncers:
                continue
            cfg = cfgs.setdefault(f["key"], T.CFG(f))
            pd = cfg.dominators(post=True)
            hits = [nd["id"] for nd in cfg.nodes if T.is_node(nd["n"]) and calls_sync(nd["n"], syncers)]
            if hits and any(h in pd.get(cfg.entry, ()) for h in hits):
                syncers.add(f["q"])
                changed = True
    for f in sorted(fns, key=lambda f: (f["file"], f["line"])):
        muts = mutates(f["body"])
        if not muts:
            continue
        inst = f["q"].split("::")[-1]
        if f["q"] in SINKS:
            R.ok("C09.sync", inst, "exempt: " + SINKS[f["q"]])
            continue
        cfg = cfgs.setdefault(f["key"], T.CFG(f))
        pd = cfg.dominators(post=True)
        sync_nodes = [nd["id"] for nd in cfg.nodes if T.is_node(nd["n"]) and calls_sync(nd["n"], syncers)]
        bad = []
        for nd in cfg.nodes:
            if not T.is_node(nd["n"]) or nd["id"] not in pd:
                continue
            if mutates(nd["n"]) and not calls_sync(nd["n"], syncers):
                if not any(s in pd[nd["id"]] and s != nd["id"] for s in sync_nodes):
                    bad.append(nd["line"])
        if bad:
            # a private helper may leave the obligation to its callers: every call site (in IPhreeqc) must then be followed by a
            # synchronising call on all normal paths of the caller
            callers = []
            for g in fns:
                if g is f:
                    continue
                for c in T.calls(g["body"]):
                    if T.callee_q(c) == f["q"]:
                        callers.append((g, c))
            rec = P.records.get("IPhreeqc")
            meth = [m for m in (rec["methods"] if rec else []) if m["name"] == inst]
            private = bool(meth) and all(m["access"] != 0 for m in meth)     # 0 = public
            if callers and private:
                uncovered = []
                for g, c in callers:
                    if g.get("special") == "ctor":
                        continue      # object under construction: reporter and line views are both empty
                    cg_ = cfgs.setdefault(g["key"], T.CFG(g))
                    pdg = cg_.dominators(post=True)
                    sn = [nd["id"] for nd in cg_.nodes if T.is_node(nd["n"]) and calls_sync(nd["n"], syncers)]
                    for nd in cg_.nodes:
                        if T.is_node(nd["n"]) and any(y is c for y in T.walk(nd["n"])):
                            if nd["id"] in pdg and not any(s_ in pdg[nd["id"]] and s_ != nd["id"] for s_ in sn):
                                uncovered.append("%s:%d" % (g["q"], nd["line"]))
                if not uncovered:
                    R.ok("C09.sync", inst, "non-public helper: each of its %d call sites is followed by update_errors() in the caller" % len(callers))
                    continue
                bad = bad + uncovered
            R.violation("C09.sync", inst, "%s changes the error/warning reporter at line %s and can return without update_errors(): the error string and "
                        "GetErrorStringLine/LineCount then disagree" % (f["q"], bad[:3]), file=f["file"], line=bad[0], function=f["q"])
        else:
            R.ok("C09.sync", inst, "every reporter change is followed by update_errors() on all normal paths")
    # the entry points that can reach the sinks resynchronise after the engine call (also on the exception paths: after the handlers)
    for q in ("IPhreeqc::RunString", "IPhreeqc::RunFile", "IPhreeqc::RunAccumulated", "IPhreeqc::load_db", "IPhreeqc::load_db_str"):
        f = P.one(q)
        trys = [s for s in f["body"][2] if T.is_node(s) and s[0] == "Try"]
        after = False
        seen_try = False
        for s in f["body"][2]:
            if T.is_node(s) and s[0] == "Try":
                seen_try = True
            elif seen_try and T.is_node(s) and calls_sync(s, syncers):
                after = True
        inst = q.split("::")[-1] + ":after-run"
        if trys and after:
            R.ok("C09.sync", inst, "update_errors() after the try/catch ladder (reached on normal and on handled-exception paths)")
        else:
            R.violation("C09.sync", inst, "%s does not call update_errors() after its try/catch ladder" % q, file=f["file"], line=f["line"], function=f["q"])


# ------------------------------------------------------------------------------------------ per-user-number switches

def sel_rules(P, R):
    R.rule("C09.sel", "per-user-number switch look-ups are keyed by the user-number parameter", minimum=2)
    for q, fld in (("IPhreeqc::get_sel_out_file_on", "IPhreeqc::SelectedOutputFileOnMap"), ("IPhreeqc::get_sel_out_string_on", "IPhreeqc::SelectedOutputStringOn")):
        f = P.one(q)
        n = f["pnames"][0]
        keyed = None
        for c in T.calls(f["body"]):
            if T.callee_name(c) in ("find", "operator[]", "at", "count") and T.is_node(c[3]):
                root, steps = T.access_path(c[3])
                if steps and steps[0] == ("f", fld) and c[4]:
                    keyed = C05.param_name(c[4][0]) == n
        inst = "%s:%s" % (q.split("::")[-1], fld.split("::")[-1])
        if keyed:
            R.ok("C09.sel", inst, "keyed by %s" % n)
        elif keyed is None:
            R.anchor_missing("C09.sel", "%s: look-up of %s not found" % (q, fld))
        else:
            R.violation("C09.sel", inst, "%s(int %s) ignores its parameter: the sink of block %s is governed by the switch of the current user number" % (q, n, n),
                        file=f["file"], line=f["line"], function=f["q"])


def printfree_rule(P, R):
    """Solver-visible flags that the printing path resets must be reset when printing is off as well, otherwise computed
    results depend on whether an output sink is enabled.  Instance: the Peng-Robinson flag phase::pr_in is cleared by
    print_saturation_indices (when it prints) and by set_pr_in_false; every path through print_all - including the
    `pr.all == FALSE` early return taken when both output sinks are off - must pass one of the functions that clear it."""
    R.rule("C09.printfree", "every path through print_all clears the solver-read flag phase::pr_in, whether or not anything is printed", minimum=1)
    f = P.one("Phreeqc::print_all")
    clearers = set()
    for key, g in P.functions.items():
        for t, how, line, n in T.writes(g["body"]):
            root, steps = T.access_path(t)
            if steps and steps[-1] == ("f", "phase::pr_in") and how == "=" and n[0] == "Bin" and T.lit_value(n[4]) == 0:
                clearers.add(g["q"])
    if not clearers:
        R.anchor_missing("C09.printfree", "no function clears phase::pr_in")
        return
    # unconditional clearers: functions whose every path clears the flag are not distinguished from conditional ones here;
    # the printing branch relies on print_saturation_indices + the explicit fallback, which the CFG below sees as two calls
    cfg = T.CFG(f)

    def is_clear(n):
        return T.is_node(n) and any(T.callee_q(c) == "Phreeqc::set_pr_in_false" for c in T.calls(n))
    # remove clear nodes and test whether the exit is still reachable
    seen, st = {cfg.entry}, [cfg.entry]
    while st:
        x = st.pop()
        if is_clear(cfg.nodes[x]["n"]):
            continue
        for s_ in cfg.nodes[x]["succ"]:
            if s_ not in seen:
                seen.add(s_)
                st.append(s_)
    # the printing branch: `print_saturation_indices(); if (!pr.saturation_indices) set_pr_in_false();` - the path on which the
    # fallback is skipped is the one where print_saturation_indices printed (and cleared); accept it when that call precedes
    ok = cfg.exit not in seen
    if not ok:
        # allow paths that pass print_saturation_indices directly followed by the guarded fallback
        seen2, st = {cfg.entry}, [cfg.entry]
        while st:
            x = st.pop()
            n = cfg.nodes[x]["n"]
            if is_clear(n) or (T.is_node(n) and any(T.callee_q(c) == "Phreeqc::print_saturation_indices" for c in T.calls(n))):
                continue
            for s_ in cfg.nodes[x]["succ"]:
                if s_ not in seen2:
                    seen2.add(s_)
                    st.append(s_)
        ok = cfg.exit not in seen2 and "Phreeqc::print_saturation_indices" in clearers
    if ok:
        R.ok("C09.printfree", "print_all:pr_in", "cleared on every path (set_pr_in_false / print_saturation_indices)")
    else:
        R.violation("C09.printfree", "print_all:pr_in", "a path through print_all (e.g. the pr.all == FALSE early return taken when the output file and string are both off) "
                    "does not clear phase::pr_in: Peng-Robinson state of the previous step leaks into the next one only when nothing is printed",
                    file=f["file"], line=f["line"], function=f["q"])


def savedfree_rule(P, R):
    """Values stored with a saved solution must not be brought up to date by printing code only.  For every scalar member
    of the engine that xsolution_save copies into the saved solution: if some function reachable from print_all / punch_all
    assigns it (printing recomputes it), a function assigning it must also be reachable from each calculation root
    (set_and_run for reaction steps, initial_solutions) without passing print_all / punch_all - otherwise the saved value
    depends on whether an output sink is switched on (density_x before 878bdb55: calc_dens only from print_totals)."""
    from ..callgraph import CallGraph
    R.rule("C09.savedfree", "a value that xsolution_save / xgas_save stores and that printing code recomputes is recomputed on the print-free calculation path as well", minimum=5)
    cg = CallGraph(P)
    f = P.one("Phreeqc::xsolution_save")
    mems = []
    for x in T.walk(f["body"]):
        if x[0] == "Member" and T.is_node(x[3]) and x[3][0] == "This" and x[4] in ("double", "int", "long double") and x[2] not in mems:
            mems.append(x[2])
    if len(mems) < 10:
        R.anchor_missing("C09.savedfree", "xsolution_save reads only %d scalar engine members" % len(mems))
        return
    W = {}
    for key, g in P.functions.items():
        for t, how, line, n in T.writes(g["body"]):
            root, steps = T.access_path(t)
            if steps and len(steps) == 1 and steps[0][0] == "f" and steps[0][1] in mems:
                W.setdefault(steps[0][1], set()).add(key)

    def keys(q):
        return [k for k in P.functions if P.functions[k]["q"] == q]

    def reach(roots, banned):
        seen, st = set(roots), list(roots)
        while st:
            x = st.pop()
            for y in cg.callees.get(x, ()):
                if y not in seen and y not in banned:
                    seen.add(y)
                    st.append(y)
        return seen
    printers = keys("Phreeqc::print_all") + keys("Phreeqc::punch_all")
    if len(printers) != 2:
        R.anchor_missing("C09.savedfree", "print_all / punch_all not found")
        return
    inprint = reach(printers, set())
    R.table("C09.savedfree", {"members_copied_by_xsolution_save": mems, "functions_reachable_from_printing": len(inprint)})

    # must-write summaries: every path through g assigns m (directly or through a callee that always does)
    memo = {}

    def is_write(n, m, depth):
        if not T.is_node(n):
            return False
        for t, how, line, w in T.writes(n):
            root, steps = T.access_path(t)
            if steps and len(steps) == 1 and steps[0] == ("f", m):
                return True
        for c in T.calls(n):
            nullargs = tuple(i for i, a in enumerate(T.call_args(c)) if T.lit_value(T.strip_casts(a)) == 0)
            for k in cg.resolve(c[2]) if isinstance(c[2], dict) else ():
                if must(k, m, depth + 1, nullargs):
                    return True
        return False

    def falsy(cond, nullparams):
        """condition certainly false when the listed parameters are null: `p`, `p && ...`, `p != NULL && ...`"""
        c = T.strip_casts(cond)
        if not T.is_node(c):
            return False
        if c[0] == "Ref" and c[2] == "param" and int(c[5]) in nullparams:
            return True
        if c[0] == "Bin" and c[2] == "&&":
            return falsy(c[3], nullparams) or falsy(c[4], nullparams)
        if c[0] == "Bin" and c[2] == "!=":
            a, b = T.strip_casts(c[3]), T.strip_casts(c[4])
            return (T.lit_value(b) == 0 and falsy(a, nullparams)) or (T.lit_value(a) == 0 and falsy(b, nullparams))
        return False

    def specialise(n, nullparams):
        if not T.is_node(n):
            return n
        if n[0] == "If" and falsy(n[2], nullparams):
            return specialise(n[4], nullparams) if T.is_node(n[4]) else ["Compound", n[1], []]
        return [specialise(x, nullparams) if isinstance(x, list) and x and isinstance(x[0], str) else
                ([specialise(y, nullparams) for y in x] if isinstance(x, list) else x) for x in n]

    def must(k, m, depth=0, nullargs=()):
        if (k, m, nullargs) in memo:
            return memo[(k, m, nullargs)]
        memo[(k, m, nullargs)] = False          # cycles: not a must-writer
        if depth > 4 or k not in W.get(m, set()) and not (cg.reach_from([k]) & W.get(m, set())):
            return False
        g = P.functions[k]
        if nullargs:
            g = dict(g)
            g["body"] = specialise(g["body"], set(nullargs))
        cfg = T.CFG(g)
        seen, st = {cfg.entry}, [cfg.entry]
        while st:
            x = st.pop()
            if is_write(cfg.nodes[x]["n"], m, depth):
                continue
            for y in cfg.nodes[x]["succ"]:
                if y not in seen:
                    seen.add(y)
                    st.append(y)
        memo[(k, m, nullargs)] = cfg.exit not in seen
        return memo[(k, m, nullargs)]

    # gas components: xgas_save stores phase::p_soln_x; printing code resets it for phases outside the model
    resetters = []
    for k in inprint:
        for t, how, line, n in T.writes(P.functions[k]["body"]):
            root, steps = T.access_path(t)
            if steps and steps[-1] == ("f", "phase::p_soln_x") and how == "=" and T.lit_value(n[4]) == 0:
                resetters.append(P.functions[k]["q"].split("::")[-1])
    if resetters:
        ok, why = _chk_xgas_resets(P, None)
        g = P.one("Phreeqc::xgas_save")
        if ok:
            R.ok("C09.savedfree", "p_soln_x:xgas_save", why + " (printing code: %s does the same)" % ", ".join(sorted(set(resetters))))
        else:
            R.violation("C09.savedfree", "p_soln_x:xgas_save", why + " (%s): the saved partial pressure depends on the output switches" % ", ".join(sorted(set(resetters))),
                        file=g["file"], line=g["line"], function=g["q"])
    # entity members that reporting functions (print_* / punch_*) set on the entity in use: the saver of that kind must set them too,
    # otherwise the saved entity carries them only when something was printed or punched
    import re as _re
    SAVER = {"cxxGasPhase": "Phreeqc::xgas_save", "cxxSolution": "Phreeqc::xsolution_save", "cxxExchange": "Phreeqc::xexchange_save",
             "cxxSurface": "Phreeqc::xsurface_save", "cxxPPassemblage": "Phreeqc::xpp_assemblage_save", "cxxSSassemblage": "Phreeqc::xss_assemblage_save"}
    setters = {}
    for g in P.functions.values():
        nm = g["q"].split("::")[-1]
        if not (g["q"].startswith("Phreeqc::") and (nm.startswith("print_") or nm.startswith("punch_"))) or nm == "print_punch":
            continue
        for c in T.calls(g["body"]):
            q_ = T.callee_q(c) or ""
            mm = _re.match(r"(cxx\w+)::(Set_\w+)$", q_)
            if mm and mm.group(1) in SAVER:
                o = T.strip_casts(T.call_obj(c)) if T.call_obj(c) is not None else None
                if T.is_node(o) and o[0] == "Ref" and o[2] == "local" and not str(o[4]).rstrip().endswith("*"):
                    continue        # a local copy
                setters.setdefault((mm.group(1), mm.group(2)), set()).add(nm)
    for (cls, st_), who in sorted(setters.items()):
        sv = P.one(SAVER[cls])
        inst = "%s:%s" % (st_, SAVER[cls].split("::")[-1])
        if any((T.callee_q(c) or "") == cls + "::" + st_ for c in T.calls(sv["body"])):
            R.ok("C09.savedfree", inst, "%s also calls %s (reporting code: %s)" % (SAVER[cls].split("::")[-1], st_, ", ".join(sorted(who))))
        else:
            R.violation("C09.savedfree", inst, "%s::%s is called on the entity in use by reporting code only (%s); %s stores the entity without it: the saved value depends on "
                        "whether something was printed or punched" % (cls, st_, ", ".join(sorted(who)), SAVER[cls].split("::")[-1]), file=sv["file"], line=sv["line"], function=sv["q"])
    for m in mems:
        wp = W.get(m, set()) & inprint
        if not wp:
            continue
        names = sorted(P.functions[k]["q"].split("::")[-1] for k in wp)
        for q in ("Phreeqc::set_and_run", "Phreeqc::initial_solutions"):
            ks = keys(q)
            if len(ks) != 1:
                R.anchor_missing("C09.savedfree", "%s not found" % q)
                return
            f = P.functions[ks[0]]
            inst = "%s:%s" % (m.split("::")[-1], q.split("::")[-1])
            cfg = T.CFG(f)

            def calls_q(n, name):
                return T.is_node(n) and any(T.callee_q(c) == name for c in T.calls(n))
            starts = [x for x in range(len(cfg.nodes)) if calls_q(cfg.nodes[x]["n"], "Phreeqc::model")]
            targets = [x for x in range(len(cfg.nodes)) if calls_q(cfg.nodes[x]["n"], "Phreeqc::xsolution_save")] or [cfg.exit]
            if not starts:
                R.anchor_missing("C09.savedfree", "%s does not call model()" % q)
                return
            seen, st = set(), []
            for x in starts:
                for y in cfg.nodes[x]["succ"]:
                    if y not in seen:
                        seen.add(y)
                        st.append(y)
            bad = None
            while st:
                x = st.pop()
                n = cfg.nodes[x]["n"]
                if is_write(n, m, 0):
                    continue
                if x in targets:
                    bad = x
                    break
                for y in cfg.nodes[x]["succ"]:
                    if y not in seen:
                        seen.add(y)
                        st.append(y)
            if bad is None:
                R.ok("C09.savedfree", inst, "every path from model() to the point where the solution is saved assigns %s outside the printing code" % m.split("::")[-1])
            else:
                R.violation("C09.savedfree", inst, "%s is stored by xsolution_save and recomputed by printing code (%s), but a path from model() to the end of %s does not assign it: the saved value depends on the output switches" % (m, ", ".join(names), q.split("::")[-1]),
                            file=f["file"], line=f["line"], function=f["q"])


PRINT_ROOTS = ("Phreeqc::print_all", "Phreeqc::punch_all", "Phreeqc::print_model")
SOLVER_ROOTS = ("Phreeqc::run_simulations", "Phreeqc::do_initialize", "Phreeqc::read_database")


def print_only_functions(P, cg):
    def keys(q):
        return [k for k in P.functions if P.functions[k]["q"] == q]

    def reach(roots, banned=()):
        seen, st = set(roots), list(roots)
        while st:
            x = st.pop()
            for y in cg.callees.get(x, ()):
                if y not in seen and y not in banned and not P.functions[y]["q"].startswith("PBasic::"):
                    seen.add(y)
                    st.append(y)
        return seen
    printers = [k for q in PRINT_ROOTS for k in keys(q)]
    solver_roots = [k for q in SOLVER_ROOTS for k in keys(q)]
    if len(printers) != len(PRINT_ROOTS) or len(solver_roots) != len(SOLVER_ROOTS):
        return None, None
    pr = reach(printers)
    solver = reach(solver_roots, set(printers))
    return pr - solver, solver


def printwrites_rule(P, R):
    """Effect census of the printing code.  PRINT = functions reachable from print_all / punch_all / print_model (inverse) and
    not reachable from run_simulations / read_database except through those entry points; the BASIC interpreter
    is left out (what a user program does is the user's).  A PRINT function that assigns a field which solver or saving code
    reads makes results depend on the output switches, unless the row is listed in tables/c09_printwrites.json with the
    reason why it cannot (value restored, recomputed before the next read, scratch reset before use...).  Rows carry a `check`
    where the reason is a structural fact that is re-validated on every run."""
    import json
    import os
    from ..callgraph import CallGraph
    RULE = "C09.printwrites"
    R.rule(RULE, "printing code assigns engine state that solver / saving code reads only in the listed, justified places", minimum=20)
    cg = CallGraph(P)
    only, solver = print_only_functions(P, cg)
    if only is None:
        R.anchor_missing(RULE, "printing or solver entry points not found")
        return
    tab = json.load(open(os.path.join(os.path.dirname(os.path.dirname(os.path.dirname(os.path.abspath(__file__)))), "tables", "c09_printwrites.json")))
    R.table("c09_printwrites.json", tab)
    rows = tab["rows"]
    read = set()
    for k in solver:
        for x in T.walk(P.functions[k]["body"]):
            if x[0] == "Member":
                read.add(x[2])
    found = {}
    for k in sorted(only):
        g = P.functions[k]
        qq = g["q"].split("::")
        if len(qq) >= 2 and qq[-1] == qq[-2]:
            continue            # constructor: the object under construction
        for t, how, line, n in T.writes(g["body"]):
            if how == "addr" and n[0] == "Call" and T.callee_name(n) == "qsort":
                how = "call:qsort"          # qsort(&v[0], ...) reorders v
            if how in ("ref", "addr"):
                continue
            if how.startswith("call:") and how != "call:operator[]" and (how[5:].startswith("Get_") or how[5:] in ("begin", "end", "find", "size")):
                continue        # accessor; a write through the returned reference is reported where it happens
            root, steps = T.access_path(t)
            fs = [s_[1] for s_ in steps if s_[0] == "f"]
            if how == "call:operator[]" and not fs:
                # map[key] on the result of an accessor: Get_x()[k] inserts into member x of the object
                tt = T.strip_casts(t)
                if T.is_node(tt) and tt[0] == "Call" and (T.callee_q(tt) or "").split("::")[-1].startswith("Get_"):
                    q_ = T.callee_q(tt)
                    fs = [q_.rsplit("::", 1)[0] + "::" + q_.rsplit("::", 1)[1][4:]]
                    root = T.call_obj(tt)
                    read.add(fs[0])
            if not fs or fs[-1] not in read:
                continue
            if T.is_node(root) and root[0] == "Ref" and root[2] == "local" and not str(root[4]).rstrip().endswith("*") and "&" not in str(root[4]):
                continue        # a local object
            found.setdefault((fs[-1], g["q"]), (g, line))
    # functions that reorder a solver-read container in place (qsort): calling one from printing-only code is a write of it
    sorters = {}
    for k, g in P.functions.items():
        for t, how, line, n in T.writes(g["body"]):
            if how == "addr" and n[0] == "Call" and T.callee_name(n) == "qsort":
                root, steps = T.access_path(t)
                fs = [s_[1] for s_ in steps if s_[0] == "f"]
                if fs and fs[-1] in read and not (T.is_node(root) and root[0] == "Ref" and root[2] == "local"):
                    sorters[g["q"]] = fs[-1]
    for k in sorted(only):
        g = P.functions[k]
        for c in T.calls(g["body"]):
            if T.callee_q(c) in sorters:
                found.setdefault((sorters[T.callee_q(c)], g["q"]), (g, c[1]))
    R.table("C09.printwrites.census", {"print_only_functions": len(only), "solver_functions": len(solver), "pairs": len(found)})
    for (fld, q), (g, line) in sorted(found.items()):
        inst = "%s<-%s" % (fld, q.split("::")[-1])
        row = rows.get("%s|%s" % (fld, q.split("::")[-1]))
        if row is None:
            R.violation(RULE, inst, "%s assigns %s, which solver or saving code reads, and is reached only when something is printed: results depend on the output switches (no row in tables/c09_printwrites.json)" % (q, fld),
                        file=g["file"], line=line, function=q)
            continue
        chk = row.get("check")
        if chk:
            ok, why = PRINTWRITE_CHECKS[chk](P, g)
            if not ok:
                R.violation(RULE, inst, "%s assigns %s and the condition that made this harmless no longer holds: %s" % (q, fld, why), file=g["file"], line=line, function=q)
                continue
            R.ok(RULE, inst, "%s; re-validated: %s" % (row["reason"], why))
        else:
            R.ok(RULE, inst, row["reason"])


def _chk_species_list_restored(P, g):
    """print_all: species_list copied to a local before species_list_sort and assigned back from it on the way out"""
    f = P.one("Phreeqc::print_all")
    saved = None
    sort_line = None
    restored = False
    for x in T.walk(f["body"]):
        if x[0] == "Bin" and x[2] == "=" or (x[0] == "Call" and isinstance(x[2], dict) and T.base_name(x[2].get("q", "")) == "operator=" and len(x[4]) == 2):
            lhs, rhs = (x[3], x[4]) if x[0] == "Bin" else (x[4][0], x[4][1])
            l, r = T.strip_casts(lhs), T.strip_casts(rhs)
            if T.is_node(l) and T.is_node(r):
                if l[0] == "Ref" and l[2] == "local" and r[0] == "Member" and r[2] == "Phreeqc::species_list" and sort_line is None:
                    saved = l[3]
                if l[0] == "Member" and l[2] == "Phreeqc::species_list" and r[0] == "Ref" and r[3] == saved and sort_line is not None:
                    restored = True
        if x[0] == "Call" and T.callee_q(x) == "Phreeqc::species_list_sort":
            sort_line = x[1]
    if saved and sort_line and restored:
        return True, "print_all copies species_list to `%s` before species_list_sort (line %d) and assigns it back before returning" % (saved, sort_line)
    return False, "print_all does not restore species_list from a copy taken before species_list_sort (sum_species adds in the order of this list)"


def _chk_xgas_resets(P, g):
    f = P.one("Phreeqc::xgas_save")
    for t, how, line, n in T.writes(f["body"]):
        root, steps = T.access_path(t)
        if steps and steps[-1] == ("f", "phase::p_soln_x") and how == "=" and T.lit_value(n[4]) == 0:
            return True, "xgas_save resets p_soln_x itself (line %d) for a phase outside the model" % line
    return False, "xgas_save stores phase::p_soln_x without resetting it for phases outside the model; only print_gas_phase does"


def _chk_inverse_stats_always(P, g):
    """print_model: the statistics that punch_model writes are (re)started on every path, i.e. no early return on the print flags
    precedes `max_pct = 0; scaled_error = 0;`"""
    f = P.one("Phreeqc::print_model")
    cfg = T.CFG(f)
    dom = cfg.dominators()
    need = {"Phreeqc::max_pct": None, "Phreeqc::scaled_error": None}
    for nd in cfg.nodes:
        if not T.is_node(nd["n"]):
            continue
        for t, how, line, w in T.writes(nd["n"]):
            root, steps = T.access_path(t)
            if how == "=" and len(steps) == 1 and steps[0][1] in need and T.lit_value(T.strip_casts(w[4])) == 0 and nd["id"] in dom.get(cfg.exit, ()):
                need[steps[0][1]] = line
    readers = [h["q"].split("::")[-1] for h in P.functions.values() if h["q"] != "Phreeqc::print_model" and any(
        y[0] == "Member" and y[2] in need for y in T.walk(h["body"]))]
    if all(v is not None for v in need.values()):
        return True, "print_model restarts max_pct / scaled_error on every path (lines %s), printed or not; other readers: %s" % (sorted(need.values()), ", ".join(sorted(set(readers))))
    return False, "print_model returns before it computes max_pct / scaled_error when the model is not printed, but %s writes them to the selected output" % ", ".join(sorted(set(readers)))


PRINTWRITE_CHECKS = {"species_list_restored": _chk_species_list_restored, "xgas_resets": _chk_xgas_resets, "inverse_stats_always": _chk_inverse_stats_always}


def hiddenrun_rule(P, R):
    """"whenever file sink and string sink are both enabled ... they receive byte-identical content; a disabled sink receives nothing":
    LoadDatabase / LoadDatabaseString run a hidden test input (test_db -> RunString).  They silence the run by clearing <X>FileOn before
    and restoring it after; the two sinks of a stream stay identical only if <X>StringOn is cleared and restored with it.  The error
    stream is the exception: the load reports through GetErrorString, so its string sink must stay on (and the file sink is a
    convenience copy that the load suppresses)."""
    RULE = "C09.hiddenrun"
    R.rule(RULE, "functions that hide the database test run switch off and restore the string sink of every stream whose file sink they switch off (error stream excepted)", minimum=4)
    n = 0
    for f in sorted(P.functions.values(), key=lambda g: (g["file"], g["line"])):
        if not f.get("body") or f.get("cls") != "IPhreeqc":
            continue
        calls = [c for c in T.calls(f["body"]) if T.callee_q(c) == "IPhreeqc::test_db"]
        if not calls:
            continue
        line = calls[0][1]
        off, restored = set(), set()
        for t, how, ln, w in T.writes(f["body"]):
            root, steps = T.access_path(t)
            if how != "=" or not steps or steps[0][0] != "f":
                continue
            m = steps[0][1].split("::")[-1]
            r = T.strip_casts(w[4])
            if ln < line and T.is_node(r) and r[0] == "Lit" and str(r[3]) in ("false", "0"):
                off.add(m)
            elif ln > line and T.is_node(r) and r[0] == "Ref" and r[2] == "local":
                restored.add(m)
        for m in sorted(off):
            if not m.endswith("FileOn"):
                continue
            stream = m[:-len("FileOn")]
            inst = "%s:%s" % (f["name"], stream)
            n += 1
            if stream == "Error":
                R.ok(RULE, inst, "error stream: the string sink is the load's own report channel")
                continue
            sm = stream + "StringOn"
            if sm in off and sm in restored and m in restored:
                R.ok(RULE, inst, "%s and %s cleared before test_db and restored after" % (m, sm))
            else:
                R.violation(RULE, inst, "%s clears %s for the hidden test run but not %s (or does not restore it): with both sinks enabled the string receives the hidden run's "
                            "text and the file nothing" % (f["name"], m, sm), file=f["file"], line=line, function=f["q"])
    if n < 4:
        R.anchor_missing(RULE, "only %d file switches cleared around test_db" % n)


def lineguard_rule(P, R):
    """"line accessor i returns exactly line i of the string": update_lines rebuilds the line views after every run.  A string accumulates
    under its string switch AND, message by message, under switches that the input can change during the run (log_on follows KNOBS
    -logfile).  The view must be rebuilt whenever the string can hold text, so the guard of each rebuild may test the string switch of
    that stream only (or the per-block look-up for selected output): a further conjunct that is evaluated once, after the run, drops
    the lines of a string that was filled while the conjunct still held."""
    RULE = "C09.lineguard"
    R.rule(RULE, "update_lines: each line view is rebuilt under the string switch of its stream alone", minimum=2)
    f = P.one("IPhreeqc::update_lines")
    n = 0
    for x in T.walk(f["body"]):
        if x[0] != "If":
            continue
        pushes = [c for c in T.calls(x[3]) if T.callee_name(c) == "push_back" and "Lines" in T.text(c[3] if c[3] else c[4][0], -40)]
        if not pushes or any(y[0] == "If" and any(T.callee_name(c) == "push_back" for c in T.calls(y[3])) for y in T.walk(x[3]) if y is not x):
            continue
        c = T.strip_casts(x[2])
        members = sorted({y[2].split("::")[-1] for y in T.walk(c) if y[0] == "Member"})
        calls = sorted({T.callee_name(y) for y in T.calls(c)})
        if calls == ["end"] or "find" in calls or "end" in calls:
            continue        # the iterator test inside the selected-output branch
        n += 1
        view = T.text(pushes[0][3] if pushes[0][3] else pushes[0][4][0], -40)
        inst = view.split(".")[-1].split("[")[0][:30]
        ok = (len(members) == 1 and members[0].endswith("StringOn") and not calls) or (not members and calls == ["get_sel_out_string_on"]) or \
            (calls == ["get_sel_out_string_on"] and all(m_ in ("SelectedOutputStringOn",) for m_ in members))
        if ok:
            R.ok(RULE, inst, "guard: %s" % T.text(c)[:50])
        else:
            R.violation(RULE, inst, "the line view %s is rebuilt under `%s`: more than the string switch of the stream - a switch the input changes during the run (KNOBS -logfile) "
                        "leaves the view empty while the string holds the text" % (inst, T.text(c)[:60]), file=f["file"], line=x[1], function=f["q"])
    if n < 2:
        R.anchor_missing(RULE, "update_lines: only %d guarded rebuilds found" % n)


def prinsame_rule(P, R):
    """"switching any sinks on or off never changes computed results": phase::pr_in tells the BASIC functions PR_P / PR_PHI whether the
    Peng-Robinson values stored in a phase are current.  print_saturation_indices resets it for every phase it lists, but runs only when
    the saturation indices are printed; set_pr_in_false is what print_all calls otherwise.  The two must reset the same phases: a loop
    over Phreeqc::phases with the same skip filter (`in == FALSE || type != SOLID`) in both, compared as sets of disjuncts."""
    RULE = "C09.prinsame"
    R.rule(RULE, "set_pr_in_false resets phase::pr_in for the same phases as print_saturation_indices (same loop, same skip filter)", minimum=1)

    def disj(c):
        c = T.strip_casts(c)
        if T.is_node(c) and c[0] == "Paren":
            return disj(c[2])
        if T.is_node(c) and c[0] == "Bin" and c[2] == "||":
            return disj(c[3]) | disj(c[4])
        return {"".join(T.text(c, -40).split())}

    def reset_loop(fn):
        for lp in T.walk(fn["body"]):
            if lp[0] != "For" or not T.is_node(lp[3]) or not any(y[0] == "Member" and y[2] == "Phreeqc::phases" for y in T.walk(lp[3])):
                continue
            body = lp[5][2] if T.is_node(lp[5]) and lp[5][0] == "Compound" else [lp[5]]
            writes = [w for w in T.walk(lp[5]) if w[0] == "Bin" and w[2] == "=" and any(y[0] == "Member" and y[2] == "phase::pr_in" for y in T.walk(w[3]))]
            if not writes:
                continue
            skips = set()
            for st in body:
                if T.is_node(st) and st[0] == "If" and T.is_node(st[3]) and any(y[0] == "Continue" for y in T.walk(st[3])) and st[1] < writes[0][1] \
                        and not any(T.callee_name(c) for c in T.calls(st[2])):
                    ds = disj(st[2])
                    if all("phases" in d_ for d_ in ds) and all(".in==" in d_ or ".type!=" in d_ for d_ in ds):
                        skips |= ds
            return lp[1], skips
        return None
    a, b = reset_loop(P.one("Phreeqc::print_saturation_indices")), reset_loop(P.one("Phreeqc::set_pr_in_false"))
    f = P.one("Phreeqc::set_pr_in_false")
    if a is None:
        R.anchor_missing(RULE, "print_saturation_indices: loop over phases that resets pr_in not found")
        return
    if b is None:
        R.violation(RULE, "set_pr_in_false", "set_pr_in_false has no loop over Phreeqc::phases that resets pr_in: with the output off only pure-phase unknowns and gas components are "
                    "reset, PR_P / PR_PHI of other phases keep values that a run with the output on clears", file=f["file"], line=f["line"], function=f["q"])
    elif a[1] == b[1]:
        R.ok(RULE, "set_pr_in_false", "same skip filter {%s}" % ", ".join(sorted(a[1])))
    else:
        R.violation(RULE, "set_pr_in_false", "set_pr_in_false skips {%s}, print_saturation_indices skips {%s}: the two paths of print_all reset different phases"
                    % (", ".join(sorted(b[1])), ", ".join(sorted(a[1]))), file=f["file"], line=b[0], function=f["q"])
