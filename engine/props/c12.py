"""C12 – kinetic reactions transfer exactly what they integrate, within tolerance.

Decided (DESIGN.md §C12): the explicit integrator Phreeqc::rk_kinetics is a *consistent embedded Runge-Kutta pair*:
  C12.extract   every stage formula, stage time, final combination and the error estimate is a linear combination of
                the stored stage derivatives rk_moles[s*n+j] with exactly evaluable rational coefficients; all
                reaching definitions of one stage agree (reaching-definition dataflow on the CFG, no execution)
  C12.rowsum    sum_j a[s][j] == c[s] for every stage (the time at which a stage is evaluated matches its state)
  C12.order5    the 17 rooted-tree order conditions up to order 5 hold for the weights of the accepted step
  C12.order4    the 8 order conditions up to order 4 hold for the embedded solution b* = b - dc, so the error estimate
                dc.k is the difference of two consistent schemes (and sum dc == 0)
  C12.lowexit   the early exits (-runge_kutta 1/2/3, taken only when all stage rates are equal) use weights summing to 1
  C12.partialstep  blocks that shorten the step before the early-exit tests also clear equal_rate (else a one-step exit
                integrates only part of the interval)
  C12.trialreset every Runge-Kutta stage evaluation is followed by the restore of the saved pure-phase / solid-solution assemblages
  C12.timeorigin the integration time origin is reset directly outside the step loop that advances it
  C12.savefree  after saver() both saved assemblages are freed and none is copied back (found the 2nd-order equal-rate exit defect)
  C12.clamp     the exhaustion cap of calc_final_kinetic_reaction tests and assigns the same bound
  C12.errmax    the step-acceptance error is the running maximum over all reactants (reset before, max-update inside the loop)
  C12.cvode     CVODE restart loop: elapsed time and restored state come from the same checkpoint (cvode_last_good_*), the
                remaining time is tout - sum_t (one structural clause of the stiff-integrator path; the rest of it is undecided)
  C12.transfer  calc_final_kinetic_reaction transfers to the system exactly what the reactant gives up: coef is read after the
                exhaustion clamp, every element contribution is scaled by coef, components are skipped only for coef == 0
  C12.step      step bookkeeping: the integrated time h_sum advances by h exactly once, only on the accepted branch
                of the error test; a rejected step increments step_bad; the loop runs while h_sum < kin_time; the step is
                clamped to the remaining time; rate_sim_time is set to start + kin_time after the loop
  C12.cvodetime  the CVODE callbacks f and Jac derive rate_sim_time from their time argument; a restart moves the time origin by the time already
                integrated; the restart checkpoint stores the accepted state zn[0] with the step time
  C12.ratefraction  every rate-evaluating solve of the integrators (rk_kinetics, CVODE right-hand side f, CVODE Jacobian Jac, base and
                perturbed states) runs at REACTION fraction 0: the whole REACTION amount of the step is applied before integrating
Not decided: step-size control constants, the CVODE path, non-negativity, agreement with closed-form solutions.
"""
from decimal import Decimal
from fractions import Fraction

from .. import tree as T
from ..facts import AnalysisBroken

PROP = "C12"
EXPLANATION = __doc__


class NotLinear(Exception):
    pass


def frac_lit(txt):
    t = txt.rstrip("fFlL")
    return Fraction(Decimal(t))


class Ctx:
    def __init__(self, f):
        self.f = f
        self.consts = {}
        written = set()
        for tgt, how, line, node in T.writes(f["body"]):
            root, steps = T.access_path(tgt)
            if root[0] == "local" and not steps:
                written.add(root[1])
        self.written = written
        decls = {}
        for x in T.walk(f["body"]):
            if x[0] == "Decl":
                for d in x[2]:
                    if T.is_node(d[2]) and d[0] not in written:
                        decls[d[0]] = d[2]
        self.decls = decls

    def const(self, n):
        """exact rational value of a constant expression over literals and never-reassigned initialised locals"""
        n = T.strip_casts(n)
        if not T.is_node(n):
            raise NotLinear("empty")
        k = n[0]
        if k == "Lit" and n[2] in ("float", "int"):
            return frac_lit(n[3])
        if k == "Un" and n[2] == "-":
            return -self.const(n[3])
        if k == "Un" and n[2] == "+":
            return self.const(n[3])
        if k == "Bin" and n[2] in "+-*/" and len(n[2]) == 1:
            a, b = self.const(n[3]), self.const(n[4])
            if n[2] == "+":
                return a + b
            if n[2] == "-":
                return a - b
            if n[2] == "*":
                return a * b
            if b == 0:
                raise NotLinear("division by zero")
            return a / b
        if k == "Ref" and n[2] == "local":
            nm = n[3]
            if nm in self.consts:
                return self.consts[nm]
            if nm in self.decls:
                v = self.const(self.decls[nm])
                self.consts[nm] = v
                return v
        raise NotLinear("not a constant: " + T.text(n))


def is_rk_index(n):
    """rk_moles[idx] -> idx node, else None"""
    n = T.strip_casts(n)
    if T.is_node(n) and n[0] == "Call" and T.callee_name(n) == "operator[]" and n[4]:
        b = T.strip_casts(n[4][0])
        if T.is_node(b) and b[0] == "Member" and b[2] == "Phreeqc::rk_moles":
            return n[4][1]
    if T.is_node(n) and n[0] == "Index":
        b = T.strip_casts(n[2])
        if T.is_node(b) and b[0] == "Member" and b[2] == "Phreeqc::rk_moles":
            return n[3]
    return None


def index_form(n, ctx):
    """index expression as {symbol: Fraction} over symbols n (n_reactions), j, k, 1"""
    n = T.strip_casts(n)
    if not T.is_node(n):
        raise NotLinear("index")
    if n[0] == "Ref" and n[2] == "local":
        if n[3] == "n_reactions":
            return {"n": Fraction(1)}
        if n[3] == "j":
            return {"j": Fraction(1)}
        if n[3] == "k":
            return {"k": Fraction(1)}
    if n[0] == "Bin" and n[2] in ("+", "-"):
        a, b = index_form(n[3], ctx), index_form(n[4], ctx)
        out = dict(a)
        for s, v in b.items():
            out[s] = out.get(s, 0) + (v if n[2] == "+" else -v)
        return out
    if n[0] == "Bin" and n[2] == "*":
        try:
            c = ctx.const(n[3])
            o = index_form(n[4], ctx)
        except NotLinear:
            c = ctx.const(n[4])
            o = index_form(n[3], ctx)
        return {s: v * c for s, v in o.items()}
    try:
        return {"1": ctx.const(n)}
    except NotLinear:
        raise NotLinear("index expression " + T.text(n))


def stage_of(idx, ctx, kvals):
    """stage number s for index s*n_reactions + j; k replaced by its (unique) reaching value"""
    fm = index_form(idx, ctx)
    if fm.get("k"):
        if len(kvals) != 1 or None in kvals:
            raise NotLinear("index uses k but k has %d reaching values %s" % (len(kvals), sorted(map(str, kvals))))
        kv = next(iter(kvals))
        fm["n"] = fm.get("n", 0) + fm["k"] * kv
    fm.pop("k", None)
    if fm.get("j", 0) != 1 or fm.get("1", 0) != 0:
        raise NotLinear("index is not s*n_reactions + j: " + T.text(idx))
    s = fm.get("n", Fraction(0))
    if s.denominator != 1 or not (0 <= s <= 5):
        raise NotLinear("stage multiplier %s out of range in %s" % (s, T.text(idx)))
    return int(s)


def lincomb(n, ctx, kvals, getmoles_stage):
    """expression as {stage: Fraction}; a bare X.Get_moles() denotes the stage just stored in the same block"""
    n = T.strip_casts(n)
    if not T.is_node(n):
        raise NotLinear("empty")
    idx = is_rk_index(n)
    if idx is not None:
        return {stage_of(idx, ctx, kvals): Fraction(1)}
    if n[0] == "Call" and T.callee_q(n) == "cxxKineticsComp::Get_moles":
        if getmoles_stage is None:
            raise NotLinear("Get_moles() with no preceding stage store in the block")
        return {getmoles_stage: Fraction(1)}
    if n[0] == "Bin" and n[2] in ("+", "-"):
        a = lincomb(n[3], ctx, kvals, getmoles_stage)
        b = lincomb(n[4], ctx, kvals, getmoles_stage)
        out = dict(a)
        for s, v in b.items():
            out[s] = out.get(s, 0) + (v if n[2] == "+" else -v)
        return out
    if n[0] == "Un" and n[2] == "-":
        return {s: -v for s, v in lincomb(n[3], ctx, kvals, getmoles_stage).items()}
    if n[0] == "Bin" and n[2] == "*":
        for cside, lside in ((n[3], n[4]), (n[4], n[3])):
            try:
                c = ctx.const(cside)
            except NotLinear:
                continue
            return {s: v * c for s, v in lincomb(lside, ctx, kvals, getmoles_stage).items()}
        raise NotLinear("product without a constant factor: " + T.text(n))
    if n[0] == "Bin" and n[2] == "/":
        c = ctx.const(n[4])
        return {s: v / c for s, v in lincomb(n[3], ctx, kvals, getmoles_stage).items()}
    raise NotLinear("not a linear combination of rk_moles: " + T.text(n))


def mentions_rk(n):
    for x in T.walk(n):
        if x[0] == "Member" and x[2] == "Phreeqc::rk_moles":
            return True
        if x[0] == "Call" and T.callee_q(x) == "cxxKineticsComp::Get_moles":
            return True
    return False


def time_coeff(n, ctx):
    """rate_sim_time_start + h_sum [+ c*h]  ->  c ; anything else raises"""
    form = {}

    def rec(x, sign):
        x = T.strip_casts(x)
        if x[0] == "Bin" and x[2] in ("+", "-"):
            rec(x[3], sign)
            rec(x[4], sign if x[2] == "+" else -sign)
            return
        if x[0] == "Member" and x[2] == "Phreeqc::rate_sim_time_start":
            form["start"] = form.get("start", 0) + sign
            return
        if x[0] == "Ref" and x[2] in ("local", "param") and x[3] in ("h_sum", "h", "kin_time"):
            form[x[3]] = form.get(x[3], 0) + sign
            return
        if x[0] == "Bin" and x[2] == "*":
            for cs, vs in ((x[3], x[4]), (x[4], x[3])):
                vs2 = T.strip_casts(vs)
                if vs2[0] == "Ref" and vs2[3] in ("h", "h_sum", "kin_time"):
                    form[vs2[3]] = form.get(vs2[3], 0) + sign * ctx.const(cs)
                    return
        raise NotLinear("unexpected term in stage time: " + T.text(x))
    rec(n, Fraction(1))
    return form


# ------------------------------------------------------------------------------------------ order conditions

def rooted_trees(order):
    """all rooted trees with `order` vertices as nested sorted tuples"""
    memo = {1: [()]}

    def gen(n):
        if n in memo:
            return memo[n]
        out = set()
        # multiset partitions of n-1 into subtree sizes
        def parts(rem, maxp):
            if rem == 0:
                yield []
                return
            for p in range(min(rem, maxp), 0, -1):
                for rest in parts(rem - p, p):
                    yield [p] + rest
        import itertools
        for part in parts(n - 1, n - 1):
            pools = [gen(p) for p in part]
            for combo in itertools.product(*pools):
                out.add(tuple(sorted(combo)))
        memo[n] = sorted(out)
        return memo[n]
    return gen(order)


def tree_order(t):
    return 1 + sum(tree_order(c) for c in t)


def gamma(t):
    g = tree_order(t)
    for c in t:
        g *= gamma(c)
    return g


def phi(t, A, s):
    """vector of elementary weights Phi_i(t), i = 0..s-1"""
    out = [Fraction(1)] * s
    for c in t:
        pc = phi(c, A, s)
        col = [sum(A[i][j] * pc[j] for j in range(s)) for i in range(s)]
        out = [out[i] * col[i] for i in range(s)]
    return out


def tree_str(t):
    return "[" + "".join(tree_str(c) for c in t) + "]"


def fmt(v):
    return str(v)


# ------------------------------------------------------------------------------------------ the check

def run(P, R, tier):
    R.undecided += [
        "(c) step-size control constants, bad-step ladder, the CVODE integrator path",
        "(e) non-negativity of reactant amounts",
        "(f) agreement with closed-form solutions within tolerance; independence from step division (behavioural)",
        "time bookkeeping outside rk_kinetics (cxxKinetics::Current_step, reactions(), run_as_cells)",
    ]
    f = P.one("Phreeqc::rk_kinetics")
    ctx = Ctx(f)
    where = dict(file=f["file"], function=f["q"])
    rx = R.rule("C12.extract", "stage formulas, stage times, final weights and error weights of rk_kinetics are exact rational linear combinations; reaching definitions of one stage agree", minimum=12)
    # Every per-component loop `for (j = 0; j < kinetics_ptr->Get_kinetics_comps().size(); j++)` iterates over the same,
    # loop-invariant range and touches only component j (Set_moles/Get_moles on &comps[j], rk_moles[s*n + j]).  The
    # formulas are therefore analysed for one generic component: each such loop is replaced by a single execution of
    # its body (`do {body} while (0)`, so `break` still leaves it).  With zero components no stage formula is
    # evaluated and the clause is vacuous.
    import copy
    body = copy.deepcopy(f["body"])
    nloops = [0]

    def comp_loop(x):
        if x[0] != "For" or not T.is_node(x[3]):
            return False
        c = T.strip_casts(x[3])
        if not (c[0] == "Bin" and c[2] == "<"):
            return False
        return any(y[0] == "Call" and T.callee_q(y) == "cxxKinetics::Get_kinetics_comps" for y in T.walk(c[4]))

    def rewrite(n):
        if not T.is_node(n):
            return n
        for i in range(2, len(n)):
            c = n[i]
            if T.is_node(c):
                n[i] = rewrite(c)
            elif isinstance(c, list):
                for j_, cc in enumerate(c):
                    if T.is_node(cc):
                        c[j_] = rewrite(cc)
        if comp_loop(n):
            nloops[0] += 1
            return ["Compound", n[1], [n[2], ["Do", n[1], n[5], ["Lit", n[1], "int", "0"]]]]
        return n
    body = rewrite(body)
    R.assumptions.append("the %d per-component loops over kinetics_ptr->Get_kinetics_comps() in rk_kinetics are analysed for one generic component j "
                         "(single execution of the loop body; the body only touches component j and rk_moles[s*n+j])" % nloops[0])
    f = dict(f, body=body)
    ctx = Ctx(f)
    cfg = T.CFG(f)

    # classify atoms ----------------------------------------------------------------------------------
    def atom_events(n):
        """list of (kind, node) inside one atom, in textual order"""
        ev = []
        if not T.is_node(n):
            return ev
        for x in T.walk(n):
            if x[0] == "Call" and T.callee_q(x) == "cxxKineticsComp::Set_moles" and x[4] and mentions_rk(x[4][0]):
                ev.append(("SM", x))
            elif x[0] == "Bin" and x[2] == "=":
                l = T.strip_casts(x[3])
                if l[0] == "Ref" and l[2] == "local" and l[3] == "k":
                    ev.append(("K", x))
                elif l[0] == "Member" and l[2] == "Phreeqc::rate_sim_time":
                    ev.append(("T", x))
                elif is_rk_index(l) is not None:
                    r = T.strip_casts(x[4])
                    if r[0] == "Call" and T.callee_q(r) == "cxxKineticsComp::Get_moles":
                        ev.append(("ST", x))
                elif l[0] == "Ref" and l[2] == "local" and l[3] == "l_error" and mentions_rk(x[4]):
                    ev.append(("ERR", x))
            elif x[0] == "Call" and T.callee_q(x) == "Phreeqc::saver":
                ev.append(("SAVER", x))
        return ev

    node_events = {nd["id"]: atom_events(nd["n"]) for nd in cfg.nodes}

    def kvalue(assign):
        try:
            fm = index_form(assign[4], ctx)
        except NotLinear:
            return None
        if set(s for s, v in fm.items() if v) - {"n"}:
            return None
        return fm.get("n", Fraction(0))

    def transfer(node, state):
        for kind, x in node_events[node["id"]]:
            if kind == "K":
                state = frozenset(e for e in state if e[0] != "K") | {("K", kvalue(x))}
            elif kind == "SM":
                state = frozenset(e for e in state if e[0] != "SM") | {("SM", id(x))}
            elif kind == "T":
                state = frozenset(e for e in state if e[0] != "T") | {("T", id(x))}
        return state

    instate = cfg.dataflow(transfer, [("K", None)])
    by_id = {}
    for evs in node_events.values():
        for kind, x in evs:
            by_id[id(x)] = x

    # block-local "stage just stored" for bare Get_moles() terms: previous sibling statement in the same Compound
    just_stored = {}
    for x in T.walk(f["body"]):
        if x[0] == "Compound":
            last = None
            for s in x[2]:
                if not T.is_node(s):
                    continue
                for kind, e in atom_events(s) if s[0] not in T.STMT_KINDS else []:
                    if kind == "ST":
                        last = e
                    elif kind == "SM":
                        just_stored[id(e)] = last
                if s[0] in T.STMT_KINDS:
                    last = None

    sm_value = {}     # id(SM node) -> {stage: coeff}
    stage_args = {}   # stage -> set of frozenset(items) with provenance
    stage_time = {}
    finals = []
    errw = []
    problems = []

    def eval_sm(x, st_in):
        if id(x) in sm_value:
            return sm_value[id(x)]
        kvals = set(e[1] for e in st_in if e[0] == "K")
        gs = None
        js = just_stored.get(id(x))
        if js is not None:
            gs = stage_of(is_rk_index(T.strip_casts(js[3])), ctx, kvals)
        v = lincomb(x[4][0], ctx, kvals, gs)
        sm_value[id(x)] = v
        return v

    for nd in cfg.nodes:
        st = instate.get(nd["id"])
        if st is None:
            continue
        for kind, x in node_events[nd["id"]]:
            try:
                if kind == "SM":
                    eval_sm(x, st)
                elif kind == "ST":
                    kvals = set(e[1] for e in st if e[0] == "K")
                    s = stage_of(is_rk_index(T.strip_casts(x[3])), ctx, kvals)
                    sms = [by_id[e[1]] for e in st if e[0] == "SM"]
                    ts = [by_id[e[1]] for e in st if e[0] == "T"]
                    stage_args.setdefault(s, []).append((x[1], sms))
                    stage_time.setdefault(s, []).append((x[1], ts))
                elif kind == "SAVER":
                    for e in st:
                        if e[0] == "SM":
                            finals.append((x[1], by_id[e[1]]))
                elif kind == "ERR":
                    r = T.strip_casts(x[4])
                    if r[0] == "Call" and T.callee_name(r) in ("fabs", "abs") and r[4]:
                        r = r[4][0]
                    kvals = set(e[1] for e in st if e[0] == "K")
                    errw.append((x[1], lincomb(r, ctx, kvals, None)))
            except NotLinear as e:
                problems.append("line %d: %s" % (x[1], e))
            # transfer inside the atom (k may change between events of one atom – not the case here)
            st = transfer({"id": nd["id"]}, st) if False else st
        # note: events in one atom are single statements, so using the in-state for all of them is exact here

    # SM values need the in-state of their own node: second pass done above via eval_sm at their node
    if problems:
        for p in problems:
            R.anchor_missing("C12.extract", "rk_kinetics no longer has the analysable shape: " + p)
        return
    if sorted(stage_args) != [0, 1, 2, 3, 4, 5]:
        R.anchor_missing("C12.extract", "expected stage stores for stages 0..5, found %s" % sorted(stage_args))
        return
    if len(errw) != 1:
        R.anchor_missing("C12.extract", "expected exactly one error-estimate assignment l_error = fabs(lin.comb.), found %d" % len(errw))
        return

    S = 6
    A = [[Fraction(0)] * S for _ in range(S)]
    c = [Fraction(0)] * S
    okay = True
    for s in range(S):
        # stage argument
        vals = {}
        for line, sms in stage_args[s]:
            for x in sms:
                v = sm_value.get(id(x))
                if v is None:
                    R.anchor_missing("C12.extract", "stage %d: Set_moles at line %d could not be evaluated" % (s + 1, x[1]))
                    return
                vals.setdefault(tuple(sorted((k_, v_) for k_, v_ in v.items() if v_ != 0)), []).append(x[1])
        if s == 0:
            # k1 is evaluated at the start state: the accumulator was reset (Set_moles(0.)); any reaching combination
            # belongs to the previous step's result and is irrelevant because Set_moles(0.) intervenes - check that.
            pass
        else:
            if len(vals) != 1:
                okay = False
                R.violation("C12.extract", "stage%d:argument" % (s + 1),
                            "the state at which stage %d is evaluated is defined inconsistently on different paths: %s"
                            % (s + 1, "; ".join("%s at line(s) %s" % (dict(k_), ls) for k_, ls in vals.items())),
                            line=stage_args[s][0][0], **where)
                continue
            row = dict(next(iter(vals)))
            if any(j >= s for j in row):
                okay = False
                R.violation("C12.extract", "stage%d:argument" % (s + 1), "stage %d uses a derivative of stage >= itself (not explicit): %s" % (s + 1, row),
                            line=stage_args[s][0][0], **where)
                continue
            for j, v in row.items():
                A[s][j] = v
            R.ok("C12.extract", "a[%d][*]" % (s + 1), " ".join("%s*k%d" % (fmt(v), j + 1) for j, v in sorted(row.items())))
        # stage time
        tv = {}
        for line, ts in stage_time[s]:
            for x in ts:
                try:
                    fm = time_coeff(x[4], ctx)
                except NotLinear as e:
                    R.anchor_missing("C12.extract", "stage %d time at line %d: %s" % (s + 1, x[1], e))
                    return
                tv.setdefault(tuple(sorted(fm.items())), []).append(x[1])
        if len(tv) != 1:
            okay = False
            R.violation("C12.extract", "stage%d:time" % (s + 1), "stage time defined inconsistently on different paths: %s" % tv,
                        line=stage_time[s][0][0], **where)
            continue
        fm = dict(next(iter(tv)))
        if fm.get("start") != 1 or fm.get("h_sum") != 1 or fm.get("kin_time", 0) != 0:
            okay = False
            R.violation("C12.extract", "stage%d:time" % (s + 1), "stage time is not rate_sim_time_start + h_sum + c*h: %s" % fm,
                        line=stage_time[s][0][0], **where)
            continue
        c[s] = Fraction(fm.get("h", 0))
        R.ok("C12.extract", "c[%d]" % (s + 1), fmt(c[s]))

    # final combinations reaching saver()
    full = None
    low = []
    seen = set()
    for line, x in finals:
        if id(x) in seen:
            continue
        seen.add(id(x))
        v = sm_value.get(id(x))
        if v is None:
            R.anchor_missing("C12.extract", "final combination at line %d could not be evaluated" % x[1])
            return
        v = {k_: v_ for k_, v_ in v.items() if v_ != 0}
        if max(v) == 5:
            if full is not None and full[1] != v:
                R.violation("C12.extract", "final:weights", "two different full-step combinations reach saver()", line=x[1], **where)
                okay = False
            full = (x[1], v)
        else:
            low.append((x[1], v))
    if full is None:
        R.anchor_missing("C12.extract", "no 6-stage result combination reaches saver()")
        return
    b = [full[1].get(j, Fraction(0)) for j in range(S)]
    R.ok("C12.extract", "b (accepted step)", " ".join(fmt(v) for v in b))
    dc = [errw[0][1].get(j, Fraction(0)) for j in range(S)]
    R.ok("C12.extract", "dc (error estimate)", " ".join(fmt(v) for v in dc))
    bstar = [b[j] - dc[j] for j in range(S)]
    R.info["tableau"] = {"A": [[fmt(v) for v in row] for row in A], "c": [fmt(v) for v in c], "b": [fmt(v) for v in b],
                         "dc": [fmt(v) for v in dc], "bstar": [fmt(v) for v in bstar],
                         "low_order_exits": [{"line": l, "weights": {str(k_ + 1): fmt(v_) for k_, v_ in v.items()}} for l, v in low]}
    if not okay:
        return

    # ------------------------------------------------------------------ C12.rowsum
    R.rule("C12.rowsum", "sum_j a[s][j] == c[s] for every stage", minimum=6)
    for s in range(S):
        rs = sum(A[s])
        if rs == c[s]:
            R.ok("C12.rowsum", "stage%d" % (s + 1), "sum a = c = %s" % fmt(c[s]))
        else:
            R.violation("C12.rowsum", "stage%d" % (s + 1), "row sum of the stage coefficients is %s but the stage is evaluated at time fraction %s"
                        % (fmt(rs), fmt(c[s])), line=stage_args[s][0][0], **where)

    # ------------------------------------------------------------------ order conditions
    def check(rule, w, maxorder, desc, line):
        for o in range(1, maxorder + 1):
            for t in rooted_trees(o):
                ph = phi(t, A, S)
                lhs = sum(w[i] * ph[i] for i in range(S))
                rhs = Fraction(1, gamma(t))
                inst = "order%d:%s" % (o, tree_str(t))
                if lhs == rhs:
                    R.ok(rule, inst, "sum b*Phi = 1/%d" % gamma(t))
                else:
                    R.violation(rule, inst, "%s: order condition of order %d for tree %s fails: sum b_i*Phi_i = %s, required %s (defect %s)"
                                % (desc, o, tree_str(t), fmt(lhs), fmt(rhs), fmt(lhs - rhs)), line=line, **where)

    R.rule("C12.order5", "the accepted-step weights satisfy all 17 order conditions up to order 5", minimum=17)
    check("C12.order5", b, 5, "accepted-step weights c1..c6", full[0])
    R.rule("C12.order4", "the embedded weights b* = b - dc satisfy all 8 order conditions up to order 4 (error estimate = difference of two consistent schemes)", minimum=9)
    check("C12.order4", bstar, 4, "embedded weights b - dc", errw[0][0])
    if sum(dc) == 0:
        R.ok("C12.order4", "sum dc", "0")
    else:
        R.violation("C12.order4", "sum dc", "error weights do not sum to zero (%s): a constant rate would report a non-zero error" % fmt(sum(dc)),
                    line=errw[0][0], **where)

    # ------------------------------------------------------------------ low-order exits
    R.rule("C12.lowexit", "early exits for -runge_kutta 1/2/3 (equal stage rates) use weights that sum to 1 over stages already computed", minimum=3)
    for line, v in low:
        inst = "exit@stages%s" % "".join(str(k_ + 1) for k_ in sorted(v))
        if sum(v.values()) == 1:
            R.ok("C12.lowexit", inst, " ".join("%s*k%d" % (fmt(x), k_ + 1) for k_, x in sorted(v.items())))
        else:
            R.violation("C12.lowexit", inst, "weights %s sum to %s, not 1: the transferred amount differs from the integrated one even for a constant rate"
                        % ({k_ + 1: fmt(x) for k_, x in v.items()}, fmt(sum(v.values()))), line=line, **where)

    # ------------------------------------------------------------------ step bookkeeping
    step_rule(P, R, f, cfg, where)
    transfer_rule(P, R)
    cvode_restart_rule(P, R)
    ratefraction_rule(P, R)
    cvodetime_rule(P, R)
    errmax_rule(P, R)
    clamp_rule(P, R)
    trialreset_rule(P, R)
    savefree_rule(P, R)
    halfstep_rule(P, R)
    halforigin_rule(P, R)
    cvodeorigin_rule(P, R)
    exitcheck_rule(P, R)
    timesum_rule(P, R)
    timeorigin_rule(P, R)


def trialreset_rule(P, R, RULE="C12.trialreset"):
    """Every Runge-Kutta stage of rk_kinetics is a TRIAL: the reaction increments are applied, the system is equilibrated to
    evaluate the rates, and the pure-phase and solid-solution assemblages - which the equilibration modifies in the store - are
    put back to the state of the last saver() before the next stage or the final, accepted evaluation.  In the step loop every
    stage evaluation (a top-level calc_kinetic_reaction) is therefore followed, before the next stage evaluation and before the
    error estimate, by the restore of BOTH saved assemblages.  A stage without it lets the final evaluation start from
    assemblages that already contain a trial's transfer: that transfer is counted twice."""
    R.rule(RULE, "rk_kinetics: every stage evaluation is followed by the restore of the saved pure-phase and solid-solution assemblages", minimum=5)
    f = P.one("Phreeqc::rk_kinetics")
    where = dict(file=f["file"], function=f["q"])

    def restores(st, which):
        return st[0] == "If" and which + "_assemblage_save" in T.text(st[2]) and any(
            T.callee_name(c) == "operator=" and "Rxn_%s_assemblage_map" % which in T.text(c) for c in T.calls(st[3]))
    best = None
    for x in T.walk(f["body"]):
        if x[0] in ("While", "Do"):
            body = x[3] if x[0] == "While" else x[2]
            if T.is_node(body) and body[0] == "Compound":
                n_e = sum(1 for st in body[2] if T.is_node(st) and st[0] == "Call" and T.callee_name(st) == "calc_kinetic_reaction")
                if n_e >= 3 and (best is None or n_e > best[0]):
                    best = (n_e, body)
    if best is None:
        R.anchor_missing(RULE, "rk_kinetics: step loop with top-level stage evaluations not found")
        return
    stm = [st for st in best[1][2] if T.is_node(st)]
    evals = [i for i, st in enumerate(stm) if st[0] == "Call" and T.callee_name(st) == "calc_kinetic_reaction"]
    errs = [i for i, st in enumerate(stm) if st[0] == "Bin" and T.text(st[3]) == "error_max"]
    for n_, i in enumerate(evals):
        nxt = min([j for j in evals + errs if j > i] or [len(stm)])
        seg = stm[i + 1:nxt]
        got = [w for w in ("pp", "ss") if any(restores(st, w) for st in seg)]
        inst = "stage-eval@%d" % stm[i][1]
        if got == ["pp", "ss"]:
            R.ok(RULE, inst, "followed by the restore of both saved assemblages")
        else:
            miss = [w for w in ("pp", "ss") if w not in got]
            R.violation(RULE, inst, "the stage evaluation at line %d is not followed by the restore of the saved %s assemblage before the next evaluation / the error estimate: the accepted "
                        "step is evaluated on an assemblage that already holds a trial's transfer (counted twice)" % (stm[i][1], " and ".join("pure-phase" if w == "pp" else "solid-solution" for w in miss)),
                        line=stm[i][1], **where)


def savefree_rule(P, R, RULE="C12.savefree"):
    """saver() stores the accepted result of a step.  From then on the copies taken before the step (pp_assemblage_save,
    ss_assemblage_save) are obsolete: every exit of rk_kinetics that calls saver() frees both of them and none may copy a
    saved assemblage back into the store afterwards - that would revert the solid phase while the solution keeps the reacted
    composition (elements created or lost)."""
    R.rule(RULE, "rk_kinetics: after saver() both saved assemblages are freed and neither is copied back into the store", minimum=4)
    f = P.one("Phreeqc::rk_kinetics")
    where = dict(file=f["file"], function=f["q"])
    n = 0
    for blk in T.walk(f["body"]):
        if blk[0] != "Compound":
            continue
        stm = [s_ for s_ in blk[2] if T.is_node(s_)]
        idx = [i for i, s_ in enumerate(stm) if s_[0] == "Call" and T.callee_name(s_) == "saver"]
        for i in idx:
            n += 1
            seg = []
            for s_ in stm[i + 1:i + 7]:
                seg.append(s_)
                if s_[0] in ("Goto", "Return", "Break", "Continue"):
                    break
            # only the exits that dispose of the pre-step copies: the segment tests one of the saves
            if not any(s_[0] == "If" and "_assemblage_save" in T.text(s_[2]) for s_ in seg):
                n -= 1
                continue
            inst = "saver@%d" % stm[i][1]
            back = [c for s_ in seg for c in T.calls(s_) if T.callee_name(c) == "operator=" and "_assemblage_save" in T.text(c) and "_assemblage_map" in T.text(c)]
            freed = set()
            for s_ in seg:
                for y in T.walk(s_):
                    if y[0] == "Delete":
                        for z in T.walk(y):
                            nm = z[2].split("::")[-1] if z[0] == "Member" else (z[3] if z[0] == "Ref" and len(z) > 3 and isinstance(z[3], str) else "")
                            if nm in ("pp_assemblage_save", "ss_assemblage_save"):
                                freed.add(nm[:2])
            if back:
                R.violation(RULE, inst, "after saver() (line %d) a saved assemblage is copied back into the store at line %d: the solid phase reverts to its state before the step while the "
                            "solution keeps the reacted composition" % (stm[i][1], back[0][1]), line=back[0][1], **where)
            elif freed == {"pp", "ss"}:
                R.ok(RULE, inst, "both saves freed")
            else:
                R.violation(RULE, inst, "after saver() (line %d) the saved %s assemblage is not freed" % (stm[i][1], " / ".join(sorted({"pp", "ss"} - freed))), line=stm[i][1], **where)
    if n < 4:
        R.anchor_missing(RULE, "rk_kinetics: only %d saver() calls found" % n)


def timeorigin_rule(P, R):
    """TOTAL_TIME / SIM_TIME and both integrators measure time from rate_sim_time_start.  With INCREMENTAL_REACTIONS the drivers
    advance it by the step length after every reaction step (`rate_sim_time_start += kin_time` inside the step loop) and start
    every calculation series from zero: the reset `rate_sim_time_start = 0` sits directly outside that step loop - per cell in
    run_as_cells, once in reactions() and advection().  A reset hoisted out of the cell loop makes cell k start at (k-1) T."""
    R.rule("C12.timeorigin", "the integration time origin is reset directly outside the step loop that advances it (once per cell / per series)", minimum=3)
    LOOPS = ("For", "While", "Do", "RangeFor")
    n = 0
    for key, f in sorted(P.functions.items()):
        if not f["q"].startswith("Phreeqc::"):
            continue
        resets, accs = [], []

        def rec(nd, loops):
            if not T.is_node(nd):
                return
            if nd[0] in LOOPS:
                for c in T.children(nd):
                    rec(c, loops + [nd[1]])
                return
            if nd[0] == "Bin" and T.strip_casts(nd[3])[0] == "Member" and T.strip_casts(nd[3])[2] == "Phreeqc::rate_sim_time_start":
                if nd[2] == "=" and (T.lit_value(nd[4]) == 0 or T.text(nd[4]) in ("0", "0.0", "0.")):
                    resets.append((nd[1], tuple(loops)))
                if nd[2] == "+=":
                    accs.append((nd[1], tuple(loops)))
            for c in T.children(nd):
                rec(c, loops)
        rec(f["body"], [])
        if not accs or not resets:
            continue
        for line, loops in accs:
            n += 1
            inst = "%s:+=@%d" % (f["q"].split("::")[-1], line)
            want = loops[:-1]
            prior = [r for r in resets if r[0] < line]
            if any(r[1] == want for r in prior):
                R.ok("C12.timeorigin", inst, "reset directly outside the step loop (line %d)" % [r for r in prior if r[1] == want][-1][0])
            else:
                R.violation("C12.timeorigin", inst, "rate_sim_time_start is advanced per step at line %d but reset at %s, not directly outside the step loop: with INCREMENTAL_REACTIONS a later "
                            "cell / series starts its integration at the time the previous one ended" % (line, [r[0] for r in prior] or "no earlier line"),
                            file=f["file"], line=line, function=f["q"])
    if n < 3:
        R.anchor_missing("C12.timeorigin", "only %d `rate_sim_time_start += ...` sites with a reset found" % n)


def clamp_rule(P, R):
    """"No more is transferred than the reactant holds": calc_final_kinetic_reaction caps the amount reacted in the current
    (sub-)step at the amount the reactant held at the start of THAT (sub-)step: `if (moles > m_temp[i]) Set_moles(m_temp[i])`.
    The bound tested and the bound assigned must be the same quantity; testing another bound (e.g. the amount at the start of
    the whole time step) lets a later sub-step react more than is left."""
    R.rule("C12.clamp", "calc_final_kinetic_reaction: the exhaustion cap tests and assigns the same bound", minimum=1)
    f = P.one("Phreeqc::calc_final_kinetic_reaction")
    n = 0
    for x in T.walk(f["body"]):
        if x[0] != "If":
            continue
        c = T.strip_casts(x[2])
        if not (c[0] == "Bin" and c[2] in (">", ">=")):
            continue
        l = T.strip_casts(c[3])
        if not (l[0] == "Call" and T.callee_name(l) == "Get_moles"):
            continue
        sets = [k for k in T.calls(x[3]) if T.callee_name(k) == "Set_moles" and T.is_node(k[3]) and T.text(k[3]) == T.text(l[3])]
        if not sets:
            continue
        n += 1
        tested, assigned = T.text(c[4]).replace(" ", ""), T.text(sets[0][4][0]).replace(" ", "")
        inst = "cap@%d" % x[1]
        if tested == assigned:
            R.ok("C12.clamp", inst, "if (moles > %s) moles = %s" % (tested, assigned))
        else:
            R.violation("C12.clamp", inst, "the cap tests `moles > %s` but assigns %s: a sub-step whose reaction exceeds what is left (but not %s) is not capped and the system receives more "
                        "than the reactant loses" % (tested, assigned, tested), file=f["file"], line=x[1], function=f["q"])
    if n == 0:
        R.anchor_missing("C12.clamp", "calc_final_kinetic_reaction: the exhaustion cap `if (Get_moles() > B) Set_moles(B)` was not found")


def errmax_rule(P, R):
    """Step acceptance of rk_kinetics: error_max, the quantity compared with 1 to reject the step and used to size the next
    one, is the MAXIMUM over all reactants of the tolerance-scaled error estimate.  Structurally: it is reset before the loop
    over the reactants and every write inside a loop is a running maximum (guarded by `<new> > error_max`, or max(...));
    a plain assignment inside the loop keeps only the last reactant's error, so a stiff reactant listed earlier is ignored."""
    R.rule("C12.errmax", "the step-acceptance error of rk_kinetics is a running maximum over the reactants", minimum=2)
    f = P.one("Phreeqc::rk_kinetics")
    where = dict(file=f["file"], function=f["q"])
    found = [0, 0]

    def is_em(n):
        n = T.strip_casts(n)
        return T.is_node(n) and n[0] == "Ref" and n[3] == "error_max"

    def rec(n, loops, guards):
        if not T.is_node(n):
            return
        if n[0] in ("For", "While", "Do"):
            for c in T.children(n):
                rec(c, loops + [n], guards)
            return
        if n[0] == "If":
            rec(n[2], loops, guards)
            rec(n[3], loops, guards + [n[2]])
            rec(n[4], loops, guards)
            return
        if n[0] == "Bin" and n[2] in T.ASSIGN_OPS and is_em(n[3]):
            # the innermost loop that iterates over the reactants contains the l_error computation
            # the reactant loop = innermost loop around an assignment to l_error
            def assigns_lerr(lp):
                return any(y[0] == "Bin" and y[2] in T.ASSIGN_OPS and T.strip_casts(y[3])[0] == "Ref" and T.strip_casts(y[3])[3] == "l_error" for y in T.walk(lp))
            inner = [lp for i_, lp in enumerate(loops) if assigns_lerr(lp) and not any(assigns_lerr(l2) for l2 in T.walk(lp[-1]) if l2 is not lp and l2[0] in ("For", "While", "Do"))]
            if not inner:
                if T.lit_value(n[4]) == 0 or T.text(n[4]) in ("0.", "0.0", "0"):
                    found[0] += 1
                    R.ok("C12.errmax", "reset@%d" % n[1], "error_max reset before the reactant loop")
                return
            found[1] += 1
            inst = "update@%d" % n[1]
            val = T.text(n[4])
            guarded = any(g[0] == "Bin" and g[2] in (">", ">=") and is_em(g[4]) and T.text(g[3]) == val for g in [T.strip_casts(x) for x in guards]) or \
                      any(g[0] == "Bin" and g[2] in ("<", "<=") and is_em(g[3]) and T.text(g[4]) == val for g in [T.strip_casts(x) for x in guards])
            viamax = any(T.callee_name(c) in ("max", "fmax", "MAX") and any(is_em(a) for a in c[4]) for c in T.calls(n[4]))
            rv = T.strip_casts(n[4])
            viacond = False
            if T.is_node(rv) and rv[0] == "Cond":
                cc, a_, b_ = T.strip_casts(rv[2]), rv[3], rv[4]
                if cc[0] == "Bin" and cc[2] in (">", ">=") and is_em(cc[4]) and T.text(cc[3]) == T.text(a_) and is_em(b_):
                    viacond = True
                if cc[0] == "Bin" and cc[2] in ("<", "<=") and is_em(cc[3]) and T.text(cc[4]) == T.text(a_) and is_em(b_):
                    viacond = True
                if cc[0] == "Bin" and cc[2] in (">", ">=") and is_em(cc[3]) and is_em(a_) and T.text(cc[4]) == T.text(b_):
                    viacond = True
            if n[2] == "=" and (guarded or viamax or viacond):
                R.ok("C12.errmax", inst, "running maximum")
            else:
                R.violation("C12.errmax", inst, "error_max is overwritten inside the loop over the reactants (`error_max %s %s`) instead of kept as a running maximum: the step "
                            "is accepted on the last reactant's error alone" % (n[2], val[:60]), line=n[1], **where)
            return
        for c in T.children(n):
            rec(c, loops, guards)
    rec(f["body"], [], [])
    if not found[0] or not found[1]:
        R.anchor_missing("C12.errmax", "rk_kinetics: reset (%d) / in-loop update (%d) of error_max not found" % tuple(found))


def cvode_restart_rule(P, R):
    """CVODE restart loop of run_reactions: after an interrupted CVode call the integration resumes from a checkpoint.  The
    checkpoint is a pair (state vector, elapsed time) kept in sibling members cvode_<which>_good_y / cvode_<which>_good_time.
    The time added to sum_t and the state copied back into kinetics_y must belong to the SAME checkpoint, and the
    remaining time is tout - sum_t; otherwise each restart integrates a different duration than it accounts for."""
    R.rule("C12.cvode", "CVODE restart: the time added to sum_t and the state restored into kinetics_y come from the same checkpoint; remaining time = tout - sum_t", minimum=2)
    f = P.one("Phreeqc::run_reactions")
    where = dict(file=f["file"], function=f["q"])
    times, states, rem = [], [], []
    for lp in T.walk(f["body"]):
        if lp[0] not in ("While", "Do", "For"):
            continue
        body = lp[3] if lp[0] == "While" else (lp[2] if lp[0] == "Do" else lp[5])
        t_, s_ = [], []
        for x in T.walk(body):
            if x[0] == "Bin" and x[2] == "+=":
                l, r = T.strip_casts(x[3]), T.strip_casts(x[4])
                if l[0] == "Ref" and l[3] == "sum_t" and r[0] == "Member" and r[2].split("::")[-1].endswith("_time"):
                    t_.append((r[2].split("::")[-1], x[1]))
            if x[0] == "Call" and T.callee_name(x) == "N_VScale" and len(x[4]) == 3:
                src, dst = T.strip_casts(x[4][1]), T.strip_casts(x[4][2])
                if src[0] == "Member" and dst[0] == "Member" and dst[2].split("::")[-1] == "kinetics_y" and src[2].split("::")[-1].endswith("_y"):
                    s_.append((src[2].split("::")[-1], x[1]))
            if x[0] == "Bin" and x[2] == "=":
                l, r = T.strip_casts(x[3]), T.strip_casts(x[4])
                if l[0] == "Ref" and l[3] == "tout1" and r[0] == "Bin" and r[2] == "-" and T.text(r[3]) == "tout" and T.text(r[4]) == "sum_t":
                    rem.append(x[1])
        if t_ and s_ and len(t_) + len(s_) > len(times) + len(states):
            times, states = t_, s_
    if not times or not states:
        R.anchor_missing("C12.cvode", "CVODE restart loop of run_reactions (sum_t += <checkpoint time>; N_VScale(1.0, <checkpoint y>, kinetics_y)) not found")
        return
    tp = set(n[:-len("_time")] for n, l in times)
    sp = set(n[:-len("_y")] for n, l in states)
    if len(tp) == 1 and tp == sp:
        R.ok("C12.cvode", "checkpoint", "time and state both from %s_*" % next(iter(tp)))
    else:
        R.violation("C12.cvode", "checkpoint", "the restart adds the elapsed time of checkpoint %s but resumes from the state of checkpoint %s: every restart integrates a "
                    "duration it does not account for" % (sorted(tp), sorted(sp)), line=times[0][1], **where)
    if rem:
        R.ok("C12.cvode", "remaining", "tout1 = tout - sum_t")
    else:
        R.violation("C12.cvode", "remaining", "the restart no longer integrates the remaining time tout - sum_t", line=times[0][1], **where)


def cvodetime_rule(P, R):
    """Rates may depend on time (TOTAL_TIME, SIM_TIME).  CVODE evaluates its right-hand side f(t, y) and the Jacobian at times inside a
    step, so (a) both callbacks derive rate_sim_time from their own time argument (origin + t), not from a member that is only advanced
    after a completed step; (b) a restarted integration (run_reactions re-creates the solver with t0 = 0) moves the origin by the time
    already integrated (sum_t); (c) the checkpoint a restart resumes from pairs the step time tn with the accepted state of that time
    (the Nordsieck vector zn[0]) - the work vector y holds the rejected corrector result after a failed attempt."""
    RULE = "C12.cvodetime"
    R.rule(RULE, "CVODE: f and Jac take the time from their argument; a restart moves the time origin by sum_t; the restart checkpoint stores zn[0] with tn", minimum=4)
    for q in ("Phreeqc::f", "Phreeqc::Jac"):
        fs = [g for g in P.fns_named(q) if g.get("body")]
        if not fs:
            R.anchor_missing(RULE, "%s not found" % q)
            continue
        f = fs[0]
        tname = "t"
        w = [x for x in T.walk(f["body"]) if x[0] == "Bin" and x[2] == "=" and T.strip_casts(x[3])[0] == "Member" and T.strip_casts(x[3])[2] == "Phreeqc::rate_sim_time"]
        inst = "%s:time" % q.split("::")[-1]
        if not w:
            R.violation(RULE, inst, "%s no longer sets rate_sim_time: rates that depend on time see a stale time" % q, file=f["file"], line=f["line"], function=f["q"])
        elif all(any(y[0] == "Ref" and y[2] == "param" and y[3] == tname for y in T.walk(x[4])) for x in w):
            R.ok(RULE, inst, "rate_sim_time = %s" % T.text(w[0][4])[:50])
        else:
            R.violation(RULE, inst, "%s sets rate_sim_time to `%s`, which does not depend on the time argument of the callback: every evaluation inside an internal step uses the time of "
                        "the previous step end, so cvode integrates a different function of time than the Runge-Kutta integrator" % (q, T.text(w[0][4])[:50]),
                        file=f["file"], line=w[0][1], function=f["q"])
    rr = P.one("Phreeqc::run_reactions")
    org = [x for x in T.walk(rr["body"]) if x[0] == "Bin" and x[2] == "=" and T.strip_casts(x[3])[0] == "Member" and T.strip_casts(x[3])[2] == "Phreeqc::cvode_rate_sim_time_start"]
    moved = [x for x in org if any(y[0] == "Ref" and y[3] == "sum_t" for y in T.walk(x[4]))]
    loops = [lp for lp in T.walk(rr["body"]) if lp[0] == "While" and any(y[0] == "Ref" and y[3] == "sum_t" for y in T.walk(lp[3]))]
    if moved and loops and any(any(z is m for z in T.walk(loops[0][3])) for m in moved):
        R.ok(RULE, "restart:origin", "cvode_rate_sim_time_start = %s inside the restart loop" % T.text(moved[0][4])[:40])
    else:
        R.violation(RULE, "restart:origin", "the restart loop of run_reactions re-creates the solver with t0 = 0 but does not move cvode_rate_sim_time_start by the time already "
                    "integrated (sum_t): after a restart time-dependent rates are evaluated sum_t too early", file=rr["file"], line=(loops[0][1] if loops else rr["line"]), function=rr["q"])
    cs = [g for g in P.functions.values() if g.get("body") and g["q"].split("::")[-1] == "CVStep"]
    if not cs:
        R.anchor_missing(RULE, "CVStep not found")
        return
    cp = [c for c in T.calls(cs[0]["body"]) if T.callee_name(c) == "N_VScale" and len(c[4]) == 3 and any(y[0] == "Member" and y[2].endswith("cvode_last_good_y") for y in T.walk(c[4][2]))]
    if not cp:
        R.anchor_missing(RULE, "CVStep: checkpoint copy into cvode_last_good_y not found")
        return
    src = T.strip_casts(cp[0][4][1])
    if src[0] == "Index" and T.strip_casts(src[2])[0] == "Member" and T.strip_casts(src[2])[2].endswith("cv_zn") and T.lit_value(src[3]) == 0:
        R.ok(RULE, "checkpoint:state", "cvode_last_good_y = zn[0] (the accepted state of tn)")
    else:
        R.violation(RULE, "checkpoint:state", "the restart checkpoint stores `%s` with the step time tn; after a rejected attempt that work vector holds the rejected corrector "
                    "result, not the state of tn: a restart resumes from a state that does not belong to the recorded time" % T.text(src)[:30],
                    file=cs[0]["file"], line=cp[0][1], function=cs[0]["q"])


def ratefraction_rule(P, R):
    """The integrators evaluate rates by solving the equilibrium system at a trial state: set_and_run_wrapper(.., use_kinetics = TRUE, ..,
    step_fraction).  Before the integration starts the whole REACTION amount of the step has been applied (the call with
    use_kinetics = FALSE carries the step's fraction), so every rate evaluation runs at fraction 0 - in rk_kinetics, in the CVODE
    right-hand side f and in the CVODE Jacobian Jac, base and perturbed states alike.  A rate evaluation at another fraction integrates
    a different system (f) or differentiates across two systems (Jac).  The one final solve after a CVODE step (`previous solution plus
    net reaction`) is not a rate evaluation and carries 1.0."""
    RULE = "C12.ratefraction"
    R.rule(RULE, "every rate-evaluating solve (set_and_run_wrapper with use_kinetics TRUE) inside rk_kinetics, f and Jac runs at REACTION fraction 0", minimum=12)
    n = 0
    for q in ("Phreeqc::rk_kinetics", "Phreeqc::f", "Phreeqc::Jac"):
        fs = [g for g in P.fns_named(q) if g.get("body")]
        if not fs:
            R.anchor_missing(RULE, "%s not found" % q)
            continue
        f = fs[0]
        for c in T.calls(f["body"]):
            if T.callee_name(c) != "set_and_run_wrapper" or len(c[4]) != 5:
                continue
            uk = T.strip_casts(c[4][2])
            if not (uk[0] == "Lit" and str(uk[3]) in ("1", "true")):
                continue
            n += 1
            a = T.strip_casts(c[4][4])
            inst = "%s@%d" % (q.split("::")[-1], c[1])
            if a[0] == "Lit" and float(str(a[3]).rstrip("fFlL")) == 0.0:
                R.ok(RULE, inst, "fraction 0")
            else:
                R.violation(RULE, inst, "this rate evaluation solves the system with REACTION fraction `%s`; the sibling evaluations (and the base state) use 0: %s"
                            % (T.text(a)[:30], "the Jacobian column is a difference across two different systems divided by 1e-13" if q.endswith("Jac")
                               else "the integrator sees rates of a system with more reactant than the step contains"), file=f["file"], line=c[1], function=f["q"])
    if n < 12:
        R.anchor_missing(RULE, "only %d rate-evaluating solves found (rk_kinetics 9, f 1, Jac 2)" % n)


def transfer_rule(P, R, RULE="C12.transfer"):
    """calc_final_kinetic_reaction: the formula elements added to the system are scaled by `coef`, the moles the reactant
    loses.  The reactant's moles may be clamped to what it has left (Set_moles(m_temp[i])): coef must be read AFTER every
    Set_moles of the component, and every element-list contribution must carry coef as a factor - otherwise the system
    receives more (or less) than the reactant gives up."""
    R.rule(RULE, "calc_final_kinetic_reaction: coef = Get_moles() is read after every clamp of the component's moles; every formula contribution is scaled by coef", minimum=5)
    g = P.one("Phreeqc::calc_final_kinetic_reaction")
    where = dict(file=g["file"], function=g["q"])
    loops = [x for x in T.walk(g["body"]) if x[0] == "For" and any(T.callee_q(c) == "cxxKinetics::Get_kinetics_comps" for c in T.calls(x[3]) if T.is_node(x[3]))]
    if len(loops) != 1 or loops[0][5][0] != "Compound":
        R.anchor_missing(RULE, "component loop of calc_final_kinetic_reaction not found")
        return
    sts = [s_ for s_ in loops[0][5][2] if T.is_node(s_)]
    defs, sets = [], []
    for i, s_ in enumerate(sts):
        for x in T.walk(s_):
            if x[0] == "Bin" and x[2] == "=":
                l = T.strip_casts(x[3])
                r = T.strip_casts(x[4])
                if T.is_node(l) and l[0] == "Ref" and l[3] == "coef" and T.is_node(r) and r[0] == "Call" and T.callee_q(r) == "cxxKineticsComp::Get_moles":
                    defs.append((i, x[1]))
            if x[0] == "Call" and T.callee_q(x) == "cxxKineticsComp::Set_moles":
                sets.append((i, x[1]))
    if len(defs) != 1:
        R.anchor_missing(RULE, "expected exactly one `coef = <comp>->Get_moles()` in the component loop, found %d" % len(defs))
        return
    di, dl = defs[0]
    late = [l for i, l in sets if i >= di]
    if not sets:
        R.anchor_missing(RULE, "the exhaustion clamp Set_moles(m_temp[i]) is no longer in the component loop")
    elif late:
        R.violation(RULE, "coef:after-clamp", "coef is read at line %d but the component's moles are still changed afterwards (Set_moles at line %s): the formula "
                    "elements added to the system are scaled by the unclamped amount while the reactant loses the clamped one" % (dl, late), line=dl, **where)
    else:
        R.ok(RULE, "coef:after-clamp", "coef read at line %d after the clamp(s) at line(s) %s" % (dl, [l for i, l in sets]))
    # every contribution carries coef
    n = 0
    for x in T.walk(loops[0][5]):
        if x[0] == "Call" and T.callee_name(x) in ("add_elt_list", "get_elts_in_species") and len(x[4]) >= 2:
            n += 1
            inst = "%s#%d" % (T.callee_name(x), n)
            fac = x[4][1]
            has = any(y[0] == "Ref" and y[3] == "coef" for y in T.walk(fac))
            lin = T.strip_casts(fac)
            ok = has and (lin[0] == "Ref" or (lin[0] == "Bin" and lin[2] == "*") or (lin[0] == "Un" and lin[2] == "-"))
            if ok:
                R.ok(RULE, inst, "scaled by " + T.text(fac)[:60])
            else:
                R.violation(RULE, inst, "formula contribution `%s` is not a product with coef" % T.text(fac)[:80], line=x[1], **where)
    # the loop cannot skip a component except for coef == 0
    for x in T.walk(loops[0][5]):
        if x[0] == "If" and any(y[0] == "Continue" for y in T.walk(x[3])):
            c = T.strip_casts(x[2])
            ok = c[0] == "Bin" and c[2] == "==" and T.strip_casts(c[3])[0] == "Ref" and T.strip_casts(c[3])[3] == "coef" and \
                T.strip_casts(c[4])[0] == "Lit" and frac_lit(T.strip_casts(c[4])[3]) == 0
            if ok:
                R.ok(RULE, "skip:zero", "components are skipped only when coef == 0")
            else:
                R.violation(RULE, "skip:%d" % x[1], "a component is skipped under `%s`: its reaction is not transferred to the system" % T.text(x[2])[:60], line=x[1], **where)


def step_rule(P, R, f, cfg, where):
    rule = "C12.step"
    R.rule(rule, "h_sum advances by h exactly once, on the accepted branch of the error test; loop while h_sum < kin_time; step clamped; final rate_sim_time = start + kin_time", minimum=6)

    def is_local(n, name):
        n = T.strip_casts(n)
        return T.is_node(n) and n[0] == "Ref" and n[2] in ("local", "param") and n[3] == name

    # writers of h_sum
    hs = []
    for tgt, how, line, node in T.writes(f["body"]):
        if is_local(tgt, "h_sum"):
            hs.append((how, line, node))
    adv = [w for w in hs if w[0] == "op=" and w[2][2] == "+=" and is_local(w[2][4], "h")]
    zero = [w for w in hs if w[0] == "=" and T.lit_value(w[2][4]) == 0 or (w[0] == "=" and T.strip_casts(w[2][4])[0] == "Lit" and frac_lit(T.strip_casts(w[2][4])[3]) == 0)]
    other = [w for w in hs if w not in adv and w not in zero]
    if len(adv) == 1 and not other:
        R.ok(rule, "h_sum writers", "initialised to 0, advanced by `h_sum += h` at line %d only" % adv[0][1])
    else:
        R.violation(rule, "h_sum writers", "integrated time h_sum must be advanced by exactly one `h_sum += h` (found %d) and no other write (found %d at lines %s)"
                    % (len(adv), len(other), [w[1] for w in other]), line=(adv[0][1] if adv else f["line"]), **where)
        return
    # the error-test If
    errif = None
    loop = None
    for x in T.walk(f["body"]):
        if x[0] == "If":
            cnd = T.strip_casts(x[2])
            if cnd[0] == "Bin" and cnd[2] in (">", ">=") and is_local(cnd[3], "error_max") and errif is None:
                try:
                    one = frac_lit(T.strip_casts(cnd[4])[3]) if T.strip_casts(cnd[4])[0] == "Lit" else None
                except Exception:
                    one = None
                if one == 1:
                    errif = x
        if x[0] == "While" and loop is None:
            cnd = T.strip_casts(x[2])
            if cnd[0] == "Bin" and is_local(cnd[3], "h_sum") and is_local(cnd[4], "kin_time"):
                loop = x
    if errif is None or loop is None:
        R.anchor_missing(rule, "error test `if (error_max > 1)` or loop `while (h_sum < kin_time)` not found in rk_kinetics")
        return
    cnd = T.strip_casts(loop[2])
    if cnd[2] == "<":
        R.ok(rule, "loop condition", "while (h_sum < kin_time)")
    else:
        R.violation(rule, "loop condition", "integration loop condition is `h_sum %s kin_time`, expected `<`" % cnd[2], line=loop[1], **where)

    def contains(sub, node):
        return any(y is node for y in T.walk(sub))
    advn = adv[0][2]
    if T.is_node(errif[4]) and contains(errif[4], advn) and not contains(errif[3], advn):
        R.ok(rule, "advance on accepted branch", "`h_sum += h` is in the else-branch of `error_max > 1`")
    else:
        R.violation(rule, "advance on accepted branch", "`h_sum += h` is not confined to the accepted (else) branch of the error test",
                    line=adv[0][1], **where)
    # the result combination (Set_moles with stage 6 weight) and saver() are in the accepted branch too
    sb = [n for tgt, how, line, n in T.writes(errif[3]) if is_local(tgt, "step_bad")]
    so = [n for tgt, how, line, n in T.writes(errif[4]) if is_local(tgt, "step_ok")] if T.is_node(errif[4]) else []
    if sb and so:
        R.ok(rule, "rejected/accepted counters", "step_bad++ on rejection, step_ok++ on acceptance")
    else:
        R.violation(rule, "rejected/accepted counters", "step_bad must be incremented on the rejected branch and step_ok on the accepted branch",
                    line=errif[1], **where)
    lb = [n for tgt, how, line, n in T.writes(errif[3]) if is_local(tgt, "l_bad") and how == "=" and T.lit_value(n[4]) not in (0, None)]
    hred = [n for tgt, how, line, n in T.writes(errif[3]) if is_local(tgt, "h")]
    if lb and hred:
        R.ok(rule, "rejection re-tries", "rejected branch shrinks h and sets l_bad so that k1 is re-scaled, not re-evaluated at a new state")
    else:
        R.violation(rule, "rejection re-tries", "the rejected branch must reduce h and flag l_bad", line=errif[1], **where)
    # clamp: inside accepted branch an If (h > kin_time - h_sum) h = kin_time - h_sum
    clamp = False
    if T.is_node(errif[4]):
        for x in T.walk(errif[4]):
            if x[0] == "If":
                c2 = T.strip_casts(x[2])
                if c2[0] == "Bin" and c2[2] in (">", ">=") and is_local(c2[3], "h"):
                    r = T.strip_casts(c2[4])
                    if r[0] == "Bin" and r[2] == "-" and is_local(r[3], "kin_time") and is_local(r[4], "h_sum"):
                        for tgt, how, line, n in T.writes(x[3]):
                            if is_local(tgt, "h") and how == "=":
                                r2 = T.strip_casts(n[4])
                                if r2[0] == "Bin" and r2[2] == "-" and is_local(r2[3], "kin_time") and is_local(r2[4], "h_sum"):
                                    clamp = True
    if clamp:
        R.ok(rule, "clamp", "next step limited to kin_time - h_sum")
    else:
        R.violation(rule, "clamp", "the next step size is not limited to the remaining time kin_time - h_sum (the integration could overshoot the requested time)",
                    line=errif[1], **where)
    # partial steps disable the one-step early exits: the -runge_kutta 1/2/3 exits apply ONE step of size h and leave
    # the loop, which integrates the whole interval only if h == kin_time.  Every block that gives h another value
    # before the early-exit tests (i.e. outside the error-test statement, where the exits were already passed with
    # equal_rate false) must therefore also clear equal_rate.
    R.rule("C12.partialstep", "every block that shortens the step h before the early-exit tests also sets equal_rate = FALSE", minimum=2)
    for x in T.walk(f["body"]):
        if x[0] != "Compound" or contains(errif, x):
            continue
        hw = []
        for st in x[2]:
            if not T.is_node(st) or st[0] in T.STMT_KINDS:
                continue
            for tgt, how, line, n in T.writes(st):
                if is_local(tgt, "h"):
                    full = False
                    if how == "=":
                        r = n[4]
                        while T.is_node(r) and r[0] == "Bin" and r[2] == "=":
                            r = r[4]          # h = h_old = kin_time
                        full = is_local(r, "kin_time")
                    if not full:
                        hw.append(line)
        if not hw:
            continue
        clears = [n for st in x[2] if T.is_node(st) and st[0] not in T.STMT_KINDS
                  for tgt, how, line, n in T.writes(st) if is_local(tgt, "equal_rate") and how == "=" and T.lit_value(n[4]) == 0]
        inst = "block@h=%s" % ("divide" if any("step_divide" in T.text(st) for st in x[2] if T.is_node(st)) else "reduce")
        if clears:
            R.ok("C12.partialstep", inst, "h shortened at line %d, equal_rate cleared at line %d" % (hw[0], clears[0][1]))
        else:
            R.violation("C12.partialstep", inst, "the step h is shortened at line %d without clearing equal_rate: a -runge_kutta 1/2/3 early exit would "
                        "then transfer only h/kin_time of the requested interval while time advances by kin_time" % hw[0], line=hw[0], **where)

    # final rate_sim_time = start + kin_time after the loop (post-dominates)
    fin = None
    for tgt, how, line, n in T.writes(f["body"]):
        t = T.strip_casts(tgt)
        if t[0] == "Member" and t[2] == "Phreeqc::rate_sim_time" and how == "=" and not contains(loop, n):
            r = T.strip_casts(n[4])
            if r[0] == "Bin" and r[2] == "+" and {"start", "kin"} == set(
                    "start" if (T.strip_casts(s)[0] == "Member" and T.strip_casts(s)[2] == "Phreeqc::rate_sim_time_start") else
                    ("kin" if is_local(s, "kin_time") else "?") for s in (r[3], r[4])) and line > loop[1]:
                fin = n
    if fin is not None:
        R.ok(rule, "final time", "rate_sim_time = rate_sim_time_start + kin_time after the loop (line %d)" % fin[1])
    else:
        R.violation(rule, "final time", "after the integration loop rate_sim_time is not set to rate_sim_time_start + kin_time",
                    line=loop[1], **where)


def halfstep_rule(P, R):
    """Kinetics inside an advective TRANSPORT shift: the water that leaves the column through the inflow cell has been there for half a
    time step on average, so transport() reacts the inflow cell (first_c: cell 1 for forward, cell n for backward flow) for timest/2
    before the shift and for timest/2 after it, every other cell once for timest.  Three sites must name the same cell: the pre-shift
    half step `run_reactions(<cell>, kin_time_save / 2 ...)`, the `if (i == <cell>) kin_time /= 2` in the loop after the shift and the
    `if (i == <cell>) kin_time = kin_time_save` that ends it.  If they differ, one cell reacts for 1.5 and another for 0.5 time steps:
    the reactants no longer follow the closed-form solutions although mass balance and reported times stay right."""
    RULE = "C12.halfstep"
    R.rule(RULE, "transport: the pre-shift half step, the halving and the restoring of kin_time after the shift name the same (inflow) cell", minimum=3)
    f = P.one("Phreeqc::transport")

    def is_kin_time(n):
        n = T.strip_casts(n)
        return T.is_node(n) and n[0] == "Ref" and n[3] == "kin_time"

    def single(st):
        return st[2][0] if T.is_node(st) and st[0] == "Compound" and len(st[2]) == 1 else st

    def eq_operand(cond):
        """E of a conjunct `i == E`"""
        out = []

        def rec(c):
            c = T.strip_casts(c)
            if T.is_node(c) and c[0] == "Paren":
                return rec(c[2])
            if T.is_node(c) and c[0] == "Bin" and c[2] == "&&":
                rec(c[3])
                rec(c[4])
                return
            if T.is_node(c) and c[0] == "Bin" and c[2] == "==":
                a, b = T.strip_casts(c[3]), T.strip_casts(c[4])
                if T.is_node(a) and a[0] == "Ref" and a[3] == "i":
                    out.append(" ".join(T.text(b).split()))
                elif T.is_node(b) and b[0] == "Ref" and b[3] == "i":
                    out.append(" ".join(T.text(a).split()))
        rec(cond)
        return out
    pre, halve, restore = [], [], []
    for x in T.walk(f["body"]):
        if x[0] == "Compound":
            st = x[2]
            for k, s_ in enumerate(st):
                # kin_time = kin_time_save / 2; run_reactions(E, kin_time, ...)
                if T.is_node(s_) and s_[0] == "Bin" and s_[2] == "=" and is_kin_time(s_[3]) and T.is_node(T.strip_casts(s_[4])) and T.strip_casts(s_[4])[0] == "Bin" \
                        and T.strip_casts(s_[4])[2] == "/" and T.lit_value(T.strip_casts(T.strip_casts(s_[4])[4])) == 2:
                    for nx in st[k + 1:k + 3]:
                        if T.is_node(nx) and nx[0] == "Call" and T.callee_name(nx) == "run_reactions" and nx[4]:
                            pre.append((nx[1], " ".join(T.text(nx[4][0]).split())))
        if x[0] == "If" and not T.is_node(x[4]):
            b = single(x[3])
            if T.is_node(b) and b[0] == "Compound":      # the block may also move the time origin: take its kin_time statement
                ks = [y for y in b[2] if T.is_node(y) and y[0] == "Bin" and is_kin_time(y[3])]
                b = ks[0] if len(ks) == 1 else b
            if T.is_node(b) and b[0] == "Bin" and is_kin_time(b[3]):
                ops = eq_operand(x[2])
                if b[2] == "/=" and T.lit_value(T.strip_casts(b[4])) == 2 and ops:
                    halve.append((x[1], ops[0]))
                elif b[2] == "=" and T.is_node(T.strip_casts(b[4])) and T.strip_casts(b[4])[0] == "Ref" and T.strip_casts(b[4])[3] == "kin_time_save" and ops:
                    restore.append((x[1], ops[0]))
    if len(pre) != 1 or len(halve) != 1 or len(restore) != 1:
        R.anchor_missing(RULE, "transport: half-step sites found: pre %d, halve %d, restore %d (1 each expected)" % (len(pre), len(halve), len(restore)))
        return
    ref = pre[0][1]
    R.ok(RULE, "pre-shift", "run_reactions(%s, kin_time_save / 2) at line %d" % (ref, pre[0][0]))
    for tag, (line, e) in (("halve", halve[0]), ("restore", restore[0])):
        if e == ref:
            R.ok(RULE, tag, "`i == %s` at line %d" % (e, line))
        else:
            R.violation(RULE, tag, "the pre-shift half step is given to cell `%s` (line %d) but kin_time is %s after the shift for `i == %s` (line %d): with the other flow "
                        "direction one end cell reacts for 1.5 and the other for 0.5 time steps per shift" % (ref, pre[0][0], "halved" if tag == "halve" else "restored", e, line),
                        file=f["file"], line=line, function=f["q"])


def halforigin_rule(P, R):
    """The two half steps of the inflow cell cover [t, t + dt/2] and [t + dt/2, t + dt].  run_reactions integrates from the member
    rate_sim_time_start; the block that halves kin_time for the second half step must advance rate_sim_time_start by the half step and the
    block that restores kin_time must take it back - otherwise a rate that depends on TOTAL_TIME is integrated twice over the first half
    (cell 1 held 9.9775e-3 for 9.955e-3) and the cell is punched with the time of the half step."""
    RULE = "C12.halforigin"
    R.rule(RULE, "transport: the second half step of the inflow cell starts where the first ended (rate_sim_time_start advanced with the halving, restored with kin_time)", minimum=2)
    f = P.one("Phreeqc::transport")

    def is_kin_time(n):
        n = T.strip_casts(n)
        return T.is_node(n) and n[0] == "Ref" and n[3] == "kin_time"

    def origin_shift(block):
        for t, how, line, w in T.writes(block):
            root, steps = T.access_path(t)
            txt = T.text(t)
            if "rate_sim_time_start" in txt and how == "op=":
                return w[2], " ".join(T.text(w[4]).split())
        return None
    found = 0
    for x in T.walk(f["body"]):
        if x[0] != "If" or T.is_node(x[4]):
            continue
        body = x[3]
        stmts = body[2] if T.is_node(body) and body[0] == "Compound" else [body]
        ks = [y for y in stmts if T.is_node(y) and y[0] == "Bin" and is_kin_time(y[3])]
        if len(ks) != 1 or not any(y[0] == "Ref" and y[3] == "i" for y in T.walk(x[2])):
            continue
        k = ks[0]
        if k[2] == "/=" and T.lit_value(T.strip_casts(k[4])) == 2:
            found += 1
            sh = origin_shift(body)
            if sh and sh[0] == "+=" and sh[1] == "kin_time":
                R.ok(RULE, "halve", "rate_sim_time_start += kin_time (line %d)" % x[1])
            else:
                R.violation(RULE, "halve", "kin_time is halved for the second half step of the inflow cell (line %d) but rate_sim_time_start is not advanced by the half step: both "
                            "halves are integrated from the same time" % x[1], file=f["file"], line=x[1], function=f["q"])
        elif k[2] == "=" and "kin_time_save" in T.text(k[4]):
            found += 1
            sh = origin_shift(body)
            if sh and sh[0] == "-=" and sh[1] == "kin_time":
                R.ok(RULE, "restore", "rate_sim_time_start -= kin_time (line %d)" % x[1])
            else:
                R.violation(RULE, "restore", "kin_time is restored after the inflow cell (line %d) but the time origin is not: the following cells are integrated from a time "
                            "that is half a step late" % x[1], file=f["file"], line=x[1], function=f["q"])
    if found != 2:
        R.anchor_missing(RULE, "transport: %d of the 2 kin_time blocks of the inflow cell found" % found)


def cvodeorigin_rule(P, R):
    """While CVODE integrates, the rate programs see TOTAL_TIME / SIM_TIME through `rate_sim_time = cvode_rate_sim_time_start + t` (f and
    Jac).  The origin must be the start of the step, rate_sim_time_start (plus the time already integrated after a restart), never the
    end of the step (rate_sim_time): every assignment to cvode_rate_sim_time_start in run_reactions reads rate_sim_time_start and does not
    read rate_sim_time; f and Jac add their own t to it.  A wrong origin leaves mass balance and reported times intact and shifts only the
    amount reacted by time-dependent rate laws, from step 2 of a cumulative list on."""
    RULE = "C12.cvodeorigin"
    R.rule(RULE, "the time origin CVODE hands to the rate programs is the start of the step (rate_sim_time_start), and f / Jac add t to it", minimum=4)
    f = P.one("Phreeqc::run_reactions")
    n = 0
    for x in T.walk(f["body"]):
        if x[0] == "Bin" and x[2] == "=" and T.is_node(T.strip_casts(x[3])) and T.strip_casts(x[3])[0] == "Member" and T.strip_casts(x[3])[2] == "Phreeqc::cvode_rate_sim_time_start":
            n += 1
            mem = {y[2] for y in T.walk(x[4]) if y[0] == "Member"}
            inst = "run_reactions@%d" % x[1]
            if "Phreeqc::rate_sim_time_start" in mem and "Phreeqc::rate_sim_time" not in mem:
                R.ok(RULE, inst, "origin = %s" % " ".join(T.text(x[4]).split())[:50])
            else:
                R.violation(RULE, inst, "cvode_rate_sim_time_start is assigned `%s`: the rate programs then see a clock that does not start at the beginning of the step - a rate law that "
                            "uses TOTAL_TIME or SIM_TIME integrates over a shifted interval" % " ".join(T.text(x[4]).split())[:60], file=f["file"], line=x[1], function=f["q"])
    for q in ("Phreeqc::f", "Phreeqc::Jac"):
        for g in P.fns_named(q):
            for x in T.walk(g["body"]):
                if x[0] == "Bin" and x[2] == "=" and any(y[0] == "Member" and y[2] == "Phreeqc::rate_sim_time" for y in T.walk(x[3])):
                    n += 1
                    inst = "%s@%d" % (q.split("::")[-1], x[1])
                    mem = {y[2] for y in T.walk(x[4]) if y[0] == "Member"}
                    has_t = any(y[0] == "Ref" and y[2] == "param" and y[3] == "t" for y in T.walk(x[4]))
                    if "Phreeqc::cvode_rate_sim_time_start" in mem and has_t:
                        R.ok(RULE, inst, "rate_sim_time = cvode_rate_sim_time_start + t")
                    else:
                        R.violation(RULE, inst, "%s sets rate_sim_time to `%s`, not to the CVODE origin plus the integrator's time" % (q, " ".join(T.text(x[4]).split())[:50]),
                                    file=g["file"], line=x[1], function=g["q"])
    if n < 4:
        R.anchor_missing(RULE, "only %d assignments of the CVODE time origin / clock found" % n)


def exitcheck_rule(P, R):
    """"the amounts after a time step do not depend on how the step is divided" presupposes that a step is never accepted on the strength
    of the rates at its start alone.  rk_kinetics evaluates k1 at the start of every sub-step (the first calc_kinetic_reaction of the loop
    body) and has three early acceptances (`goto EQUAL_RATE_OUT`, for -runge_kutta 1, 2, 3 with equal stage rates).  On every path of
    the control-flow graph from the k1 evaluation to such a goto there must be a further calc_kinetic_reaction - a rate evaluated later
    in the step that the exit compared with k1.  (With all rates zero at the start, the rk 1 exit was taken without one: a rate that
    depends on time was lost for the whole step.)"""
    RULE = "C12.exitcheck"
    R.rule(RULE, "rk_kinetics: every early acceptance of a step (goto EQUAL_RATE_OUT) is preceded on all paths by a rate evaluation later than k1", minimum=3)
    f = P.one("Phreeqc::rk_kinetics")
    cfg = T.CFG(f)
    evals = [i for i, nd in enumerate(cfg.nodes) if T.is_node(nd["n"]) and any(T.callee_name(c) == "calc_kinetic_reaction" for c in T.calls(nd["n"]))]
    exits = [i for i, nd in enumerate(cfg.nodes) if T.is_node(nd["n"]) and nd["n"][0] == "Goto" and nd["n"][2] == "EQUAL_RATE_OUT"]
    if len(evals) < 6 or len(exits) < 3:
        R.anchor_missing(RULE, "rk_kinetics: %d rate evaluations, %d early exits found" % (len(evals), len(exits)))
        return
    k1 = min(evals, key=lambda i: cfg.nodes[i]["line"])
    # forward search from k1 that stops at any other rate evaluation (and at k1 itself, the next sub-step).  The search carries what the
    # branch conditions have established about local flags compared with literals (`zero_rate == FALSE` not taken, so `zero_rate == TRUE`
    # must be taken): complementary tests of one flag are the idiom of this function, and a path that skips both is infeasible.
    def flag_test(n):
        """(var, value, equal?) for `v == lit`, `v != lit`, `v`, `!v` on a local scalar"""
        n = T.strip_casts(n)
        if not T.is_node(n):
            return None
        if n[0] == "Paren":
            return flag_test(n[2])
        if n[0] == "Bin" and n[2] in ("==", "!="):
            a, b = T.strip_casts(n[3]), T.strip_casts(n[4])
            if T.is_node(a) and a[0] == "Ref" and a[2] == "local" and T.lit_value(b) is not None:
                return a[3], T.lit_value(b), n[2] == "=="
        if n[0] == "Ref" and n[2] == "local":
            return n[3], 0, False
        if n[0] == "Un" and n[2] == "!":
            t = flag_test(n[3])
            return (t[0], t[1], not t[2]) if t else None
        return None

    def apply_writes(n, state):
        if not T.is_node(n):
            return state
        for t, how, line, w in T.writes(n):
            t = T.strip_casts(t)
            if T.is_node(t) and t[0] == "Ref" and t[2] == "local" and t[3] in state:
                v = T.lit_value(T.strip_casts(w[4])) if how == "=" else None
                state = dict(state)
                if v is None:
                    state.pop(t[3])
                else:
                    state[t[3]] = v
            elif T.is_node(t) and t[0] == "Ref" and t[2] == "local" and how == "=" and T.lit_value(T.strip_casts(w[4])) is not None:
                state = dict(state)
                state[t[3]] = T.lit_value(T.strip_casts(w[4]))
        return state
    seen, visited = set(), set()
    st = [(y, ()) for y in cfg.nodes[k1]["succ"]]
    while st:
        x, items = st.pop()
        if x in evals or (x, items) in visited:
            continue
        visited.add((x, items))
        seen.add(x)
        nd = cfg.nodes[x]
        state = dict(items)
        ft = flag_test(nd["n"]) if len(nd["succ"]) == 2 else None
        if ft is not None:
            var, val, eq = ft
            known = state.get(var)
            for k, y in enumerate(nd["succ"]):
                taken_true = (k == 0)
                holds_eq = taken_true == eq            # on this edge `var == val` holds (True) or fails (False)
                if known is not None and (known == val) != holds_eq:
                    continue                            # infeasible edge
                s2 = dict(state)
                if holds_eq:
                    s2[var] = val
                elif val in (0, 1) and known is None:
                    s2[var] = 1 - val                   # TRUE/FALSE flags
                st.append((y, tuple(sorted(s2.items()))))
            continue
        state = apply_writes(nd["n"], state)
        for y in nd["succ"]:
            st.append((y, tuple(sorted(state.items()))))
    for g in sorted(exits, key=lambda i: cfg.nodes[i]["line"]):
        inst = "exit@%d" % (cfg.nodes[g]["line"] - f["line"])
        if g in seen:
            R.violation(RULE, inst, "the early exit at line %d can be reached from the k1 evaluation (line %d) without any later rate evaluation: the step is accepted on the rates "
                        "at its start alone, a rate that depends on time (or on what the step changes) is never seen" % (cfg.nodes[g]["line"], cfg.nodes[k1]["line"]),
                        file=f["file"], line=cfg.nodes[g]["line"], function=f["q"])
        else:
            R.ok(RULE, inst, "a later calc_kinetic_reaction lies on every path from k1 (line %d)" % cfg.nodes[k1]["line"])


def timesum_rule(P, R):
    """With INCREMENTAL_REACTIONS true, reaction step k is integrated over cxxKinetics::Current_step(true, k) seconds, and two places in
    print.cpp compute the time that is REPORTED for step k (SELECTED_OUTPUT -time, the "Incremented time" heading, TOTAL_TIME of
    USER_PRINT) with their own arithmetic over the -steps list.  The amounts belong to the reported time only if that arithmetic equals
    the sum of the integrated increments, also past the end of the list (an explicit list repeats its last increment, `T in n steps`
    stops).  Both sides are executed concretely (engine/minieval.py) for an explicit list 100 200 100 and for `400 in 4 steps`, steps
    1..6."""
    from .. import minieval as ME
    RULE = "C12.timesum"
    R.rule(RULE, "incremental reactions: the reported time of step k is the sum of Current_step(true, 1..k), for an explicit list and for `in n steps`, past the end too", minimum=12)
    cur = P.one("cxxKinetics::Current_step")
    models = {"list": dict(steps=[100.0, 200.0, 100.0], equal=0, count=3), "equal": dict(steps=[400.0], equal=1, count=4)}

    def getter(model):
        def oncall(c):
            nm = T.callee_name(c)
            if nm == "Get_steps":
                return model["steps"]
            if nm == "Get_equalIncrements":
                return model["equal"]
            if nm in ("Get_count",):
                return model["count"]
            if nm == "Get_reaction_steps":
                return model["count"] if model["equal"] else len(model["steps"])
            if nm == "Get_kinetics_ptr":
                return 1
            return None
        return oncall

    def integrated(model, k):
        env = ME.Env(vectors={"steps": model["steps"]}, scalars={"equalIncrements": model["equal"], "count": model["count"],
                                                                  cur["pnames"][0]: 1, cur["pnames"][1]: k})
        env.oncall = getter(model)
        try:
            ME.run(cur["body"], env)
        except ME.Returned as r:
            return r.value
        raise ME.Unsupported("Current_step did not return")
    sites = []
    for q in ("Phreeqc::punch_identifiers", "Phreeqc::print_user_print", "Phreeqc::punch_user_punch", "Phreeqc::print_all", "Phreeqc::print_kinetics"):
        for g in P.fns_named(q):
            if not g.get("body"):
                continue
            for x in T.walk(g["body"]):
                if x[0] == "If":
                    tg = {"".join(T.text(t).split()) for t, how, line, w in T.writes(x[3]) if how in ("=", "op=")}
                    tg = {t for t in tg if t in ("reaction_time", "sim_time")}
                    conds = T.text(x[2], -40)
                    if tg and "Get_equalIncrements" in conds and x[2][0] == "Un":
                        sites.append((g, x, sorted(tg)[0]))
    if len(sites) < 2:
        R.anchor_missing(RULE, "print.cpp: %d computations of the incremental reaction time found (2 confirmed)" % len(sites))
        return
    for g, x, var in sites:
        for mname, model in sorted(models.items()):
            for k in range(1, 7):
                inst = "%s:%s:%s:step%d" % (g["q"].split("::")[-1], var, mname, k)
                try:
                    want = sum(integrated(model, j) for j in range(1, k + 1))
                    env = ME.Env(scalars={"reaction_step": k, var: 0.0, "i": 0})
                    env.oncall = getter(model)
                    ME.run(x, env)
                    got = env.var[var]
                except (ME.Unsupported, IndexError, KeyError) as e:
                    R.anchor_missing(RULE, "%s: not evaluable (%s)" % (inst, e))
                    return
                if abs(got - want) < 1e-9:
                    R.ok(RULE, inst, "reported %g = integrated %g" % (got, want))
                else:
                    R.violation(RULE, inst, "step %d of %s: %s reports the time %g but the steps integrated so far (Current_step) add up to %g: the punched amounts belong to another "
                                "time than the one reported" % (k, "an explicit -steps list 100 200 100" if mname == "list" else "`-steps 400 in 4 steps`", g["q"].split("::")[-1],
                                                                got, want), file=g["file"], line=x[1], function=g["q"])
