"""C02 – closed-system conservation of elements and charge in reaction steps.

Only the *assembly / write-back / totalisation skeleton* is decided (a deliberately narrow claim):
  C02.assemble  Phreeqc::step assembles the reacting system from ALL parts present: for every reacting kind there is a block
                guarded by `use.Get_<kind>_ptr() != NULL` whose add_<kind>/<kind>_check helpers are of that same kind; the
                solution-or-mix alternative ends in a STOP error when neither exists
  C02.save      Phreeqc::saver writes back ALL parts flagged in `save`: one block per flag, each calling x<kind>_save of the
                same kind on the same kind's store and number range
  C02.transfer  a kinetic reactant hands the system exactly the moles it loses: in calc_final_kinetic_reaction the scale factor of
                the added elements is read after the exhaustion clamp and carried by every contribution (shared with C12)
  C02.total     inventories are totalised over all parts: cxxSystem::totalize adds every element-carrying part with
                coefficient 1 (solution incl. H, O and charge); each entity's totalize() clears its totals and adds every
                component in one unconditional loop (charge included where the component carries a charge balance)
  C02.usereset  the cell set-up functions (set_advection, set_transport) set use.<kind>_in(true) where the cell has the kind and
                use.<kind>_in(false) where it has not: pointer and flag of a kind travel together
  C02.samemodel the `same model` shortcut of prep(): every structure entry save_model stores is compared by check_same_model with an
                unconditional `!=` against the same source expression (and the lengths are compared); the saved identity reads the names
                of every class the setup_<kind> functions build unknowns from (solid solution and its components)
NOT decided: the arithmetic inside add_*/x*_save/totalize callees (dropped term, wrong coefficient or sign), non-negativity.
"""
import json
import os

from .. import tree as T
from .. import kinds as KN

PROP = "C02"
EXPLANATION = __doc__


def guard_kind(K, cond, classes=("cxxUse",)):
    """kinds named by cxxUse getters in a condition"""
    ks = {}
    for c in T.calls(cond):
        cd = c[2]
        if isinstance(cd, dict) and cd.get("cls") in classes:
            for k in K.of_name(T.callee_name(c)):
                ks.setdefault(k, []).append(T.callee_name(c))
    return ks


def bind_rule(P, R, K):
    """A reaction step of cell i reads each of its reactants from slot i of that kind's store and the save step writes the
    products back to slot i: chained sub-steps (incremental reactions, kinetic sub-steps, transport shifts) pass one step's
    products into the next through that slot.  A binder that looks one kind up under another key (e.g. the user's original
    number) makes every sub-step start again from the initial reactant: its elements are created or lost."""
    R.rule("C02.bind", "cell binders look every reactant kind up under the cell parameter; set_use under that kind's own use number", minimum=40)
    for q in ("Phreeqc::set_reaction", "Phreeqc::set_transport", "Phreeqc::set_advection", "Phreeqc::set_use"):
        f = P.one(q)
        cell = f["pnames"][0] if f["pnames"] else None
        n = 0
        for c in T.calls(f["body"]):
            if T.callee_name(c) != "Rxn_find" or len(c[4]) != 2:
                continue
            st = T.strip_casts(c[4][0])
            if not (st[0] == "Member" and st[2].startswith("Phreeqc::")):
                continue
            store = st[2].split("::")[-1]
            key = T.strip_casts(c[4][1])
            n += 1
            inst = "%s:%s@%d" % (q.split("::")[-1], store, c[1])
            where = dict(file=f["file"], line=c[1], function=f["q"])
            if q.endswith("set_use"):
                kinds = K.of_name(store)
                okk = key[0] == "Call" and T.callee_name(key).startswith("Get_n_") and T.callee_name(key).endswith("_user") and K.of_name(T.callee_name(key)) == kinds and kinds
                if okk:
                    R.ok("C02.bind", inst, "keyed by %s" % T.callee_name(key))
                else:
                    R.violation("C02.bind", inst, "set_use looks %s up under `%s`, not under that kind's own use number" % (store, T.text(key)[:60]), **where)
            else:
                if key[0] == "Ref" and key[2] == "param" and key[3] == cell:
                    R.ok("C02.bind", inst, "keyed by the cell parameter `%s`" % cell)
                else:
                    R.violation("C02.bind", inst, "%s looks %s up under `%s` instead of the cell parameter `%s`: the products the previous sub-step saved in slot %s are not the "
                                "reactant of the next one" % (q.split("::")[-1], store, T.text(key)[:60], cell, cell), **where)
        if n < 8:
            R.anchor_missing("C02.bind", "%s: only %d store look-ups found" % (q, n))


def stage_rule(P, R):
    """Phreeqc::state orders the calculation stages (initial solution/exchange/surface/gas < REACTION < inverse/advection/
    transport).  Dozens of places switch mass-balance bookkeeping (diffuse-layer water, H/O balances, surface-related
    corrections) on "is this a reaction-or-later stage": they all test `state >= REACTION` or `state < REACTION`.  A test
    that puts the stage constant itself on the other side (`state > REACTION`) makes that one correction disagree with all
    the others for batch reactions - e.g. the diffuse-layer water is not subtracted from the H/O totals and water is created."""
    import collections
    R.rule("C02.stage", "all relational tests of the calculation stage against one stage constant put that constant on the same side", minimum=25)
    sites = collections.defaultdict(list)
    flip = {"<": ">", ">": "<", "<=": ">=", ">=": "<="}
    for key, f in sorted(P.functions.items()):
        for x in T.walk(f["body"]):
            if x[0] == "Bin" and x[2] in flip:
                a, b = T.strip_casts(x[3]), T.strip_casts(x[4])
                for s_, o_, op in ((a, b, x[2]), (b, a, flip[x[2]])):
                    if T.is_node(s_) and s_[0] == "Member" and s_[2] == "Phreeqc::state":
                        v = T.lit_value(o_)
                        if v is not None:
                            sites[v].append((v if op in (">=", "<") else v + 1, op, f, x[1]))
    for v, lst in sorted(sites.items()):
        cnt = collections.Counter(c for c, _, _, _ in lst)
        major, nmaj = cnt.most_common(1)[0]
        for cut, op, f, line in lst:
            inst = "stage %d:%s@%d" % (v, f["q"].split("::")[-1], line)
            if cut == major or len(lst) < 5:
                R.ok("C02.stage", inst, "state %s %d" % (op, v))
            else:
                R.violation("C02.stage", inst, "`state %s %d` puts stage %d on the other side than the %d other tests of the same stage constant (they use %s): this "
                            "bookkeeping switch disagrees with the rest of the engine for exactly that stage" % (op, v, v, nmaj, "`>=` / `<`" if major == v else "`>` / `<=`"),
                            file=f["file"], line=line, function=f["q"])


def models_rule(P, R, RULE="C02.models"):
    """The diffuse-layer (DDL) and constant-capacitance (CCM) models are the two single-plane electrostatic surface models: every
    bookkeeping decision that depends on "this surface carries charge in a charge component" treats them alike.  Only the code
    that implements their different charge-potential LAW (residuals, its Jacobian, the printed potential) may name one without
    the other.  A test that names DDL but not CCM elsewhere drops the behaviour for CCM surfaces - e.g. the surface charge no
    longer enters the charge balance of a reaction step."""
    import collections
    R.rule(RULE, "outside the charge-potential law itself, every test on the surface model that names DDL names CCM too (and vice versa)", minimum=12)
    LAW = ("residuals", "jacobian_sums", "print_surface", "print_surface_cd_music",
           "tidy_surface")      # tidy_surface: input validation only (CCM cannot be combined with an explicit diffuse layer); read and confirmed
    n = 0
    for key, f in sorted(P.functions.items()):
        for x in T.walk(f["body"]):
            if x[0] not in ("If", "Cond", "While"):
                continue
            names = set()
            for y in T.walk(x[2]):
                if y[0] == "Bin" and y[2] in ("==", "!="):
                    for side in (y[3], y[4]):
                        s_ = T.strip_casts(side)
                        if s_[0] == "Ref" and s_[2] == "enum" and s_[3].split("::")[-1] in ("DDL", "CCM") and "Surface" in (s_[4] if len(s_) > 4 and isinstance(s_[4], str) else "Surface"):
                            names.add(s_[3].split("::")[-1])
            if not names:
                continue
            n += 1
            inst = "%s@%d" % (f["q"].split("::")[-1], x[1])
            if names == {"DDL", "CCM"} or f["q"].split("::")[-1] in LAW:
                R.ok(RULE, inst, "names %s" % "+".join(sorted(names)))
            else:
                R.violation(RULE, inst, "this test names %s without %s: CCM and DDL surfaces are treated differently here although the code is not part of their charge-potential law "
                            "(%d other sites name both)" % (sorted(names)[0], "CCM" if names == {"DDL"} else "DDL", 0), file=f["file"], line=x[1], function=f["q"])
    if n < 12:
        R.anchor_missing(RULE, "only %d tests on the DDL / CCM surface models found" % n)


_CFGS = {}


def usereset_rule(P, R):
    """The `use` record says which parts a cell's calculation contains: per kind a pointer (use.<kind>_ptr) and a flag (use.<kind>_in);
    copy_use / set_reaction / step read the flag.  The functions that assemble the record for a cell (set_advection, set_transport,
    set_reaction) handle each kind in an `exists / does not exist` pair of branches.  The two fields travel together: a block that sets
    the pointer of a kind to NULL also clears that kind's flag (and vice versa a block that installs a pointer sets the flag) - a cell
    without an exchanger that keeps the flag of the previous cell reacts with a copy of that cell's exchanger."""
    RULE = "C02.usereset"
    R.rule(RULE, "set_advection / set_transport: for every kind looked up for the cell, the found branch sets use.<kind>_in(true) and the not-found branch use.<kind>_in(false)", minimum=14)
    n = 0
    for q in ("Phreeqc::set_advection", "Phreeqc::set_transport"):
        fs = [g for g in P.fns_named(q) if g.get("body")]
        if not fs:
            R.anchor_missing(RULE, "%s not found" % q)
            continue
        f = fs[0]
        for x in T.walk(f["body"]):
            if x[0] != "If":
                continue
            c = T.strip_casts(x[2])
            getter = [T.callee_name(k) for k in T.calls(c) if T.callee_name(k).startswith("Get_") and T.callee_name(k).endswith("_ptr")]
            if len(getter) != 1 or not (c[0] == "Bin" and c[2] in ("!=", "==")):
                continue
            kind = getter[0][4:-4]
            found, absent = (x[3], x[4]) if c[2] == "!=" else (x[4], x[3])

            def flag(br, val):
                return T.is_node(br) and any(T.callee_name(k) == "Set_%s_in" % kind and k[4] and str(T.strip_casts(k[4][0])[3]) in val for k in T.calls(br))
            if not flag(found, ("1", "true")):
                continue            # not a set-up pair (e.g. a later use of the pointer)
            n += 1
            inst = "%s:%s@%d" % (q.split("::")[-1], kind, x[1])
            cleared_before = False
            if not flag(absent, ("0", "false")):
                # accepted idiom: the flag is cleared unconditionally before the look-up (a call that dominates this test)
                if f["q"] not in _CFGS:
                    cfg = T.CFG(f)
                    _CFGS[f["q"]] = (cfg, cfg.dominators())
                cfg, dom = _CFGS[f["q"]]
                here = [nd["id"] for nd in cfg.nodes if nd["n"] is x[2]]
                clr = [nd["id"] for nd in cfg.nodes if T.is_node(nd["n"]) and nd["n"][0] == "Call" and T.callee_name(nd["n"]) == "Set_%s_in" % kind
                       and nd["n"][4] and str(T.strip_casts(nd["n"][4][0])[3]) in ("0", "false")]
                cleared_before = bool(here) and any(cid in dom.get(here[0], ()) for cid in clr)
            if flag(absent, ("0", "false")):
                R.ok(RULE, inst, "found -> in = true, not found -> in = false")
            elif cleared_before:
                R.ok(RULE, inst, "flag cleared unconditionally before the look-up; found -> in = true")
            else:
                R.violation(RULE, inst, "when cell i has no %s the flag use.%s_in is not cleared: it keeps the value of the previous cell, and copy_use / set_reaction make this cell react "
                            "with a copy of the previous cell's %s and then discard it - elements are exchanged with a reactant the cell does not have" % (kind, kind, kind),
                            file=f["file"], line=x[1], function=f["q"])
    if n < 14:
        R.anchor_missing(RULE, "only %d found / not-found pairs in the cell set-up functions" % n)


def samemodel_rule(P, R):
    """prep() skips build_model() when check_same_model() says the structure of the previous calculation is unchanged; quick_setup()
    then only reloads amounts into the unknowns already built.  A wrong `same` verdict solves one system and stores the result in
    another: elements are lost and created (seen for solid solutions of equal name and other end-members).  Decided structurally:
    (a) pairing: every entry save_model() stores in a vector member of `last_model` is compared by check_same_model() with an
        unconditional `!=` against the same source expression, and the vector's size is compared too (a weakened comparison -
        an added conjunct - lets a changed structure pass);
    (b) identity: the classes whose names the setup_<kind> function reads to create unknowns are classes whose names both
        save_model and check_same_model read (directly or through a helper in prep.cpp): the saved identity reaches down to the
        level the unknowns are built from (solid solution AND its components)."""
    from .. import shape as SH
    RULE = "C02.samemodel"
    R.rule(RULE, "save_model / check_same_model: every stored structure entry is compared unconditionally; the saved identity covers the classes the unknowns are built from", minimum=10)
    sv = P.one("Phreeqc::save_model")
    ck = P.one("Phreeqc::check_same_model")
    where = dict(file=ck["file"], function=ck["q"])
    DELIBERATE = {"si": "saturation-index targets are reloaded by quick_setup on every reuse (C03.quick); the comparison is commented out on purpose"}

    def model_member(n):
        """last_model.<m>[i] -> m"""
        n = T.strip_casts(n)
        if n[0] == "Call" and T.callee_name(n) == "operator[]" and n[4]:
            b = T.strip_casts(n[4][0])
            if b[0] == "Member" and b[2].startswith("Model::"):
                return b[2].split("::")[-1]
        return None

    def norm(e):
        # the source expression with loop variables abstracted
        return SH.shape(e, {}) if hasattr(SH, "shape") else T.text(e)
    stores = {}
    for x in T.walk(sv["body"]):
        if x[0] == "Bin" and x[2] == "=" and model_member(x[3]):
            stores.setdefault(model_member(x[3]), []).append(x)
        if x[0] == "Call" and (T.callee_q(x) or "").endswith("::operator=") and x[4] and model_member(x[4][0]):
            stores.setdefault(model_member(x[4][0]), []).append(["Bin", x[1], "=", x[4][0], x[4][1]])
    if len(stores) < 6:
        R.anchor_missing(RULE, "save_model: only %d vector members of last_model are stored (7 confirmed)" % len(stores))
        return
    # comparisons in check_same_model
    comps = {}
    for x in T.walk(ck["body"]):
        if x[0] != "If":
            continue
        c = T.strip_casts(x[2])
        for y in T.walk(c):
            if y[0] == "Bin" and y[2] == "!=" and (model_member(y[3]) or model_member(y[4])):
                m = model_member(y[3]) or model_member(y[4])
                other = y[4] if model_member(y[3]) else y[3]
                comps.setdefault(m, []).append((x, c, y, other))
            if y[0] == "Call" and T.callee_name(y) in ("operator!=",) and y[4] and (model_member(y[4][0]) or (len(y[4]) > 1 and model_member(y[4][1]))):
                m = model_member(y[4][0]) or model_member(y[4][1])
                other = y[4][1] if model_member(y[4][0]) else y[4][0]
                comps.setdefault(m, []).append((x, c, y, other))

    def src_text(e):
        import re
        return re.sub(r"\b[ijk]\b", "#", T.text(e).replace(" ", ""))
    for m, sts in sorted(stores.items()):
        inst = "pair:%s" % m
        if m in DELIBERATE:
            R.ok(RULE, inst, "not compared on purpose: " + DELIBERATE[m])
            continue
        if m not in comps:
            R.violation(RULE, inst, "save_model stores last_model.%s but check_same_model never compares it: a change of this part of the structure is taken for the same model" % m,
                        line=ck["line"], **where)
            continue
        want = src_text(sts[0][4])
        good = None
        weak = None
        for x, c, y, other in comps[m]:
            if src_text(other) != want:
                continue
            if c is y or T.strip_casts(c) is y:
                good = x
            else:
                weak = (x, c)
        if good is not None:
            R.ok(RULE, inst, "compared with `!= %s`, unconditionally" % want[:60])
        elif weak is not None:
            R.violation(RULE, inst, "the comparison of last_model.%s is weakened by a further condition (`%s`): a structure that differs in this entry can pass as the same model"
                        % (m, T.text(weak[1])[:110]), line=weak[0][1], **where)
        else:
            R.violation(RULE, inst, "check_same_model compares last_model.%s with `%s`, save_model stored `%s`: the two sides of the comparison are not the same quantity"
                        % (m, src_text(comps[m][0][3])[:70], want[:70]), line=comps[m][0][0][1], **where)
        # the size of the vector is compared
        def is_size_of_member(e):
            return any(yy[0] == "Call" and T.callee_name(yy) == "size" and T.is_node(yy[3]) and T.strip_casts(yy[3])[0] == "Member"
                       and T.strip_casts(yy[3])[2] == "Model::" + m for yy in T.walk(e))
        sz = False
        for x in T.walk(ck["body"]):
            if x[0] == "If":
                for yy in T.walk(x[2]):
                    if yy[0] == "Bin" and yy[2] == "!=" and (is_size_of_member(yy[3]) != is_size_of_member(yy[4])) \
                            and any(T.callee_name(c) == "size" for c in T.calls(yy[4] if is_size_of_member(yy[3]) else yy[3])):
                        sz = True
        if sz or m == "add_formula":
            R.ok(RULE, "size:%s" % m, "length compared" if sz else "parallel to pp_assemblage")
        else:
            R.violation(RULE, "size:%s" % m, "the length of last_model.%s is never compared: an added or removed entry is taken for the same model" % m, line=ck["line"], **where)
    # (b) identity classes
    ENT = ("cxxSS", "cxxSScomp", "cxxPPassemblageComp", "cxxGasComp", "cxxSurfaceComp", "cxxSurfaceCharge")

    def named_classes(q):
        out, seen = set(), set()

        def rec(f, d):
            if f["key"] in seen:
                return
            seen.add(f["key"])
            for c in T.calls(f["body"]):
                cq = T.callee_q(c) or ""
                cls = cq.rsplit("::", 1)[0]
                if cls in ENT and "string" in str(c[2].get("ret", "")):
                    out.add(cls)
                if d > 0:
                    for g in P.fns_named(cq):
                        if g.get("body") and g["file"].endswith("prep.cpp") and not g["q"].startswith("Phreeqc::"):
                            rec(g, d - 1)
        for f in P.fns_named(q):
            if f.get("body"):
                rec(f, 1)
        return out
    # (c) relations: a component related to a phase / kinetic reactant adds coupling terms (build_min_exch, build_min_surface); the getters
    #     those builders read must be read by save_model AND check_same_model
    def getters_of(q, cls):
        out = set()
        for g in P.fns_named(q):
            if g.get("body"):
                for c in T.calls(g["body"]):
                    cq = T.callee_q(c) or ""
                    if cq.startswith(cls + "::Get_"):
                        out.add(cq.split("::")[-1])
        return out
    REL = ("Get_phase_name", "Get_rate_name", "Get_phase_proportion")
    for cls, builder in (("cxxExchComp", "Phreeqc::build_min_exch"), ("cxxSurfaceComp", "Phreeqc::build_min_surface")):
        need = set(REL) & getters_of(builder, cls)
        inst = "relation:%s" % cls.replace("cxx", "")
        if not need:
            R.anchor_missing(RULE, "%s reads none of %s of %s (extractor change?)" % (builder, REL, cls))
            continue
        sv_g, ck_g = getters_of("Phreeqc::save_model", cls), getters_of("Phreeqc::check_same_model", cls)
        miss = sorted(need - (sv_g & ck_g))
        if miss:
            R.violation(RULE, inst, "%s builds coupling terms from %s of a %s, but the saved model identity does not include %s: a calculation whose component is not related (or "
                        "related differently) is taken for the same model and solved with the previous coupling - sites and elements are lost"
                        % (builder.split("::")[-1], ", ".join(sorted(need)), cls, ", ".join(miss)), line=ck["line"], **where)
        else:
            R.ok(RULE, inst, "%s are part of the saved identity" % ", ".join(sorted(need)))
    saved, checked = named_classes("Phreeqc::save_model"), named_classes("Phreeqc::check_same_model")
    for q in ("Phreeqc::setup_ss_assemblage", "Phreeqc::setup_pure_phases", "Phreeqc::setup_surface"):
        if not P.fns_named(q):
            R.anchor_missing(RULE, "%s not found" % q)
            continue
        need = named_classes(q)
        inst = "identity:%s" % q.split("::")[-1]
        miss = sorted(need - (saved & checked))
        if not need:
            R.anchor_missing(RULE, "%s reads no entity names (extractor change?)" % q)
        elif miss:
            R.violation(RULE, inst, "%s builds unknowns from the names of %s, but the saved model identity does not read the names of %s: two calculations that differ only there "
                        "are taken for the same model and solved with each other's unknowns" % (q.split("::")[-1], ", ".join(sorted(need)), ", ".join(miss)), line=ck["line"], **where)
        else:
            R.ok(RULE, inst, "names of %s are part of the saved identity" % ", ".join(sorted(need)))


def run(P, R, tier):
    K = KN.get(P)
    samemodel_rule(P, R)
    inertpair_rule(P, R)
    mbresult_rule(P, R)
    stepmix_rule(P, R)
    usereset_rule(P, R)
    models_rule(P, R)
    bind_rule(P, R, K)
    stage_rule(P, R)
    from . import c12 as C12
    C12.trialreset_rule(P, R, RULE="C02.trialreset")
    C12.savefree_rule(P, R, RULE="C02.savefree")
    R.undecided += ["(c) the arithmetic inside each part (add_reaction, add_exchange, xexchange_save, totalize callees): dropped term, wrong coefficient, sign",
                    "(d) nothing becomes negative", "conservation itself (a numerical statement)"]
    # ------------------------------------------------------------------ C02.assemble
    R.rule("C02.assemble", "step(): each reacting kind present is added by a block guarded on that kind's use pointer; helpers of the same kind", minimum=12)
    f = P.one("Phreeqc::step")
    added = {}
    for x in T.walk(f["body"]):
        if x[0] != "If":
            continue
        gk = guard_kind(K, x[2])
        if not gk or not any(n.endswith("_ptr") for ns in gk.values() for n in ns):
            continue
        # direct body only (not nested Ifs with their own guards): kinds of Phreeqc helper calls add_*/*_check
        helpers = []
        for c in T.calls(x[3]):
            cd = c[2]
            if isinstance(cd, dict) and cd.get("cls") == "Phreeqc":
                nm = T.callee_name(c)
                if nm.startswith("add_") or nm.endswith("_check"):
                    helpers.append((nm, K.of_name(nm), c[1]))
        for nm, hk, line in helpers:
            inst = "step:%s@%s" % (nm, "+".join(sorted(gk)))
            if hk and hk <= set(gk):
                R.ok("C02.assemble", inst, "guard and helper of kind %s" % sorted(hk))
                if nm.startswith("add_"):
                    for k in hk:
                        added[k] = added.get(k, 0) + 1
            elif hk:
                R.violation("C02.assemble", inst, "helper %s (kind %s) is called under a guard on kind %s: a part is added when another part is present"
                            % (nm, sorted(hk), sorted(gk)), file=f["file"], line=line, function=f["q"])
    need = ["mix", "solution", "reaction", "kinetics", "exchange", "surface", "gas_phase", "pp_assemblage", "ss_assemblage"]
    for k in need:
        inst = "step:add:%s" % k
        n = added.get(k, 0)
        if n == 1:
            R.ok("C02.assemble", inst, "added once")
        elif n == 0:
            R.violation("C02.assemble", inst, "step() never adds the %s part of the reacting system (add_%s under its guard): its elements vanish from the balance" % (k, k),
                        file=f["file"], line=f["line"], function=f["q"])
        else:
            R.violation("C02.assemble", inst, "step() adds the %s part %d times" % (k, n), file=f["file"], line=f["line"], function=f["q"])
    # temperature / pressure blocks
    for k, meth in (("temperature", "Temperature_for_step"), ("pressure", "Pressure_for_step")):
        ok = False
        for x in T.walk(f["body"]):
            if x[0] == "If" and set(guard_kind(K, x[2])) == {k} and any(T.callee_name(c) == meth for c in T.calls(x[3])):
                ok = True
        inst = "step:%s" % k
        if ok:
            R.ok("C02.assemble", inst, "%s under its own guard" % meth)
        else:
            R.violation("C02.assemble", inst, "step() does not apply the %s of the step under a guard on that kind" % k, file=f["file"], line=f["line"], function=f["q"])
    # neither mix nor solution -> STOP error
    stop = False
    for x in T.walk(f["body"]):
        if x[0] == "If" and set(guard_kind(K, x[2])) == {"mix"} and T.is_node(x[4]):
            e = x[4]
            if e[0] == "If" and set(guard_kind(K, e[2])) == {"solution"} and T.is_node(e[4]):
                for c in T.calls(e[4]):
                    if T.callee_name(c) == "error_msg" and len(c[4]) >= 2 and T.lit_value(c[4][1]) not in (0, None):
                        stop = True
    if stop:
        R.ok("C02.assemble", "step:no-solution", "neither mix nor solution -> error_msg(..., STOP)")
    else:
        R.violation("C02.assemble", "step:no-solution", "the mix/solution alternative of step() no longer ends in a STOP error when neither is defined",
                    file=f["file"], line=f["line"], function=f["q"])

    # ------------------------------------------------------------------ C02.save
    R.rule("C02.save", "saver(): one block per save flag, calling x<kind>_save of the same kind on the same kind's store and range", minimum=7)
    g = P.one("Phreeqc::saver")
    save_rec = P.records.get("save")
    flags = []
    if save_rec is None:
        R.anchor_missing("C02.save", "class save not found")
    else:
        flags = sorted(fl["name"] for fl in save_rec["fields"] if fl["name"] in K.stems)
    R.require(len(flags) >= 7, "C02.save", "class save has %d kind flags (confirmed: 7)" % len(flags))
    saved = {}
    for s in (g["body"][2] if g["body"][0] == "Compound" else []):
        if not T.is_node(s) or s[0] != "If":
            continue
        gks = set()
        for x in T.walk(s[2]):
            if x[0] == "Member" and x[2].startswith("save::"):
                gks |= K.of_name(x[2].split("::")[-1])
        if len(gks) != 1:
            continue
        k = next(iter(gks))
        bt = set(K.by_type(s[3]))
        bn = set(K.by_name(s[3], classes={"save", "Phreeqc"}))
        xs = [T.callee_name(c) for c in T.calls(s[3]) if T.callee_name(c).startswith("x") and T.callee_name(c).endswith("_save")]
        inst = "saver:%s" % k
        probs = []
        if (bt | bn) != {k}:
            probs.append("block touches kind(s) %s" % sorted(bt | bn))
        for nm in xs:
            if K.of_name(nm) != {k}:
                probs.append("calls %s" % nm)
        if k != "kinetics" and not xs:
            probs.append("no x%s_save call" % k)
        if probs:
            R.violation("C02.save", inst, "saver block for save.%s: %s - results of one part are written to another part's store or not at all"
                        % (k, "; ".join(probs)), file=g["file"], line=s[1], function=g["q"])
        else:
            R.ok("C02.save", inst, ("calls %s" % xs[0]) if xs else "copies the kinetics work entity")
        saved[k] = True
    # flags of inputs (mix, reaction) are vestigial: nothing in the program reads them, so nothing is expected to be saved
    vestigial = {}
    for k in flags:
        if k in saved:
            continue
        fq = "save::" + k
        readers = []
        for key, fn_ in P.functions.items():
            wn = set()
            for tgt, how, line, node in T.writes(fn_["body"]):
                for x in T.walk(tgt):
                    if x[0] == "Member" and x[2] == fq:
                        wn.add(id(x))
            for x in T.walk(fn_["body"]):
                if x[0] == "Member" and x[2] == fq and id(x) not in wn:
                    readers.append("%s:%d" % (fn_["q"], x[1]))
        if not readers:
            vestigial[k] = True
            R.ok("C02.save", "saver:unused-flag:%s" % k, "save.%s is written but never read anywhere: an input, not a result (nothing to write back)" % k)
    for k in flags:
        if k not in saved and k not in vestigial:
            R.violation("C02.save", "saver:missing:%s" % k, "class save has a flag for %s but saver() has no block for it: the reacted part is never written back" % k,
                        file=g["file"], line=g["line"], function=g["q"])

    # ------------------------------------------------------------------ C02.transfer (shared with C12)
    from . import c12 as C12
    C12.transfer_rule(P, R, RULE="C02.transfer")

    # ------------------------------------------------------------------ C02.total
    R.rule("C02.total", "cxxSystem::totalize adds every element-carrying part once with coefficient 1; entity totalize() functions clear and add all components", minimum=12)
    t = P.one("cxxSystem::totalize")
    sysrec = P.records.get("cxxSystem")
    carrying = {"solution", "exchange", "pp_assemblage", "gas_phase", "ss_assemblage", "surface"}
    seen = {}
    for s in (t["body"][2] if t["body"][0] == "Compound" else []):
        if not T.is_node(s) or s[0] != "If":
            continue
        gk = set()
        for x in T.walk(s[2]):
            if x[0] == "Member" and x[2].startswith("cxxSystem::"):
                gk |= K.of_type(x[4])
        if len(gk) != 1:
            continue
        k = next(iter(gk))
        bk = set(K.by_type(s[3]))
        adds = [c for c in T.calls(s[3]) if T.callee_name(c) == "add_extensive"]
        inst = "cxxSystem::totalize:%s" % k
        probs = []
        if bk != {k}:
            probs.append("block touches kinds %s" % sorted(bk))
        if len(adds) != 1:
            probs.append("%d add_extensive calls" % len(adds))
        else:
            a = adds[0]
            coef = T.strip_casts(a[4][1]) if len(a[4]) > 1 else None
            if not (T.is_node(coef) and coef[0] == "Lit" and float(coef[3].rstrip("fFlL")) == 1.0):
                probs.append("coefficient is not 1.0")
            tgt = T.access_path(a[3])[1] if T.is_node(a[3]) else []
            if not (tgt and tgt[0] == ("f", "cxxSystem::totals")):
                probs.append("does not add into this->totals")
        if k == "solution":
            got = set(T.callee_name(c) for c in T.calls(s[3]))
            for m in ("Get_total_o", "Get_total_h", "Get_cb", "Get_totals"):
                if m not in got:
                    probs.append("solution block lacks %s()" % m)
        if probs:
            R.violation("C02.total", inst, "system totals: %s" % "; ".join(probs), file=t["file"], line=s[1], function=t["q"])
        else:
            R.ok("C02.total", inst, "added once with coefficient 1")
        seen[k] = seen.get(k, 0) + 1
    for k in sorted(carrying):
        if seen.get(k, 0) != 1:
            R.violation("C02.total", "cxxSystem::totalize:count:%s" % k, "part %s is added %d times to the system totals (expected once)" % (k, seen.get(k, 0)),
                        file=t["file"], line=t["line"], function=t["q"])
    # entity totalize()
    for cls in sorted(K.class_stem) + ["cxxSS"]:
        fs = P.fns_named(cls + "::totalize")
        if not fs:
            continue
        fn = fs[0]
        rec = P.records[cls]
        inst = "%s::totalize" % cls
        stmts = [s for s in (fn["body"][2] if fn["body"][0] == "Compound" else []) if T.is_node(s)]
        probs = []
        # first effect: clear of a cxxNameDouble member
        first = stmts[0] if stmts else None
        tot = None
        if first is not None and first[0] == "Call" and T.callee_name(first) == "clear" and T.is_node(first[3]):
            root, steps = T.access_path(first[3])
            if root == ("this",) and steps:
                tot = steps[0][1]
        if tot is None:
            probs.append("does not start by clearing its totals member")
        loops = [s for s in stmts if s[0] in ("For", "RangeFor", "While")]
        if len(loops) != 1:
            probs.append("%d component loops (expected 1)" % len(loops))
        else:
            lp = loops[0]
            body = lp[5] if lp[0] == "For" else (lp[4] if lp[0] == "RangeFor" else lp[3])
            if any(y[0] in ("Break", "Continue", "Return", "Goto") for y in T.walk(body)):
                probs.append("component loop can skip components (break/continue/return)")
            adds = [c for c in T.calls(body) if T.callee_name(c) == "add_extensive"]
            if len(adds) != 1:
                probs.append("%d add_extensive calls in the loop" % len(adds))
            else:
                a = adds[0]
                root, steps = T.access_path(a[3]) if T.is_node(a[3]) else (None, [])
                if not (steps and steps[0][1] == tot):
                    probs.append("adds into a different member than it cleared")
                coef = T.strip_casts(a[4][1]) if len(a[4]) > 1 else None
                okc = T.is_node(coef) and ((coef[0] == "Lit" and float(coef[3].rstrip("fFlL")) == 1.0) or
                                           (coef[0] == "Call" and T.callee_name(coef) == "Get_moles"))
                if not okc:
                    probs.append("coefficient is neither 1.0 nor the component's Get_moles()")
            # charge where the component carries a charge balance
            comp_has_cb = False
            for fld in rec["fields"]:
                for d, r2 in P.records.items():
                    if d.startswith("cxx") and d != cls and d in fld["ctype"] and any(x["name"] == "charge_balance" for x in r2["fields"]):
                        comp_has_cb = True
            if comp_has_cb and not any(T.callee_name(c) == "Get_charge_balance" for c in T.calls(body)):
                probs.append("components carry charge_balance but the loop does not add it")
        if probs:
            R.violation("C02.total", inst, "; ".join(probs), file=fn["file"], line=fn["line"], function=fn["q"])
        else:
            R.ok("C02.total", inst, "clears %s, one unconditional loop over all components" % tot.split("::")[-1])


def stepmix_rule(P, R):
    """"... equals the amount before the step plus exactly what the REACTION stoichiometry and mixing fractions add": a multi-step batch
    reaction or RUN_CELLS cell starts step 1 from the solutions / the MIX it is defined by; with INCREMENTAL_REACTIONS every later step
    continues from the result of the step before, without INCREMENTAL_REACTIONS every step starts from the definition again.  The step
    drivers decide this with the local `use_mix` they hand to run_reactions.  The decision is run concretely for
    incremental_reactions in {FALSE, TRUE} x reaction_step in {1, 2, 3}: use_mix must be TRUE exactly when the step starts from the
    definition.  (An incremental step that mixes again discards what the earlier steps added.)"""
    from .. import minieval as ME
    RULE = "C02.stepmix"
    R.rule(RULE, "step drivers mix the defining solutions again exactly when the step starts from the definition (incremental_reactions FALSE, or step 1)", minimum=12)
    n = 0
    for k, g in sorted(P.functions.items(), key=lambda kv: kv[1]["q"]):
        sites = [c for c in T.calls(g["body"]) if T.callee_name(c) == "run_reactions" and len(c[4]) >= 3 and T.is_node(T.strip_casts(c[4][2]))
                 and T.strip_casts(c[4][2])[0] == "Ref" and T.strip_casts(c[4][2])[3] == "use_mix" and T.strip_casts(c[4][2])[2] == "local"]
        if not sites:
            continue
        if not any(y[0] == "Member" and y[2] == "Phreeqc::reaction_step" for y in T.walk(g["body"])):
            continue
        # statements that decide use_mix, outermost first
        stmts = []

        def rec(node):
            if not T.is_node(node):
                return
            w = [1 for t, how, line, x in T.writes(node) if T.is_node(T.strip_casts(t)) and T.strip_casts(t)[0] == "Ref" and T.strip_casts(t)[3] == "use_mix"]
            if node[0] == "If" and w and not any(y[0] in ("Call", "For", "While") for br in (node[3], node[4]) if T.is_node(br) for y in T.walk(br)):
                stmts.append(node)          # a pure decision: both branches only assign
                return
            if node[0] == "Bin" and node[2] == "=" and w:
                stmts.append(node)
                return
            for ch in T.children(node):
                rec(ch)
        rec(g["body"])
        if not stmts:
            R.anchor_missing(RULE, "%s: no statement assigns use_mix" % g["q"])
            continue
        name = g["q"].split("::")[-1]
        for inc in (0, 1):
            for step in (1, 2, 3):
                n += 1
                inst = "%s:inc=%d,step=%d" % (name, inc, step)
                env = ME.Env(scalars={"incremental_reactions": inc, "reaction_step": step})
                try:
                    for st in stmts:
                        ME.run(st, env)
                except ME.Unsupported as e:
                    R.anchor_missing(RULE, "%s: the use_mix decision is not evaluable (%s)" % (g["q"], e))
                    break
                got = env.var.get("use_mix")
                want = 1 if (inc == 0 or step == 1) else 0
                if got == want:
                    R.ok(RULE, inst, "use_mix = %s" % ("TRUE" if got else "FALSE"))
                else:
                    R.violation(RULE, inst, "%s hands use_mix = %s to run_reactions for incremental_reactions = %s, step %d: %s" % (
                        g["q"], got, "TRUE" if inc else "FALSE", step,
                        "the step mixes the defining solutions again and discards what the earlier steps added" if got else "the step does not start from the defining solutions"),
                        file=g["file"], line=stmts[0][1], function=g["q"])
    if n < 12:
        R.anchor_missing(RULE, "only %d evaluations (reactions and run_as_cells expected)" % n)


def inertpair_rule(P, R):
    """"element amounts are conserved": for a precipitate_only phase model() parks the solid that is already there in unknown::inert_moles
    (set_inert_moles) so that it cannot dissolve, and gives it back with unset_inert_moles before the results are saved.  The two calls
    are a pair: on every path of model() from set_inert_moles to a return there must be an unset_inert_moles - also on the early return
    of the Pitzer / SIT branch.  Without it xpp_assemblage_save stores only what precipitated in the step and the solid that was there
    disappears."""
    RULE = "C02.inertpair"
    R.rule(RULE, "model(): every path from set_inert_moles to a return passes unset_inert_moles", minimum=1)
    f = P.one("Phreeqc::model")
    cfg = T.CFG(f)
    sets = [i for i, nd in enumerate(cfg.nodes) if T.is_node(nd["n"]) and any(T.callee_name(c) == "set_inert_moles" for c in T.calls(nd["n"]))]
    unsets = {i for i, nd in enumerate(cfg.nodes) if T.is_node(nd["n"]) and any(T.callee_name(c) == "unset_inert_moles" for c in T.calls(nd["n"]))}
    if len(sets) != 1 or not unsets:
        R.anchor_missing(RULE, "model(): set_inert_moles %d times, unset_inert_moles %d times" % (len(sets), len(unsets)))
        return
    seen, st, bad = set(), list(cfg.nodes[sets[0]]["succ"]), None
    while st:
        x = st.pop()
        if x in seen or x in unsets:
            continue
        seen.add(x)
        nd = cfg.nodes[x]
        if T.is_node(nd["n"]) and nd["n"][0] == "Return":
            bad = nd["line"]
            break
        if x == cfg.exit:
            bad = f.get("endline", f["line"])
            break
        st.extend(nd["succ"])
    if bad is None:
        R.ok(RULE, "model", "unset_inert_moles on every path (%d sites)" % len(unsets))
    else:
        R.violation(RULE, "model", "model() can return at line %d after set_inert_moles without unset_inert_moles: the solid of a precipitate_only phase that was parked in "
                    "inert_moles is not given back, the saved assemblage holds only what precipitated in the step" % bad, file=f["file"], line=bad, function=f["q"])


def mbresult_rule(P, R):
    """"never created or lost": set_and_run_wrapper(cell, use_mix, ..., step_fraction) adds the mix and the reaction of the step to the cell
    and solves it; when the reaction takes more of an element than there is, step() returns MASS_BALANCE before anything consistent exists,
    and the callers stop with "Negative concentration in solution n".  A call that may apply a mix or a reaction (its mix argument or its
    step fraction is not a literal) must not drop the result: rk_kinetics did, called saver() on the half-assembled system and went on -
    the exchanger's cations ended up in the saved state twice.  Calls with literal NOMIX / 0.0 only re-equilibrate a stored solution."""
    RULE = "C02.mbresult"
    R.rule(RULE, "the result of every set_and_run_wrapper call that can apply a mix or a reaction is examined (MASS_BALANCE stops the run)", minimum=3)

    def stmts(node):
        if not T.is_node(node):
            return
        if node[0] == "Compound":
            for st in node[2]:
                yield st
        if node[0] == "If":
            for br in (node[3], node[4]):
                if T.is_node(br) and br[0] != "Compound":
                    yield br
        for c in node[2:]:
            if isinstance(c, list):
                if c and isinstance(c[0], str):
                    yield from stmts(c)
                else:
                    for cc in c:
                        if isinstance(cc, list) and cc and isinstance(cc[0], str):
                            yield from stmts(cc)
    n = 0
    for f in sorted(P.functions.values(), key=lambda g: (g["file"], g["line"])):
        if not f.get("body"):
            continue
        bare = {id(T.strip_casts(st)) for st in stmts(f["body"]) if T.is_node(T.strip_casts(st)) and T.strip_casts(st)[0] == "Call"}
        for c in T.calls(f["body"]):
            if T.callee_name(c) != "set_and_run_wrapper" or len(c[4]) < 5:
                continue
            lit = lambda a: T.is_node(T.strip_casts(a)) and T.strip_casts(a)[0] == "Lit"
            if lit(c[4][1]) and lit(c[4][4]):
                continue
            n += 1
            inst = "%s@%d" % (f["q"].split("::")[-1], c[1] - f["line"])
            if id(c) in bare:
                R.violation(RULE, inst, "%s calls set_and_run_wrapper(%s) - which can apply a mix / reaction - as a statement and drops the result: a MASS_BALANCE failure "
                            "(reaction overdraws an element) goes unnoticed and the half-assembled state is saved" % (f["q"].split("::")[-1], T.text(c)[:60].split("(", 1)[-1]),
                            file=f["file"], line=c[1], function=f["q"])
            else:
                R.ok(RULE, inst, "result examined")
    if n < 3:
        R.anchor_missing(RULE, "only %d set_and_run_wrapper calls that can apply a mix or a reaction" % n)
