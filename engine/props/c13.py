"""C13 – instance registry and C / C++ / Fortran bindings behave as one consistent API.

Decided structurally:
  C13.matrix   four-layer API matrix: IPhreeqc.h declarations <-> IPhreeqcLib.cpp definitions <-> IPhreeqc methods <->
               *F glue functions <-> BIND(C) blocks of IPhreeqc_interface.F90 (names, arity); Fortran PARAMETER
               constants equal the C enumerator values
  C13.cwrap    every C function with an id parameter is a pure forwarder: GetInstance(id), exactly one call of the
               same-named method with the parameters forwarded in order, result forwarded / 0|1 / through a like-named
               VRESULT->IPQ_RESULT translation covering every code the method can return; null path calls no project
               code and returns the documented constant
  C13.fwrap    every *F function forwards *id and its parameters to the same-named C function, with exactly the
               index shifts of tables/c13_fortran_shifts.json; string results go through padfstring
  C13.pad      padfstring writes at most *len bytes, blank fills, reports the true length
  C13.ids      ids never reused; DestroyIPhreeqc deletes only a live instance
  C13.store    setter/getter pairs address the same field; per-user-number settings are keyed by the current user
               number; file-name setters ignore null/empty names; constructor defaults as documented
  C13.keyparam a method taking a user number keys its map look-ups on that parameter
  C13.domain   a per-user-number setter that stores under a test of the current user number stores for every number
               SetCurrentSelectedOutputUserNumber accepts (predicates evaluated over the accepted integers)
"""
import json
import os
import re

from .. import tree as T
from ..facts import VERIF, SRC, AnalysisBroken

PROP = "C13"


def load_table(name):
    return json.load(open(os.path.join(VERIF, "tables", name)))


def ret_nodes(n):
    return [x for x in T.walk(n) if x[0] == "Return"]


def is_param(n, idx=None):
    n = T.strip_casts(n)
    return T.is_node(n) and n[0] == "Ref" and n[2] == "param" and (idx is None or n[5] == idx)


def image_of_param(arg, idx):
    """None if arg is not a data-flow image of parameter idx; else the adapter name"""
    a = T.strip_casts(arg)
    if is_param(a, idx):
        return "id"
    if T.is_node(a) and a[0] == "Bin" and a[2] == "!=" and is_param(a[3], idx) and T.lit_value(a[4]) == 0:
        return "!=0"
    if T.is_node(a) and a[0] == "Un" and a[2] == "*" and is_param(a[3], idx):
        return "*p"
    if T.is_node(a) and a[0] == "Bin" and a[2] in ("-", "+"):
        l = T.strip_casts(a[3])
        if T.is_node(l) and l[0] == "Un" and l[2] == "*" and is_param(l[3], idx) and T.lit_value(a[4]) is not None:
            v = T.lit_value(a[4])
            return "*p%+d" % (-v if a[2] == "-" else v)
    return None


def vr_returns(P, fid, seen=None):
    """set of VRESULT enumerator names a function may return (through returned calls of project functions as well)"""
    seen = seen or set()
    if fid in seen or fid not in P.functions:
        return set()
    seen.add(fid)
    f = P.functions[fid]
    out = set()
    # values assigned to locals that are returned are followed one level: collect all VR_ enumerators that flow into
    # `return`, an assignment to a local of type VRESULT, or a call returning VRESULT
    for x in T.walk(f["body"]):
        if x[0] == "Ref" and x[2] == "enum" and x[3].startswith("VR_"):
            out.add(x[3])
        if x[0] == "Call" and isinstance(x[2], dict) and x[2].get("ret") == "VRESULT" and x[2].get("proj"):
            cid = x[2]["id"]
            out |= vr_returns(P, cid, seen)
    return out


def run(P, R, tier):
    R.undecided += ["behaviour of the Fortran module body (no Fortran front end in the image: only its BIND(C) table, "
                    "dummy-argument counts and PARAMETER constants are checked)"]
    nullarg_rule(P, R)
    selfcopy_rule(P, R)
    hdr = {d["q"]: d for d in P.decls.values() if d["file"] == "IPhreeqc.h"}
    cdefs = {f["q"]: f for f in P.functions.values() if f["file"] == "IPhreeqcLib.cpp" and f.get("externC") and "cls" not in f}
    fdefs = {f["q"]: f for f in P.functions.values() if f["file"] == "IPhreeqc_interface_F.cpp" and "cls" not in f}
    rec = P.records.get("IPhreeqc")
    if not R.require(rec is not None, "C13.matrix", "class IPhreeqc not found") or \
       not R.require(len(hdr) >= 70, "C13.matrix", "IPhreeqc.h declares only %d functions" % len(hdr)):
        return
    methods = {}
    for m in rec["methods"]:
        methods.setdefault(m["name"], []).append(m)

    # ------------------------------------------------------------------ C13.matrix
    R.rule("C13.matrix", "API layers agree: header <-> C definition <-> C++ method <-> *F glue <-> F90 BIND(C)", minimum=200)
    holes = load_table("c13_api_holes.json")
    R.table("c13_api_holes.json", holes)
    no_method = set(holes["c_without_method"])
    no_f = holes["c_without_F"]
    for name, d in sorted(hdr.items()):
        f = cdefs.get(name)
        if f is None:
            R.violation("C13.matrix", "cdef:" + name, "declared in IPhreeqc.h but not defined in IPhreeqcLib.cpp", file="IPhreeqc.h", line=d["line"])
            continue
        if f["params"] != d["params"] or f["ret"] != d["ret"]:
            R.violation("C13.matrix", "cdef:" + name, "definition signature differs from the declaration", file=f["file"], line=f["line"], function=name)
        else:
            R.ok("C13.matrix", "cdef:" + name)
        if name in no_method:
            R.ok("C13.matrix", "method:" + name, "no instance method by design")
        elif name in methods:
            R.ok("C13.matrix", "method:" + name)
        else:
            R.violation("C13.matrix", "method:" + name, "no IPhreeqc method of this name", file=f["file"], line=f["line"], function=name)
        if name + "F" in fdefs:
            R.ok("C13.matrix", "F:" + name + "F")
        elif name in no_f:
            R.ok("C13.matrix", "F:" + name, "no Fortran form by design: " + no_f[name])
        else:
            R.violation("C13.matrix", "F:" + name, "C function has no *F glue and is not in the holes table", file="IPhreeqc_interface_F.cpp", line=0)
    for n in list(no_f) + list(no_method):
        R.require(n in hdr, "C13.matrix", "holes table names unknown function %s" % n)
    for n in no_f:
        if n + "F" in fdefs:
            R.anchor_missing("C13.matrix", "holes table says %s has no F form but %sF exists" % (n, n))
    # F90 BIND table
    f90 = parse_f90(os.path.join(SRC, "IPhreeqc_interface.F90"), R)
    if f90 is None:
        return
    binds, params, wrappers = f90
    R.info["f90_bind_blocks"] = len(binds)
    for bname, b in sorted(binds.items()):
        f = fdefs.get(bname)
        if f is None:
            R.violation("C13.matrix", "bind:" + bname, "F90 BIND(C, NAME=...) names a function that IPhreeqc_interface_F.cpp does not define",
                        file="IPhreeqc_interface.F90", line=b["line"])
            continue
        if len(b["args"]) != len(f["params"]):
            R.violation("C13.matrix", "bind:" + bname, "BIND(C) interface has %d dummy arguments, C definition has %d parameters" % (len(b["args"]), len(f["params"])),
                        file="IPhreeqc_interface.F90", line=b["line"], function=bname)
            continue
        # C-level kinds: character <-> char*, integer <-> int*, real/double <-> double*, procedure <-> function pointer
        bad = None
        for (an, ak), pt in zip(b["args"], f["params"]):
            want = {"char": "char", "int": "int", "double": "double", "proc": "(*)"}.get(ak)
            if want and want not in pt:
                bad = "argument %s is %s in Fortran but `%s` in C" % (an, ak, pt)
        if bad:
            R.violation("C13.matrix", "bind:" + bname, bad, file="IPhreeqc_interface.F90", line=b["line"], function=bname)
        else:
            R.ok("C13.matrix", "bind:" + bname)
    for fname in sorted(fdefs):
        if fname.endswith("F") and fname not in binds and fname != "padfstring":
            R.violation("C13.matrix", "bind:" + fname, "*F function has no BIND(C) interface in the Fortran module", file="IPhreeqc_interface_F.cpp", line=fdefs[fname]["line"], function=fname)
    for wname, w in sorted(wrappers.items()):
        # the Fortran wrapper X must call XF
        if w["calls"] and (wname + "F") not in w["calls"]:
            R.violation("C13.matrix", "f90wrap:" + wname, "Fortran %s calls %s, expected %sF" % (wname, sorted(w["calls"]), wname),
                        file="IPhreeqc_interface.F90", line=w["line"], function=wname)
        elif w["calls"]:
            R.ok("C13.matrix", "f90wrap:" + wname)
    enums = {}
    for e in P.enums.values():
        if e["file"] not in ("Var.h", "IPhreeqc.h"):
            continue
        for nm, val, q in e["enumerators"]:
            enums.setdefault(nm, set()).add(val)
    for pn, pv in sorted(params.items()):
        if pn not in enums:
            R.violation("C13.matrix", "const:" + pn, "Fortran PARAMETER has no C enumerator", file="IPhreeqc_interface.F90", line=0)
        elif enums[pn] != {pv}:
            R.violation("C13.matrix", "const:" + pn, "Fortran PARAMETER %s = %d but C enumerator = %s" % (pn, pv, sorted(enums[pn])), file="IPhreeqc_interface.F90", line=0)
        else:
            R.ok("C13.matrix", "const:" + pn, "= %d" % pv)
    R.require(len(params) >= 11, "C13.matrix", "fewer PARAMETER constants (%d) than confirmed (11)" % len(params))

    # ------------------------------------------------------------------ C13.cwrap
    R.rule("C13.cwrap", "C functions with an id are pure forwarders to the same-named method of the live instance", minimum=70)
    R.rule("C13.vres", "VRESULT -> IPQ_RESULT translations are like-named and cover every code the method can return", minimum=5)
    vres_enum = None
    for e in P.enums.values():
        if any(n[0] == "VR_OK" for n in e["enumerators"]):
            vres_enum = e
    ipq_enum = None
    for e in P.enums.values():
        if any(n[0] == "IPQ_OK" for n in e["enumerators"]):
            ipq_enum = e
    if not R.require(vres_enum and ipq_enum, "C13.vres", "VRESULT / IPQ_RESULT enums not found"):
        return
    vr_val = {n[0]: n[1] for n in vres_enum["enumerators"]}
    ipq_val = {n[0]: n[1] for n in ipq_enum["enumerators"]}
    for k, v in vr_val.items():
        ik = "IPQ_" + k[3:]
        if ik not in ipq_val:
            R.violation("C13.vres", "enum:" + k, "VRESULT code has no IPQ_RESULT counterpart", file=vres_enum["file"], line=vres_enum["line"])
        elif ipq_val[ik] != v:
            R.violation("C13.vres", "enum:" + k, "%s=%d but %s=%d (GetCurrentSelectedOutputUserNumber & co. return raw codes)" % (k, v, ik, ipq_val[ik]),
                        file=vres_enum["file"], line=vres_enum["line"])
        else:
            R.ok("C13.vres", "enum:" + k, "%s == %s == %d" % (k, ik, v))

    for name, f in sorted(cdefs.items()):
        if name not in hdr:
            continue
        loc = dict(file=f["file"], line=f["line"], function=name)
        if not f["params"] or f["pnames"][0] != "id" or name in no_method:
            # id-less functions: CreateIPhreeqc, GetVersionString
            body_calls = [c for c in T.calls(f["body"]) if isinstance(c[2], dict) and c[2].get("proj")]
            if len(body_calls) == 1 and T.callee_name(body_calls[0]) == name and \
                    len(T.call_args(body_calls[0])) == len(f["params"]) and \
                    all(is_param(a, i) for i, a in enumerate(T.call_args(body_calls[0]))) and \
                    len(ret_nodes(f["body"])) == 1 and T.strip_casts(ret_nodes(f["body"])[0][2]) is body_calls[0]:
                R.ok("C13.cwrap", name, "static forwarder to " + T.callee_q(body_calls[0]))
            else:
                R.violation("C13.cwrap", name, "id-less C function is not a single forwarder to the same-named static method", **loc)
            continue
        check_cwrap(P, R, name, f, hdr[name], methods, vr_val)

    # ------------------------------------------------------------------ C13.fwrap / C13.pad
    R.rule("C13.fwrap", "*F glue forwards *id and parameters in order with exactly the documented index shifts; strings via padfstring", minimum=65)
    shifts = load_table("c13_fortran_shifts.json")
    R.table("c13_fortran_shifts.json", shifts)
    used_shift_rows = set()
    for fname, f in sorted(fdefs.items()):
        if not fname.endswith("F") or fname == "padfstring":
            continue
        check_fwrap(P, R, fname, f, cdefs, shifts, used_shift_rows)
    for row in shifts["param_shifts"]:
        if row not in used_shift_rows:
            R.anchor_missing("C13.fwrap", "shift table row %s matches no parameter" % row)
    R.rule("C13.valuef", "GetSelectedOutputValueF and IPhreeqc::GetSelectedOutputValue2 convert the VAR identically (type code, number, text) per VAR_TYPE", minimum=5)
    check_value_siblings(P, R, fdefs)
    R.rule("C13.pad", "padfstring: every store through dest is bounded by *len, blank fill, *len = strlen(src)", minimum=4)
    check_pad(P, R, fdefs.get("padfstring"))

    # ------------------------------------------------------------------ C13.ids
    R.rule("C13.ids", "ids never reused; DestroyIPhreeqc deletes only a live instance returned by GetInstance", minimum=3)
    check_ids(P, R)

    # ------------------------------------------------------------------ C13.store / C13.keyparam
    R.rule("C13.store", "setter/getter pairs address the same storage; name setters ignore null/empty; documented defaults", minimum=30)
    R.rule("C13.keyparam", "methods taking a user-number parameter key their per-user-number look-ups on that parameter", minimum=2)
    # getters return the last value set: a method that overrides a switch temporarily must restore it on every normal path
    # (shared with C08.restore; a failing LoadDatabase must not leave the file switches off)
    from . import c08 as C08
    C08.restore_rules(P, R, RULE="C13.restore")
    check_store(P, R, rec)
    domain_rule(P, R)
    keyeddefault_rule(P, R)


# ------------------------------------------------------------------------------------------------------------
def check_cwrap(P, R, name, f, decl, methods, vr_val):
    loc = dict(file=f["file"], line=f["line"], function=name)
    stmts = f["body"][2]
    ptr = None
    if_stmt = None
    pre_ok = True
    tail = []
    for s in stmts:
        if s[0] == "Decl" and ptr is None:
            for d in s[2]:
                init = d[2]
                if T.is_node(init) and init[0] == "Call" and T.callee_q(init) == "IPhreeqcLib::GetInstance":
                    a = T.call_args(init)
                    if len(a) == 1 and is_param(a[0], 0):
                        ptr = d[0]
                    else:
                        R.violation("C13.cwrap", name, "GetInstance is not called with the id parameter", **loc)
                        return
                elif d[3] == "static" and "const" in d[1]:
                    pass
                elif T.is_node(init) and any(True for _ in T.calls(init)):
                    pre_ok = False
            continue
        if s[0] == "If" and ptr is not None and if_stmt is None:
            c = T.strip_casts(s[2])
            if T.is_node(c) and c[0] == "Ref" and c[2] == "local" and c[3] == ptr and not T.is_node(s[4]):
                if_stmt = s
                continue
        if if_stmt is None:
            if any(True for _ in T.calls(s)):
                pre_ok = False
        else:
            tail.append(s)
    if ptr is None or if_stmt is None:
        R.violation("C13.cwrap", name, "body does not have the shape `p = GetInstance(id); if (p) {...} return <const>`", **loc)
        return
    if not pre_ok:
        R.violation("C13.cwrap", name, "code with calls precedes the instance look-up / null test", **loc)
        return
    then = if_stmt[3]
    # calls on the instance
    mcalls = []
    for c in T.calls(then):
        o = T.strip_casts(T.call_obj(c)) if T.is_node(T.call_obj(c)) else None
        if o is not None and o[0] == "Ref" and o[2] == "local" and o[3] == ptr:
            mcalls.append(c)
    other_proj = [c for c in T.calls(then) if c not in mcalls and isinstance(c[2], dict) and c[2].get("proj")]
    if len(mcalls) != 1:
        R.violation("C13.cwrap", name, "expected exactly one method call on the instance, found %d" % len(mcalls), **loc)
        return
    if other_proj:
        R.violation("C13.cwrap", name, "wrapper calls other project code: %s" % ", ".join(T.callee_q(c) for c in other_proj), **loc)
        return
    mc = mcalls[0]
    target = T.callee_name(mc)
    if target != name or mc[2].get("cls") != "IPhreeqc":
        R.violation("C13.cwrap", name, "forwards to IPhreeqc::%s instead of the same-named method" % target, line=mc[1], file=f["file"], function=name)
        return
    args = T.call_args(mc)
    if len(args) != len(f["params"]) - 1:
        R.violation("C13.cwrap", name, "method receives %d arguments, wrapper has %d forwardable parameters" % (len(args), len(f["params"]) - 1), **loc)
        return
    adapters = []
    for i, a in enumerate(args):
        ad = image_of_param(a, i + 1)
        if ad not in ("id", "!=0"):
            R.violation("C13.cwrap", name, "argument %d of the method call is not parameter `%s` forwarded unchanged (got `%s`)" % (i, f["pnames"][i + 1], T.text(a)),
                        line=mc[1], file=f["file"], function=name)
            return
        adapters.append(ad)
    # no writes to anything but locals in the wrapper
    for tgt, how, line, node in T.writes(f["body"]):
        root, steps = T.access_path(tgt)
        if root[0] not in ("local",) and not (node is mc):
            if node[0] == "Call" and node is mc:
                continue
            if root[0] == "param" and how in ("call:" + target,):
                continue
            if node[0] == "Call" and isinstance(node[2], dict) and not node[2].get("proj") and \
                    T.base_name(node[2].get("q", "")) == "operator<<" and _stream_root(node) in ("std::cout", "std::cerr"):
                continue
            if node is mc or (node[0] == "Call" and T.call_obj(node) is not None and T.call_obj(node) == T.call_obj(mc)):
                continue
            R.violation("C13.cwrap", name, "wrapper writes non-local state (%s)" % T.text(tgt), line=line, file=f["file"], function=name)
            return
    # result handling
    mret = mc[2].get("ret", "")
    how = classify_result(R, name, f, then, mc, ptr, vr_val, P)
    if how is None:
        return
    # null path
    nullret = None
    for s in tail:
        for c in T.calls(s):
            if isinstance(c[2], dict) and c[2].get("proj"):
                R.violation("C13.cwrap", name, "null-instance path calls project code (%s)" % T.callee_q(c), line=c[1], file=f["file"], function=name)
                return
        if s[0] == "Return":
            nullret = s
    rt = f["ret"]
    doc = decl.get("doc", "")
    if rt == "void":
        if nullret is not None and T.is_node(nullret[2]):
            R.violation("C13.cwrap", name, "void function returns a value", **loc)
            return
    else:
        if nullret is None:
            R.violation("C13.cwrap", name, "null-instance path has no return", **loc)
            return
        v = T.strip_casts(nullret[2])
        if rt == "const char *":
            ok = T.is_node(v) and ((v[0] == "Lit" and v[2] == "str") or (v[0] == "Ref" and v[2] in ("global", "local") and "const char[" in v[4]))
            if not ok:
                R.violation("C13.cwrap", name, "null-instance path must return a non-null constant string", line=nullret[1], file=f["file"], function=name)
                return
        else:
            isbad = T.is_node(v) and v[0] == "Ref" and v[2] == "enum" and v[3] == "IPQ_BADINSTANCE"
            documented = "IPQ_BADINSTANCE" in doc or rt == "IPQ_RESULT"
            if documented and not isbad:
                R.violation("C13.cwrap", name, "null-instance path must return IPQ_BADINSTANCE (documented for a non-live id), got `%s`" % T.text(v),
                            line=nullret[1], file=f["file"], function=name)
                return
            if not isbad:
                val = T.lit_value(v)
                if val is None or val > 0:
                    R.violation("C13.cwrap", name, "null-instance path must return a non-positive constant (a positive value would look like a valid count/flag), got `%s`" % T.text(v),
                                line=nullret[1], file=f["file"], function=name)
                    return
            if "IPQ_RESULT" == rt and "@retval" in doc and "IPQ_BADINSTANCE" not in doc and name not in ("AccumulateLine",):
                R.violation("C13.cwrap", name, "returns IPQ_BADINSTANCE but the documentation does not list it", file="IPhreeqc.h", line=decl["line"], function=name)
                return
    R.ok("C13.cwrap", name, "%s(%s) -> %s" % (name, ",".join(adapters), how))


def classify_result(R, name, f, then, mc, ptr, vr_val, P):
    """how the method's result reaches the caller; None after reporting a violation"""
    loc = dict(file=f["file"], line=mc[1], function=name)
    mret = mc[2].get("ret", "")
    rets = ret_nodes(then)
    # (a) return p->T(...)
    for r in rets:
        if T.strip_casts(r[2]) is mc:
            if len(rets) != 1:
                R.violation("C13.cwrap", name, "several returns although the result is forwarded directly", **loc)
                return None
            return "forward"
    # (b)/(c) switch translation
    sw = [x for x in T.walk(then) if x[0] == "Switch"]
    local_of_call = None
    for x in T.walk(then):
        if x[0] == "Decl":
            for d in x[2]:
                if T.strip_casts(d[2]) is mc:
                    local_of_call = d[0]
        if x[0] == "Bin" and x[2] == "=" and T.strip_casts(x[4]) is mc:
            l = T.strip_casts(x[3])
            if l[0] == "Ref" and l[2] == "local":
                local_of_call = l[3]
    if sw:
        s = sw[0]
        c = T.strip_casts(s[2])
        on_call = c is mc or (T.is_node(c) and c[0] == "Ref" and c[2] == "local" and c[3] == local_of_call)
        if not on_call or len(sw) != 1:
            R.violation("C13.cwrap", name, "switch does not select on the method's result", **loc)
            return None
        cases = {}
        cur = []
        has_default_return = False
        for x in s[3][2] if s[3][0] == "Compound" else [s[3]]:
            n = x
            labels = []
            while T.is_node(n) and n[0] in ("Case", "Default"):
                if n[0] == "Case":
                    labels.append(T.strip_casts(n[2]))
                    n = n[4]
                else:
                    labels.append(None)
                    n = n[2]
            if labels:
                cur = labels
            if T.is_node(n) and n[0] == "Return":
                rv = T.strip_casts(n[2])
                for lab in cur:
                    if lab is None:
                        has_default_return = True
                        continue
                    if not (T.is_node(lab) and lab[0] == "Ref" and lab[2] == "enum" and lab[3].startswith("VR_")):
                        R.violation("C13.vres", name, "case label is not a VRESULT enumerator", **loc)
                        return None
                    if not (T.is_node(rv) and rv[0] == "Ref" and rv[2] == "enum" and rv[3] == "IPQ_" + lab[3][3:]):
                        R.violation("C13.vres", "%s:%s" % (name, lab[3]), "case %s returns `%s`, expected the like-named IPQ_%s" % (lab[3], T.text(rv), lab[3][3:]),
                                    file=f["file"], line=n[1], function=name)
                        return None
                    cases[lab[3]] = rv[3]
                cur = []
        # which codes can the method return?
        possible = set()
        for fid in [mc[2]["id"]]:
            possible |= vr_returns(P, fid)
        after_switch_forward = False
        if local_of_call is not None:
            for r in rets:
                v = T.strip_casts(r[2])
                if T.is_node(v) and v[0] == "Ref" and v[2] == "local" and v[3] == local_of_call:
                    after_switch_forward = True
        missing = sorted(p for p in possible if p not in cases)
        if after_switch_forward:
            # raw value returned for non-listed codes: fine only because VR_x == IPQ_x numerically (checked in C13.vres enum rows)
            R.ok("C13.vres", name, "partial translation %s, other values forwarded numerically" % sorted(cases))
            return "switch+forward"
        if mret != "VRESULT":
            R.violation("C13.vres", name, "translation switch on a non-VRESULT result", **loc)
            return None
        if missing:
            R.violation("C13.vres", name, "method may return %s, which the translation does not handle (falls through to the bad-instance return)" % missing, **loc)
            return None
        R.ok("C13.vres", name, "covers %s of possible %s" % (sorted(cases), sorted(possible)))
        return "switch"
    # (e) bool -> 0/1
    ifs = [x for x in T.walk(then) if x[0] == "If"]
    if len(ifs) == 1 and T.strip_casts(ifs[0][2]) is mc:
        t = ret_nodes(ifs[0][3])
        e = ret_nodes(ifs[0][4]) if T.is_node(ifs[0][4]) else []
        if len(t) == 1 and len(e) == 1 and T.lit_value(t[0][2]) == 1 and T.lit_value(e[0][2]) == 0:
            return "bool->1/0"
        R.violation("C13.cwrap", name, "boolean result is not mapped to 1 (true) / 0 (false)", **loc)
        return None
    # (d) statement call then constant
    if len(rets) == 1:
        v = T.strip_casts(rets[0][2]) if T.is_node(rets[0][2]) else None
        if v is None and f["ret"] == "void":
            return "void"
        if T.is_node(v) and v[0] == "Ref" and v[2] == "enum" and v[3] == "IPQ_OK":
            if mret != "void":
                R.violation("C13.cwrap", name, "result of the method (%s) is dropped and IPQ_OK returned" % mret, **loc)
                return None
            return "void->IPQ_OK"
    R.violation("C13.cwrap", name, "unrecognised result handling in the live-instance path", **loc)
    return None


def check_fwrap(P, R, fname, f, cdefs, shifts, used_rows):
    loc = dict(file=f["file"], line=f["line"], function=fname)
    cname = fname[:-1]
    calls = [c for c in T.calls(f["body"]) if isinstance(c[2], dict) and c[2].get("proj")]
    tcalls = [c for c in calls if T.callee_q(c) == cname]
    pads = [c for c in calls if T.callee_q(c) == "padfstring"]
    others = [c for c in calls if c not in tcalls and c not in pads and T.callee_q(c) not in ("VarInit", "VarClear")]
    if cname not in cdefs:
        R.violation("C13.fwrap", fname, "no C function %s to forward to" % cname, **loc)
        return
    if len(tcalls) != 1:
        R.violation("C13.fwrap", fname, "expected exactly one call of ::%s, found %d (calls: %s)" % (cname, len(tcalls), [T.callee_q(c) for c in calls]), **loc)
        return
    if others:
        R.violation("C13.fwrap", fname, "glue calls other project code: %s" % [T.callee_q(c) for c in others], **loc)
        return
    tc = tcalls[0]
    cf = cdefs[cname]
    args = T.call_args(tc)
    has_id = bool(f["pnames"]) and f["pnames"][0] == "id"
    # local temporaries initialised from parameters are followed
    locals_ = {}
    for x in T.walk(f["body"]):
        if x[0] == "Decl":
            for d in x[2]:
                if T.is_node(d[2]):
                    locals_[d[0]] = d[2]

    def resolve(a):
        a2 = T.strip_casts(a)
        if T.is_node(a2) and a2[0] == "Ref" and a2[2] == "local" and a2[3] in locals_:
            return locals_[a2[3]]
        return a
    used_params = set()
    for i, a in enumerate(args):
        a = resolve(a)
        a2 = T.strip_casts(a)
        # which parameter does this argument come from?
        found = None
        for j in range(len(f["params"])):
            ad = image_of_param(a, j)
            if ad is not None:
                found = (j, ad)
                break
        if found is None:
            if T.is_node(a2) and a2[0] == "Un" and a2[2] == "&" and T.access_path(a2[3])[0][0] == "local":
                continue   # &v (VAR out-parameter local to the glue)
            R.violation("C13.fwrap", fname, "argument %d of ::%s is not derived from a parameter (`%s`)" % (i, cname, T.text(a)), file=f["file"], line=tc[1], function=fname)
            return
        j, ad = found
        used_params.add(j)
        pname = f["pnames"][j]
        is_ptr = "*" in f["params"][j] and "char" not in f["params"][j] and "(" not in f["params"][j]
        key = "%s.%s" % (fname, pname)
        want_shift = shifts["param_shifts"].get(key, 0)
        if key in shifts["param_shifts"]:
            used_rows.add(key)
        if is_ptr:
            got = 0 if ad == "*p" else (int(ad[2:]) if ad.startswith("*p") else None)
            if got is None:
                R.violation("C13.fwrap", fname, "pointer parameter %s is forwarded as `%s`, expected its value" % (pname, T.text(a)), file=f["file"], line=tc[1], function=fname)
                return
            if got != want_shift:
                R.violation("C13.fwrap", fname, "parameter %s forwarded with shift %+d, the documented 1-based -> 0-based shift is %+d" % (pname, got, want_shift),
                            file=f["file"], line=tc[1], function=fname)
                return
        else:
            if ad != "id":
                R.violation("C13.fwrap", fname, "parameter %s must be forwarded unchanged" % pname, file=f["file"], line=tc[1], function=fname)
                return
        # order: C parameter i corresponds to F parameter in the same relative order
    order = []
    for a in args:
        a = resolve(a)
        for j in range(len(f["params"])):
            if image_of_param(a, j) is not None:
                order.append(j)
                break
    if order != sorted(order) or len(set(order)) != len(order):
        R.violation("C13.fwrap", fname, "parameters are forwarded out of order or twice (%s)" % order, file=f["file"], line=tc[1], function=fname)
        return
    if has_id and (not order or order[0] != 0):
        R.violation("C13.fwrap", fname, "*id is not the first forwarded argument", file=f["file"], line=tc[1], function=fname)
        return
    # result
    rets = ret_nodes(f["body"])
    res_shift = shifts["result_shifts"].get(fname)
    how = None
    if pads:
        # string result: padfstring(dest_param, <C call or buffer>, len_param)
        okp = False
        for pc in pads:
            pa = T.call_args(pc)
            if len(pa) == 3 and is_param(pa[0]) and is_param(pa[2]) and "char" in f["params"][T.strip_casts(pa[0])[5]] and "int *" == f["params"][T.strip_casts(pa[2])[5]]:
                okp = True
            else:
                okp = False
                break
        if not okp:
            R.violation("C13.fwrap", fname, "padfstring must receive the caller's buffer and length parameters", **loc)
            return
        src_is_call = any(T.strip_casts(T.call_args(pc)[1]) is tc for pc in pads)
        how = "padfstring(C result)" if src_is_call else "padfstring(converted value)"
        if not src_is_call and fname != "GetSelectedOutputValueF":
            R.violation("C13.fwrap", fname, "string handed to padfstring is not the C function's result", **loc)
            return
    if f["ret"] != "void":
        if len(rets) == 0:
            R.violation("C13.fwrap", fname, "no return statement", **loc)
            return
        # returned value must be the call or a local assigned from the call (with the documented result shift)
        assigned = None
        for x in T.walk(f["body"]):
            if x[0] == "Decl":
                for d in x[2]:
                    if T.strip_casts(d[2]) is tc:
                        assigned = d[0]
            if x[0] == "Bin" and x[2] == "=" and T.strip_casts(x[4]) is tc:
                l = T.strip_casts(x[3])
                if l[0] == "Ref" and l[2] == "local":
                    assigned = l[3]
        for r in rets:
            v = T.strip_casts(r[2])
            if v is tc:
                continue
            if T.is_node(v) and v[0] == "Ref" and v[2] == "local" and v[3] == assigned:
                continue
            R.violation("C13.fwrap", fname, "returns `%s`, not the result of ::%s" % (T.text(v), cname), file=f["file"], line=r[1], function=fname)
            return
        # modifications of the result local
        mods = []
        for tgt, hw, line, node in T.writes(f["body"]):
            root, steps = T.access_path(tgt)
            if root == ("local", assigned) and not steps and not (node[0] == "Bin" and node[2] == "=" and T.strip_casts(node[4]) is tc):
                mods.append((hw, node))
        if res_shift is None and mods:
            R.violation("C13.fwrap", fname, "result of ::%s is modified before being returned" % cname, file=f["file"], line=mods[0][1][1], function=fname)
            return
        if res_shift is not None:
            okm = len(mods) == 1 and mods[0][1][0] == "Bin" and mods[0][1][2] in ("-=", "+=") and \
                (T.lit_value(mods[0][1][4]) or 0) * (-1 if mods[0][1][2] == "-=" else 1) == res_shift["delta"]
            guard_ok = False
            if okm:
                for x in T.walk(f["body"]):
                    if x[0] == "If" and any(y is mods[0][1] for y in T.walk(x[3])):
                        c = T.strip_casts(x[2])
                        if c[0] == "Bin" and c[2] == ">" and T.lit_value(c[4]) == 0:
                            l = T.strip_casts(c[3])
                            guard_ok = l[0] == "Ref" and l[3] == assigned
            if not (okm and guard_ok):
                R.violation("C13.fwrap", fname, "result must be shifted by %+d only when positive (%s)" % (res_shift["delta"], res_shift["reason"]), **loc)
                return
        how = (how + "; " if how else "") + "result forwarded" + (" %+d when >0" % res_shift["delta"] if res_shift else "")
    R.ok("C13.fwrap", fname, "%s -> ::%s (%s)" % (order, cname, how or "void"))


def value_cases(f):
    """{case enumerator: sorted normalised effects} of the `switch (v.type)` of a value-conversion function, or None"""
    sws = [x for x in T.walk(f["body"]) if x[0] == "Switch"]
    sws = [x for x in sws if T.is_node(T.strip_casts(x[2])) and T.strip_casts(x[2])[0] == "Member" and T.strip_casts(x[2])[2].endswith("::type")]
    if len(sws) != 1:
        return None
    out, cur = {}, None
    body = sws[0][3][2] if sws[0][3][0] == "Compound" else [sws[0][3]]

    def norm(n):
        n = T.strip_casts(n)
        if not T.is_node(n):
            return "?"
        if n[0] == "Member":
            return "v." + n[2].split("::")[-1]
        if n[0] == "Ref" and n[2] == "enum":
            return n[3]
        if n[0] == "Ref" and n[2] == "local":
            return "local:" + n[3]
        if n[0] == "Lit":
            return repr(n[3])
        if n[0] == "Cast":
            return norm(n[3])
        return T.text(n)

    def effects(st, acc):
        for x in T.walk(st):
            if x[0] == "Bin" and x[2] == "=":
                l = T.strip_casts(x[3])
                if T.is_node(l) and l[0] == "Un" and l[2] == "*" and is_param(l[3]):
                    acc.append("*%s = %s" % (T.strip_casts(l[3])[3], norm(x[4])))
                else:
                    acc.append("%s = %s" % (T.text(l), norm(x[4])))
            elif x[0] == "Call":
                nm = T.callee_name(x)
                a = T.call_args(x)
                if nm == "snprintf" and len(a) >= 4:
                    acc.append("format %s of %s" % (norm(a[2]), norm(a[3])))
                elif nm in ("strncpy", "padfstring") and len(a) == 3:
                    acc.append("copy %s -> %s" % (norm(a[1]), T.strip_casts(a[0])[3] if is_param(a[0]) else T.text(a[0])))
                elif nm not in ("snprintf",) and isinstance(x[2], dict):
                    acc.append("call " + nm)
    for st in body:
        n = st
        labels = []
        while T.is_node(n) and n[0] in ("Case", "Default"):
            if n[0] == "Case":
                lab = T.strip_casts(n[2])
                labels.append(lab[3] if T.is_node(lab) and lab[0] == "Ref" else "?")
                n = n[4]
            else:
                labels.append("default")
                n = n[2]
        if labels:
            cur = labels
            for l in labels:
                out.setdefault(l, [])
        if cur is None:
            continue
        if T.is_node(n) and n[0] != "Break":
            for l in cur:
                effects(n, out[l])
        if T.is_node(n) and n[0] == "Break":
            cur = None
    return {k: sorted(v) for k, v in out.items()}


def check_value_siblings(P, R, fdefs):
    a = [f for f in P.functions.values() if f["q"] == "IPhreeqc::GetSelectedOutputValue2"]
    b = fdefs.get("GetSelectedOutputValueF")
    if not (R.require(len(a) == 1, "C13.valuef", "IPhreeqc::GetSelectedOutputValue2 not found") and R.require(b is not None, "C13.valuef", "GetSelectedOutputValueF not found")):
        return
    ca, cb = value_cases(a[0]), value_cases(b)
    if not R.require(ca is not None and cb is not None, "C13.valuef", "no unique `switch (v.type)` in the two value converters"):
        return
    for k in sorted(set(ca) | set(cb)):
        if k == "default":
            continue
        ea, eb = ca.get(k), cb.get(k)
        if ea is None or eb is None:
            R.violation("C13.valuef", "case:" + k, "VAR type handled by only one of GetSelectedOutputValue2 / GetSelectedOutputValueF", file=b["file"], line=b["line"], function=b["q"])
        elif ea != eb:
            R.violation("C13.valuef", "case:" + k, "C/C++ conversion %s differs from the Fortran glue's %s" % (ea, eb), file=b["file"], line=b["line"], function=b["q"])
        else:
            R.ok("C13.valuef", "case:" + k, "; ".join(ea))


def check_pad(P, R, f):
    if not R.require(f is not None, "C13.pad", "padfstring not found"):
        return
    loc = dict(file=f["file"], line=f["line"], function="padfstring")
    if f["pnames"] != ["dest", "src", "len"] and len(f["params"]) != 3:
        R.anchor_missing("C13.pad", "padfstring signature changed")
        return
    dest, src, ln = f["pnames"]
    stores = []      # (loop node, store node)
    def find_stores(n, loop):
        if not T.is_node(n):
            return
        if n[0] in ("For", "While", "Do"):
            loop = n
        if n[0] == "Bin" and n[2] == "=":
            root, steps = T.access_path(n[3])
            if root[0] == "param" and root[1] == dest and steps:
                stores.append((loop, n))
        for c in T.children(n):
            find_stores(c, loop)
    find_stores(f["body"], None)
    if not R.require(len(stores) >= 2, "C13.pad", "expected a copy store and a blank-fill store through dest, found %d" % len(stores)):
        return
    counter = None
    for loop, st in stores:
        inst = "store@%d" % st[1]
        if loop is None:
            R.violation("C13.pad", inst, "store through dest outside any bounded loop", file=f["file"], line=st[1], function="padfstring")
            continue
        cond = loop[3] if loop[0] == "For" else loop[2] if loop[0] == "While" else loop[3]
        # condition must contain  <counter> < *len   (possibly counter++ < *len)
        bounded = None
        for x in T.walk(cond):
            if x[0] == "Bin" and x[2] == "<":
                r = T.strip_casts(x[4])
                if T.is_node(r) and r[0] == "Un" and r[2] == "*" and is_param(r[3]) and T.strip_casts(r[3])[3] == ln:
                    l = T.strip_casts(x[3])
                    if l[0] == "Un" and l[2] in ("post++",):
                        l = T.strip_casts(l[3])
                    if l[0] == "Ref" and l[2] == "local":
                        bounded = l[3]
        if bounded is None:
            R.violation("C13.pad", inst, "loop condition does not bound the running count by *len", file=f["file"], line=loop[1], function="padfstring")
            continue
        # `&&`-only condition (a disjunction would not bound)
        if any(x[0] == "Bin" and x[2] == "||" for x in T.walk(cond)):
            R.violation("C13.pad", inst, "loop condition is a disjunction: the *len bound can be bypassed", file=f["file"], line=loop[1], function="padfstring")
            continue
        counter = counter or bounded
        if bounded != counter:
            R.violation("C13.pad", inst, "copy loop and fill loop use different counters", file=f["file"], line=loop[1], function="padfstring")
            continue
        # exactly one store and one increment of the counter per iteration
        body = loop[5] if loop[0] == "For" else loop[3] if loop[0] == "While" else loop[2]
        nstores = sum(1 for l2, s2 in stores if l2 is loop)
        incs = [w for w in T.writes(loop) if T.access_path(w[0]) == (("local", counter), []) and w[1] == "++"]
        if nstores != 1 or len(incs) != 1:
            R.violation("C13.pad", inst, "loop must perform exactly one store and one counter increment per iteration (stores=%d, increments=%d)" % (nstores, len(incs)),
                        file=f["file"], line=loop[1], function="padfstring")
            continue
        R.ok("C13.pad", inst, "bounded by %s < *%s" % (counter, ln))
    # counter is initialised to 0 once and never otherwise assigned
    cw = [w for w in T.writes(f["body"]) if T.access_path(w[0]) == (("local", counter), [])]
    inits = [w for w in cw if w[1] == "="]
    if len(inits) != 1 or T.lit_value(inits[0][3][4]) != 0 or any(w[1] not in ("=", "++") for w in cw):
        R.violation("C13.pad", "counter", "running count must be set to 0 exactly once and only incremented", **loc)
    else:
        R.ok("C13.pad", "counter", "%s = 0 once, incremented only" % counter)
    # *len = strlen(src) at the end
    lw = []
    for tgt, hw, line, node in T.writes(f["body"]):
        root, steps = T.access_path(tgt)
        if root[0] == "param" and root[1] == ln and steps == [("*",)]:
            lw.append(node)
    okl = False
    if len(lw) == 1 and lw[0][0] == "Bin" and lw[0][2] == "=":
        v = T.strip_casts(lw[0][4])
        if T.is_node(v) and v[0] == "Ref" and v[2] == "local":
            # local assigned from strlen(src)
            for x in T.walk(f["body"]):
                if x[0] == "Bin" and x[2] == "=" and T.access_path(x[3]) == (("local", v[3]), []):
                    c = T.strip_casts(x[4])
                    if T.is_node(c) and c[0] == "Call" and T.callee_q(c) == "strlen" and is_param(T.call_args(c)[0]) and T.strip_casts(T.call_args(c)[0])[3] == src:
                        okl = True
                    # strlen must be taken before src is advanced: the assignment precedes the loops (line order)
                    if okl and any(l is not None and l[1] < x[1] for l, _ in stores):
                        okl = False
        elif T.is_node(v) and v[0] == "Call" and T.callee_q(v) == "strlen":
            okl = False   # src has been advanced by then
    last_stmt = f["body"][2][-1]
    if okl and lw[0] is not last_stmt and not any(y is lw[0] for y in T.walk(last_stmt)):
        okl = False
    if okl:
        R.ok("C13.pad", "length", "*len = strlen(src) taken before the copy, assigned last")
    else:
        R.violation("C13.pad", "length", "*len must finally be assigned the true length strlen(src) (taken before src is advanced)", **loc)


def check_ids(P, R):
    # "ids are never reused while the process lives": the counter is only post-incremented and is the only source of ids
    from . import c06 as C06
    C06.ids_rule(P, R, "C13.counter")
    f = None
    for k, fn in P.functions.items():
        if fn["q"] == "IPhreeqcLib::DestroyIPhreeqc":
            f = fn
    if not R.require(f is not None, "C13.ids", "IPhreeqcLib::DestroyIPhreeqc not found"):
        return
    loc = dict(file=f["file"], line=f["line"], function=f["q"])
    dels = [x for x in T.walk(f["body"]) if x[0] == "Delete"]
    if len(dels) != 1:
        R.violation("C13.ids", "destroy:delete", "expected exactly one delete", **loc)
        return
    d = T.strip_casts(dels[0][2])
    # the deleted pointer must be a local initialised from GetInstance(id) and the delete must be under `if (ptr)`
    ok = False
    guard_neg = False
    for x in T.walk(f["body"]):
        if x[0] == "If" and any(y is dels[0] for y in T.walk(x[3])):
            init = x[5] if len(x) > 5 else None
            if T.is_node(init) and init[0] == "Decl":
                for dd in init[2]:
                    c = T.strip_casts(dd[2])
                    if T.is_node(d) and d[0] == "Ref" and d[3] == dd[0] and T.is_node(c) and c[0] == "Call" and \
                            T.callee_q(c) == "IPhreeqcLib::GetInstance" and is_param(T.call_args(c)[0], 0):
                        ok = True
            c = T.strip_casts(x[2])
            if T.is_node(c) and c[0] == "Bin" and c[2] == ">=" and is_param(c[3], 0) and T.lit_value(c[4]) == 0:
                guard_neg = True
    if ok:
        R.ok("C13.ids", "destroy:delete", "deletes only the pointer returned by GetInstance(id), under its null test")
    else:
        R.violation("C13.ids", "destroy:delete", "deleted pointer is not the null-tested result of GetInstance(id)", **loc)
    if guard_neg:
        R.ok("C13.ids", "destroy:negative", "negative ids rejected before the look-up (size_t conversion)")
    else:
        R.violation("C13.ids", "destroy:negative", "negative id is not rejected before being converted to size_t for the look-up", **loc)
    rets = ret_nodes(f["body"])
    # result: IPQ_OK only assigned next to the delete; default IPQ_BADINSTANCE
    okv = [x for x in T.walk(f["body"]) if x[0] == "Ref" and x[2] == "enum" and x[3] in ("IPQ_OK", "IPQ_BADINSTANCE")]
    if {x[3] for x in okv} == {"IPQ_OK", "IPQ_BADINSTANCE"}:
        R.ok("C13.ids", "destroy:result", "IPQ_OK / IPQ_BADINSTANCE")
    else:
        R.violation("C13.ids", "destroy:result", "DestroyIPhreeqc must return IPQ_OK or IPQ_BADINSTANCE", **loc)
    # GetInstance: find(size_t(id)) on Instances and return second
    g = [fn for fn in P.functions.values() if fn["q"] == "IPhreeqcLib::GetInstance"]
    if R.require(len(g) == 1, "C13.ids", "IPhreeqcLib::GetInstance not found"):
        g = g[0]
        finds = [c for c in T.calls(g["body"]) if T.callee_q(c).endswith("::find") and T.is_node(T.call_obj(c)) and T.access_path(T.call_obj(c))[0] == ("global", "IPhreeqc::Instances")]
        if len(finds) == 1 and is_param(T.strip_casts(_unwrap_construct(T.call_args(finds[0])[0])), 0):
            R.ok("C13.ids", "getinstance:key", "Instances.find(id)")
        else:
            R.violation("C13.ids", "getinstance:key", "registry look-up is not keyed on the id parameter", file=g["file"], line=g["line"], function=g["q"])
    # CreateIPhreeqc returns the new object's Index
    c = [fn for fn in P.functions.values() if fn["q"] == "IPhreeqcLib::CreateIPhreeqc"]
    if R.require(len(c) == 1, "C13.ids", "IPhreeqcLib::CreateIPhreeqc not found"):
        c = c[0]
        okc = any(x[0] == "Member" and x[2] == "IPhreeqc::Index" for x in T.walk(c["body"])) and any(x[0] == "New" and x[2] == "IPhreeqc" for x in T.walk(c["body"]))
        if okc:
            R.ok("C13.ids", "create:index", "returns Index of the new IPhreeqc")
        else:
            R.violation("C13.ids", "create:index", "CreateIPhreeqc does not return the Index of a newly created instance", file=c["file"], line=c["line"], function=c["q"])


def _stream_root(call):
    """the stream object at the left end of an operator<< chain"""
    n = call
    while T.is_node(n) and n[0] == "Call" and T.callee_name(n) == "operator<<":
        n = T.strip_casts(T.call_obj(n) if T.is_node(T.call_obj(n)) else T.call_args(n)[0])
    if T.is_node(n) and n[0] == "Ref" and n[2] == "global":
        return n[3]
    return None


def _unwrap_construct(n):
    n = T.strip_casts(n)
    while T.is_node(n) and n[0] == "Construct" and (len(n[3]) == 1 or (n[3] and isinstance(n[2], dict) and n[2].get("cls", "").startswith("std::basic_string"))):
        n = T.strip_casts(n[3][0])
    return n


def domain_rule(P, R):
    """Simple store over the whole accepted domain: the current selected-output user number is whatever
    SetCurrentSelectedOutputUserNumber accepted (its guard on the parameter) or a constant assigned by the constructor / unload.
    A per-user-number setter that stores only under a test of that member must store for every accepted number; a narrower test
    makes the setter silently ignore some accepted user number while the getter keeps returning the old value."""
    RULE = "C13.domain"
    R.rule(RULE, "per-user-number setters store for every user number SetCurrentSelectedOutputUserNumber accepts", minimum=1)
    FQ = "IPhreeqc::CurrentSelectedOutputUserNumber"
    OPS = {"<": lambda a, b: a < b, "<=": lambda a, b: a <= b, ">": lambda a, b: a > b, ">=": lambda a, b: a >= b,
           "==": lambda a, b: a == b, "!=": lambda a, b: a != b}

    def lit(n):
        n = T.strip_casts(n)
        if n[0] == "Lit" and n[2] == "int":
            try:
                return int(n[3])
            except ValueError:
                return None
        if n[0] == "Un" and n[2] == "-" and lit(n[3]) is not None:
            return -lit(n[3])
        return None

    def pred(cond, is_var):
        """cond as a predicate over the integer designated by is_var, or None"""
        cond = T.strip_casts(cond)
        if cond[0] == "Paren":
            return pred(cond[2], is_var)
        if cond[0] == "Bin" and cond[2] in OPS:
            a, b = T.strip_casts(cond[3]), T.strip_casts(cond[4])
            if is_var(a) and lit(b) is not None:
                k = lit(b)
                return lambda v, op=OPS[cond[2]], k=k: op(v, k)
            if is_var(b) and lit(a) is not None:
                k = lit(a)
                return lambda v, op=OPS[cond[2]], k=k: op(k, v)
        if cond[0] == "Bin" and cond[2] in ("&&", "||"):
            p1, p2 = pred(cond[3], is_var), pred(cond[4], is_var)
            if p1 and p2:
                return (lambda v: p1(v) and p2(v)) if cond[2] == "&&" else (lambda v: p1(v) or p2(v))
        return None

    is_member = lambda n: n[0] == "Member" and n[2] == FQ
    setter = P.one("IPhreeqc::SetCurrentSelectedOutputUserNumber")
    accept = None
    consts = set()
    for f in P.functions.values():
        if not f["q"].startswith("IPhreeqc::") or not f.get("body"):
            continue
        for x in T.walk(f["body"]):
            if x[0] == "Bin" and x[2] == "=" and is_member(T.strip_casts(x[3])):
                v = lit(x[4])
                if v is not None:
                    consts.add(v)
        for ini in f.get("inits", []) or []:
            pass
    # the accept predicate: the If in the setter whose then-branch assigns the member from the parameter
    for x in T.walk(setter["body"]):
        if x[0] == "If" and any(y[0] == "Bin" and y[2] == "=" and is_member(T.strip_casts(y[3])) for y in T.walk(x[3])):
            accept = pred(x[2], lambda n: n[0] == "Ref" and n[2] == "param")
    if accept is None:
        R.anchor_missing(RULE, "SetCurrentSelectedOutputUserNumber: guarded assignment `if (<test of n>) CurrentSelectedOutputUserNumber = n` not found")
        return
    samples = [v for v in list(range(-3, 8)) + [1000, 2 ** 31 - 1] if accept(v)] + sorted(consts)
    R.info["C13.domain accepted samples"] = samples[:8]
    n = 0
    for f in P.functions.values():
        if not f["q"].startswith("IPhreeqc::") or not f.get("body") or f["q"] == setter["q"]:
            continue
        for x in T.walk(f["body"]):
            if x[0] != "If":
                continue
            if not any(is_member(y) for y in T.walk(x[2])):
                continue
            p = pred(x[2], is_member)
            if p is None:
                continue
            n += 1
            inst = "%s@%d" % (f["q"].split("::")[-1], x[1])
            bad = [v for v in samples if not p(v)]
            if bad:
                R.violation(RULE, inst, "`%s` is false for user number %s, which SetCurrentSelectedOutputUserNumber accepts: the guarded statement is silently skipped for that "
                            "user number (a setter stores nothing and the getter keeps returning the old value)" % (T.text(x[2])[:70], bad[0]),
                            file=f["file"], line=x[1], function=f["q"])
            else:
                R.ok(RULE, inst, "`%s` holds for every accepted user number" % T.text(x[2])[:60])
    if n == 0:
        R.anchor_missing(RULE, "no test of CurrentSelectedOutputUserNumber against a constant found (confirmed instance: SetSelectedOutputFileOn)")


def check_store(P, R, rec):
    M = {}
    for f in P.functions.values():
        if f.get("cls") == "IPhreeqc":
            M.setdefault(f["name"], []).append(f)
    CUR = "IPhreeqc::CurrentSelectedOutputUserNumber"

    def field_writes(f):
        out = []
        for tgt, hw, line, node in T.writes(f["body"]):
            root, steps = T.access_path(tgt)
            if root == ("this",) and steps and steps[0][0] == "f":
                out.append((steps, hw, node))
        return out

    def field_reads(f):
        out = set()
        for x in T.walk(f["body"]):
            if x[0] == "Member" and T.access_path(x)[0] == ("this",):
                st = T.access_path(x)[1]
                if st and st[0][0] == "f":
                    out.add(st[0][1])
        return out

    def keyed_on(node, fld):
        """all look-ups (operator[] / find) on this->fld inside node: list of key expressions"""
        keys = []
        for c in T.calls(node):
            nm = T.callee_name(c)
            if nm in ("operator[]", "find", "at", "count", "erase"):
                obj = T.call_obj(c) if T.is_node(T.call_obj(c)) else (T.call_args(c)[0] if T.call_args(c) else None)
                args = T.call_args(c) if T.is_node(T.call_obj(c)) else T.call_args(c)[1:]
                if obj is not None and T.access_path(obj) == (("this",), [("f", fld)]) and args:
                    keys.append(_unwrap_construct(args[0]))
        return keys

    table = load_table("c13_store.json")
    R.table("c13_store.json", table)
    for row in table["pairs"]:
        setter, getter, fld = row["setter"], row["getter"], row["field"]
        inst = "%s/%s" % (setter, getter)
        sf, gf = M.get(setter, []), M.get(getter, [])
        if not (R.require(len(sf) == 1, "C13.store", "setter %s not found" % setter) and R.require(len(gf) >= 1, "C13.store", "getter %s not found" % getter)):
            continue
        sf, gf = sf[0], gf[0]
        loc = dict(file=sf["file"], line=sf["line"], function=sf["q"])
        via = row.get("via")
        ws = field_writes(sf)
        if via:
            # setter delegates to a base-class accessor
            cs = [c for c in T.calls(sf["body"]) if T.callee_name(c) == via["set"]]
            cg = [c for c in T.calls(gf["body"]) if T.callee_name(c) == via["get"]]
            if len(cs) == 1 and is_param(T.call_args(cs[0])[0], 0) and len(cg) == 1 and not ws:
                R.ok("C13.store", inst, "via %s/%s" % (via["set"], via["get"]))
            else:
                R.violation("C13.store", inst, "setter/getter do not delegate to %s/%s with the parameter" % (via["set"], via["get"]), **loc)
            continue
        ws = [w for w in ws if w[1] != "call:operator[]"]      # m[k] = v is reported through the assignment
        wf = [w for w in ws if w[0][0] == ("f", "IPhreeqc::" + fld)]
        otherw = [w for w in ws if w[0][0] != ("f", "IPhreeqc::" + fld)]
        if len(wf) != 1:
            R.violation("C13.store", inst, "setter must write exactly IPhreeqc::%s once (found %d writes)" % (fld, len(wf)), **loc)
            continue
        if otherw and not row.get("also"):
            R.violation("C13.store", inst, "setter also writes %s" % sorted(set(w[0][0][1] for w in otherw)), **loc)
            continue
        w = wf[0]
        node = w[2]
        # stored value is the parameter
        val = node[4] if node[0] == "Bin" else (T.call_args(node)[-1] if node[0] == "Call" else None)
        val = _unwrap_construct(val)
        if not is_param(val, 0):
            R.violation("C13.store", inst, "setter does not store its parameter (stores `%s`)" % T.text(val), file=sf["file"], line=node[1], function=sf["q"])
            continue
        if row.get("keyed"):
            keys = keyed_on(sf["body"], "IPhreeqc::" + fld)
            badk = [k for k in keys if not (T.access_path(k) == (("this",), [("f", CUR)]))]
            if not keys or badk:
                R.violation("C13.store", inst, "per-user-number setting is not keyed by CurrentSelectedOutputUserNumber in the setter", **loc)
                continue
            # getter: reads the field keyed on current user number, directly or through a helper given the current number
            gkeys = keyed_on(gf["body"], "IPhreeqc::" + fld)
            helper_ok = False
            for c in T.calls(gf["body"]):
                if isinstance(c[2], dict) and c[2].get("cls") == "IPhreeqc" and T.call_args(c) and \
                        T.access_path(T.call_args(c)[0]) == (("this",), [("f", CUR)]):
                    hf = P.functions.get(c[2]["id"])
                    if hf and ("IPhreeqc::" + fld) in field_reads(hf):
                        helper_ok = True
            gk_ok = gkeys and all(T.access_path(k) == (("this",), [("f", CUR)]) for k in gkeys)
            if not (gk_ok or helper_ok):
                R.violation("C13.store", inst, "getter does not read IPhreeqc::%s keyed by the current user number" % fld, file=gf["file"], line=gf["line"], function=gf["q"])
                continue
        else:
            if ("IPhreeqc::" + fld) not in field_reads(gf):
                R.violation("C13.store", inst, "getter does not read IPhreeqc::%s" % fld, file=gf["file"], line=gf["line"], function=gf["q"])
                continue
        if row.get("name"):
            # guarded by filename && strlen(filename)
            g_ok = False
            for x in T.walk(sf["body"]):
                if x[0] == "If" and any(y is node for y in T.walk(x[3])):
                    c = x[2]
                    has_null = any(is_param(y, 0) for y in ([T.strip_casts(c[3])] if c[0] == "Bin" and c[2] == "&&" else []))
                    has_len = any(y[0] == "Call" and T.callee_q(y) == "strlen" and is_param(T.call_args(y)[0], 0) for y in T.walk(c))
                    if c[0] == "Bin" and c[2] == "&&" and has_null and has_len:
                        g_ok = True
            if not g_ok:
                R.violation("C13.store", inst, "file-name setter must ignore a null or empty name (`if (filename && strlen(filename))`)", **loc)
                continue
        R.ok("C13.store", inst, "field %s%s" % (fld, " keyed by current user number" if row.get("keyed") else ""))
    # SetCurrentSelectedOutputUserNumber rejects n < 0 before the write
    s = M.get("SetCurrentSelectedOutputUserNumber", [])
    if R.require(len(s) == 1, "C13.store", "SetCurrentSelectedOutputUserNumber not found"):
        s = s[0]
        ws = [w for w in field_writes(s) if w[0] == [("f", CUR)]]
        okg = False
        if len(ws) == 1:
            node = ws[0][2]
            for x in T.walk(s["body"]):
                if x[0] == "If":
                    c = T.strip_casts(x[2])
                    in_then = any(y is node for y in T.walk(x[3]))
                    if c[0] == "Bin" and in_then and ((c[2] == ">=" and is_param(c[3], 0) and T.lit_value(c[4]) == 0) or (c[2] == "<=" and T.lit_value(c[3]) == 0 and is_param(c[4], 0))):
                        okg = True
            rets = {T.strip_casts(r[2])[3] for r in ret_nodes(s["body"]) if T.is_node(T.strip_casts(r[2])) and T.strip_casts(r[2])[0] == "Ref"}
            okg = okg and rets == {"VR_OK", "VR_INVALIDARG"} and is_param(_unwrap_construct(node[4]), 0)
        if okg:
            R.ok("C13.store", "SetCurrentSelectedOutputUserNumber", "n >= 0 guard, VR_INVALIDARG otherwise")
        else:
            R.violation("C13.store", "SetCurrentSelectedOutputUserNumber", "must store n only when n >= 0 and return VR_INVALIDARG otherwise", file=s["file"], line=s["line"], function=s["q"])
    # constructor defaults
    ctor = [f for f in P.functions.values() if f.get("cls") == "IPhreeqc" and f.get("special") == "ctor"]
    if R.require(len(ctor) == 1, "C13.store", "IPhreeqc constructor not found"):
        ctor = ctor[0]
        inits = {i[1]: i[3] for i in ctor.get("inits", []) if i[0] == "field" and i[2]}
        for fld, want in sorted(table["defaults"].items()):
            v = inits.get("IPhreeqc::" + fld)
            got = T.lit_value(v) if v is not None else None
            if got is None:
                R.violation("C13.store", "default:" + fld, "constructor does not initialise %s with a constant" % fld, file=ctor["file"], line=ctor["line"], function=ctor["q"])
            elif got != want:
                R.violation("C13.store", "default:" + fld, "documented default of %s is %s, constructor sets %s" % (fld, want, got), file=ctor["file"], line=ctor["line"], function=ctor["q"])
            else:
                R.ok("C13.store", "default:" + fld, "= %s" % want)
        # default file names embed the id
        for hn in ("create_file_name", "sel_file_name"):
            h = M.get(hn, [])
            if R.require(len(h) == 1, "C13.store", "%s not found" % hn):
                if "IPhreeqc::Index" in field_reads(h[0]):
                    R.ok("C13.store", "filename:" + hn, "streams this->Index")
                else:
                    R.violation("C13.store", "filename:" + hn, "default file name no longer embeds the instance id", file=h[0]["file"], line=h[0]["line"], function=h[0]["q"])
    # ---------------- keyparam
    for f in P.functions.values():
        if f.get("cls") != "IPhreeqc":
            continue
        for pi, (pn, pt) in enumerate(zip(f["pnames"], f["params"])):
            if pt != "int" or pn not in ("n", "n_user", "nuser", "user_number"):
                continue
            if f["name"] in ("GetSelectedOutputStringLine", "GetComponent", "GetDumpStringLine", "GetErrorStringLine", "GetLogStringLine",
                             "GetOutputStringLine", "GetWarningStringLine", "GetNthSelectedOutputUserNumber", "SetCurrentSelectedOutputUserNumber"):
                continue  # n is a line/ordinal index there, not a user number
            looks = []
            for fld in rec["fields"]:
                if fld["ctype"].startswith("std::map<int,"):
                    for k in keyed_on(f["body"], fld["q"]):
                        looks.append((fld["q"], k))
            # helpers that take a user number themselves (sel_file_name, get_sel_out_file_on, get_sel_out_string_on ...): the method's
            # own user-number parameter is what it must hand on
            for c in T.calls(f["body"]):
                cq = T.callee_q(c) or ""
                if not cq.startswith("IPhreeqc::") or cq == f["q"]:
                    continue
                tgt = [g for g in P.fns_named(cq) if g.get("pnames")]
                if not tgt:
                    continue
                for ai, (an, at) in enumerate(zip(tgt[0]["pnames"], tgt[0]["params"])):
                    if at == "int" and an in ("n", "n_user", "nuser", "user_number") and ai < len(c[4]):
                        inst = "%s:%s()" % (f["name"], cq.split("::")[-1])
                        a = c[4][ai]
                        if is_param(a, pi):
                            R.ok("C13.keyparam", inst, "passes its parameter %s on" % pn)
                        elif T.access_path(T.strip_casts(a)) == (("this",), [("f", CUR)]):
                            R.violation("C13.keyparam", inst, "takes user number `%s` but calls %s with CurrentSelectedOutputUserNumber: the per-user-number default / switch of "
                                        "another block is used (e.g. the default file name selected_<current>.<id>.out for block %s)" % (pn, cq.split("::")[-1], pn),
                                        file=f["file"], line=c[1], function=f["q"])
                        else:
                            R.ok("C13.keyparam", inst, "passes `%s`" % T.text(a)[:30])
            for fq, k in looks:
                inst = "%s:%s" % (f["name"], fq.split("::")[-1])
                if is_param(k, pi):
                    R.ok("C13.keyparam", inst, "keyed on parameter %s" % pn)
                elif T.access_path(k) == (("this",), [("f", CUR)]):
                    R.violation("C13.keyparam", inst, "takes user number `%s` but looks up %s with CurrentSelectedOutputUserNumber" % (pn, fq.split("::")[-1]),
                                file=f["file"], line=f["line"], function=f["q"])
                else:
                    R.ok("C13.keyparam", inst, "keyed on `%s`" % T.text(k))


# ------------------------------------------------------------------------------------------------------------
def parse_f90(path, R):
    """line grammar for the binding table of the Fortran module: BIND(C, NAME='...') interface blocks with their dummy
    arguments and kinds, PARAMETER constants, and which *F function each module procedure calls."""
    if not os.path.exists(path):
        R.anchor_missing("C13.matrix", "IPhreeqc_interface.F90 not found")
        return None
    src = open(path, errors="replace").read()
    # join continuation lines
    # the file is run through cpp by the build: evaluate #ifdef/#ifndef/#else/#endif with the build's defines (none of
    # the macros tested in this file is defined in the analysed configuration)
    keep, stack = [], []
    for raw in src.split("\n"):
        t = raw.strip()
        if t.startswith("#"):
            m = re.match(r"#\s*(ifdef|ifndef|else|endif|if)\b\s*(\w+)?", t)
            if m:
                d = m.group(1)
                if d == "ifdef":
                    stack.append(False)
                elif d == "ifndef":
                    stack.append(True)
                elif d == "if":
                    stack.append(True)
                elif d == "else" and stack:
                    stack[-1] = not stack[-1]
                elif d == "endif" and stack:
                    stack.pop()
            keep.append("")
            continue
        keep.append(raw if all(stack) else "")
    src = "\n".join(keep)
    src = re.sub(r"&[ \t]*\n[ \t]*", " &&CONT&& ", src)
    lines = src.split("\n")
    binds, params, wrappers = {}, {}, {}
    cur_wrap = None
    cur_bind = None
    nested = 0
    for ln0, line in enumerate(lines, 1):
        ln = ln0
        line = line.replace("&&CONT&&", " ")
        s = line.split("!")[0].strip()
        if not s:
            continue
        if cur_bind is not None and nested == 0 and re.match(r"(?:[\w()=,\s]*?)\b(FUNCTION|SUBROUTINE)\s+(\w+)\s*\(", s, re.I) and not re.match(r"END\b", s, re.I):
            nested = 1
            mm = re.match(r"(?:[\w()=,\s]*?)\b(FUNCTION|SUBROUTINE)\s+(\w+)", s, re.I)
            cur_bind["kinds"][mm.group(2)] = "proc"
            continue
        if nested:
            if re.match(r"END\s+(FUNCTION|SUBROUTINE)", s, re.I):
                nested = 0
            continue
        m = re.match(r"INTEGER\s*\(KIND=4\)\s*,\s*PARAMETER\s*::\s*(\w+)\s*=\s*(-?\d+)", s, re.I)
        if m:
            params[m.group(1)] = int(m.group(2))
            continue
        m = re.match(r"(?:[\w()=,\s]*?)\b(FUNCTION|SUBROUTINE)\s+(\w+)\s*\(([^)]*)\)\s*(BIND\s*\(\s*C\s*,\s*NAME\s*=\s*'(\w+)'\s*\))?", s, re.I)
        if m and not re.match(r"END\b", s, re.I):
            name, args, bname = m.group(2), [a.strip() for a in m.group(3).split(",") if a.strip()], m.group(5)
            if bname:
                if name != bname:
                    R.violation("C13.matrix", "bind:" + name, "interface name %s differs from its BIND(C) NAME '%s'" % (name, bname), file="IPhreeqc_interface.F90", line=ln)
                cur_bind = {"line": ln, "argnames": args, "kinds": {}}
                binds[bname] = cur_bind
            elif cur_bind is None:
                cur_wrap = {"line": ln, "args": args, "calls": set()}
                wrappers[name] = cur_wrap
            continue
        if re.match(r"END\s+(FUNCTION|SUBROUTINE)", s, re.I):
            if cur_bind is not None:
                missing = [a for a in cur_bind["argnames"] if a not in cur_bind["kinds"]]
                if missing:
                    R.anchor_missing("C13.matrix", "F90 interface block at line %d: no declaration for dummy argument(s) %s" % (cur_bind["line"], missing))
                cur_bind["args"] = [(a, cur_bind["kinds"].get(a, "?")) for a in cur_bind["argnames"]]
                cur_bind = None
            else:
                cur_wrap = None
            continue
        if cur_bind is not None:
            m = re.match(r"(INTEGER|CHARACTER|REAL|DOUBLE PRECISION|LOGICAL)\b[^:]*::\s*(.*)", s, re.I)
            if m:
                kind = {"INTEGER": "int", "CHARACTER": "char", "REAL": "double", "DOUBLE PRECISION": "double", "LOGICAL": "int"}[m.group(1).upper()]
                for a in re.split(r",\s*(?![^()]*\))", m.group(2)):
                    an = re.match(r"\s*(\w+)", a)
                    if an:
                        cur_bind["kinds"][an.group(1)] = kind
                continue
            if re.match(r"(INTERFACE|END INTERFACE|PROCEDURE)", s, re.I):
                pass
            continue
        if cur_wrap is not None:
            for m in re.finditer(r"\b(\w+F)\s*\(", s):
                cur_wrap["calls"].add(m.group(1))
    # nested interface blocks for procedure arguments inside a BIND block are rare; procedure dummy args get kind proc
    for b in binds.values():
        b["args"] = [(a, (k if k != "?" else "proc")) for a, k in b.get("args", [(a, "?") for a in b["argnames"]])]
    if len(binds) < 60:
        R.anchor_missing("C13.matrix", "only %d BIND(C) blocks parsed from the Fortran module (confirmed: 71)" % len(binds))
        return None
    return binds, params, wrappers


def keyeddefault_rule(P, R):
    """"Defaults are the documented ones and embed the id in file names": a file name kept per user number (tables/c13_store.json: name +
    keyed) has the documented default `selected_<n>.<id>.out` for every n, not only for the block the constructor prepares.  Either the
    getter falls back to the id-derived helper (sel_file_name) when the map has no entry, or the function that selects the key
    (SetCurrentSelectedOutputUserNumber) enters the default.  Without one of the two, GetSelectedOutputFileName() of a fresh instance
    returns "" for n != 1."""
    RULE = "C13.keyeddefault"
    R.rule(RULE, "a per-user-number file name has its documented id-derived default for every user number (getter fallback or default entered when the number is selected)", minimum=1)
    tab = load_table("c13_store.json")
    rows = [r for r in (tab["pairs"] if "pairs" in tab else tab.get("rows", tab)) if isinstance(r, dict) and r.get("name") and r.get("keyed")]
    if not rows:
        R.anchor_missing(RULE, "tables/c13_store.json lists no keyed file-name store")
        return
    for r in rows:
        fld = "IPhreeqc::" + r["field"]
        getter = P.one("IPhreeqc::" + r["getter"])
        selector = P.one("IPhreeqc::SetCurrentSelectedOutputUserNumber")

        def defaults_in(fn):
            if any(T.callee_name(c) == "sel_file_name" for c in T.calls(fn["body"])):
                for t, how, line, w in T.writes(fn["body"]):
                    if any(y[0] == "Member" and y[2] == fld for y in T.walk(t)) and any(T.callee_name(c) == "sel_file_name" for c in T.calls(w)):
                        return line
                return -1       # helper used (e.g. returned directly)
            return None
        g_, s_ = defaults_in(getter), defaults_in(selector)
        inst = r["getter"]
        if g_ is not None:
            R.ok(RULE, inst, "%s falls back to sel_file_name" % r["getter"])
        elif s_ is not None and s_ > 0:
            R.ok(RULE, inst, "SetCurrentSelectedOutputUserNumber enters sel_file_name(n) for a number without a name (line %d)" % s_)
        else:
            R.violation(RULE, inst, "%s returns what %s holds for the current user number and nothing provides the documented default selected_<n>.<id>.out for a number "
                        "other than the one the constructor prepares: a fresh instance reports \"\" for block 2" % (r["getter"], r["field"]), file=getter["file"], line=getter["line"], function=getter["q"])


NULLARG_LIBRARY = {
    # uses that hand the pointer to the standard library, where a null pointer gives an exception or a failed open, not a wild read
    "IPhreeqc::RunString": "std::string(input): std::logic_error, recorded by the run boundary (known finding C08.boundary)",
    "IPhreeqc::load_db_str": "std::string(input): std::logic_error, recorded by the load boundary (known finding C08.boundary)",
}


def nullarg_rule(P, R):
    """"invalid arguments are rejected and change nothing": every text argument of the API (a `const char *` parameter of a public method of
    IPhreeqc that a C function of IPhreeqc.h forwards to) may be NULL.  Where the method, or the function it forwards the pointer to,
    hands it to code that reads through it (std::string::append / += / assign, strlen, strcpy, strcmp, operator<< on a stream that
    outlives the call), a null test of that parameter must come first.  (AddError(NULL) poisoned the error stream of the instance for
    ever, AccumulateLine(NULL) was a segmentation fault.)"""
    RULE = "C13.nullarg"
    R.rule(RULE, "every const char* argument of the API is null-tested before code that reads through it", minimum=8)
    READS = {"append", "operator+=", "assign", "strlen", "strcpy", "strcmp", "strncpy", "strcat"}
    rec = P.records.get("IPhreeqc")
    api = {f["q"].split("::")[-1] for f in P.functions.values() if f["file"] == "IPhreeqcLib.cpp" and f.get("externC")}
    n = 0

    def sites(f, pn, depth, trail):
        """yield (function, line, what, guarded) for reads through parameter pn of f"""
        tests = []
        for x in T.walk(f["body"]):
            if x[0] == "If" and any(y[0] == "Ref" and y[2] == "param" and y[3] == pn for y in T.walk(x[2])):
                tests.append(x)

        def guarded(line):
            for t in tests:
                if t[1] <= line:
                    return True
            return False
        for c in T.walk(f["body"]):
            if c[0] != "Call":
                continue
            for i, a in enumerate(c[4] or []):
                a2 = T.strip_casts(a)
                if not (T.is_node(a2) and a2[0] == "Ref" and a2[2] == "param" and a2[3] == pn):
                    continue
                name = T.callee_name(c)
                if name in READS:
                    yield f, c[1], name, guarded(c[1])
                elif name == "operator<<":
                    root = c[4][0]
                    while T.is_node(root) and root[0] == "Call" and T.callee_name(root) == "operator<<":
                        root = root[4][0]
                    root = T.strip_casts(root)
                    if not (T.is_node(root) and root[0] == "Ref" and root[2] == "local"):
                        yield f, c[1], "operator<< (stream that outlives the call)", guarded(c[1])
                elif depth < 2 and isinstance(c[2], dict) and c[2].get("proj"):
                    if guarded(c[1]):
                        continue
                    q = T.callee_q(c)
                    targets = [g for g in P.functions.values() if g.get("body") and (g["q"] == q or c[2].get("id") in (g.get("overrides") or []))]
                    off = 1 if (c[2].get("k") == "op" and c[2].get("cls")) else 0
                    for g in targets:
                        j = i - off
                        if 0 <= j < len(g["pnames"]) and g["params"][j].replace(" ", "") == "constchar*":
                            yield from sites(g, g["pnames"][j], depth + 1, trail + [g["q"]])
    seen = set()
    for f in sorted(P.functions.values(), key=lambda g: (g["file"], g["line"])):
        if not f.get("body") or f.get("cls") != "IPhreeqc" or f["name"] not in api:
            continue
        for pn, pt in zip(f["pnames"], f["params"]):
            if pt.replace(" ", "") != "constchar*":
                continue
            found = False
            for g, line, what, ok in sites(f, pn, 0, [f["q"]]):
                found = True
                inst = "%s(%s)->%s@%d" % (f["name"], pn, g["q"].split("::")[-1], line - g["line"])
                if inst in seen:
                    continue
                seen.add(inst)
                n += 1
                if ok:
                    R.ok(RULE, inst, "%s after a null test of the parameter" % what)
                else:
                    R.violation(RULE, inst, "%s(%s = NULL) reaches %s in %s (line %d) without a null test: a wild read or a permanently failed stream instead of a rejected "
                                "argument" % (f["name"], pn, what, g["q"], line), file=g["file"], line=line, function=g["q"])
            if not found:
                n += 1
                lib = NULLARG_LIBRARY.get(f["q"]) or next((v for k, v in NULLARG_LIBRARY.items()
                                                           if any(T.callee_q(c) == k for c in T.calls(f["body"]))), None)
                R.ok(RULE, "%s(%s)" % (f["name"], pn), lib or "no read through the pointer in the method or the functions it forwards it to (file open / library call)")
    if n < 8:
        R.anchor_missing(RULE, "only %d text arguments of the API analysed" % n)


def selfcopy_rule(P, R):
    """The value cells of the API are VARs; CVar assignment and every accessor that hands out a cell go through VarCopy(dest, src), which
    frees the destination before it reads the source.  When both are the same object the value is gone unless the function returns first:
    on every path from the entry of VarCopy to the call that clears the destination there must be a test of `dest == src`.  The same
    shape is checked for every project function that clears (VarClear / Clear) a parameter and afterwards reads another parameter of
    the same pointer type."""
    RULE = "C13.selfcopy"
    R.rule(RULE, "a copy function that clears its destination before reading its source returns first when both are the same object", minimum=1)
    n = 0
    for k, g in sorted(P.functions.items(), key=lambda kv: kv[1]["q"]):
        if not g.get("body") or len(g.get("pnames", [])) != 2:
            continue
        p0, p1 = g["pnames"]
        t0, t1 = [t.replace("const ", "").replace(" ", "") for t in g["params"]]
        if t0 != t1 or not t0.endswith("*") or t0 not in ("VAR*",):
            continue
        clears = [c for c in T.calls(g["body"]) if T.callee_name(c) in ("VarClear",) and c[4] and T.is_node(T.strip_casts(c[4][0])) and T.strip_casts(c[4][0])[0] == "Ref"
                  and T.strip_casts(c[4][0])[3] == p0]
        reads = [x for x in T.walk(g["body"]) if x[0] == "Member" and T.is_node(T.strip_casts(x[3])) and T.strip_casts(x[3])[0] == "Ref" and T.strip_casts(x[3])[3] == p1]
        if not clears or not reads or min(r[1] for r in reads) < clears[0][1]:
            continue
        n += 1
        inst = g["q"]
        guard = [x for x in T.walk(g["body"]) if x[0] == "If" and x[1] < clears[0][1] and T.is_node(T.strip_casts(x[2])) and T.strip_casts(x[2])[0] == "Bin"
                 and T.strip_casts(x[2])[2] == "==" and {T.text(T.strip_casts(x[2])[3]), T.text(T.strip_casts(x[2])[4])} == {p0, p1}
                 and any(y[0] == "Return" for y in T.walk(x[3]))]
        if guard:
            R.ok(RULE, inst, "`%s == %s` returns before the destination is cleared (line %d)" % (p0, p1, guard[0][1]))
        else:
            R.violation(RULE, inst, "%s clears %s (line %d) and then reads %s without having excluded that both are the same object: copying a VAR onto itself (CVar a = a) "
                        "loses the value" % (g["q"], p0, clears[0][1], p1), file=g["file"], line=clears[0][1], function=g["q"])
    if n < 1:
        R.anchor_missing(RULE, "VarCopy not found")
