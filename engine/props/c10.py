"""C10 – captured reaction state can be re-instated without changing behaviour.

Decided structurally (writer is the oracle for the reader and vice versa; nothing is executed):
  C10.findopt   CParser::find_option still has the matching semantics used below (lower-case; exact match first, then
                first table entry that begins with the word)
  C10.opts      every option word a class's dump_raw writes resolves - exactly as find_option resolves it against that
                class's vopts table - to a `case` of read_raw's switch whose body stores into the object
  C10.field     the member(s) streamed after option -w in dump_raw are member(s) stored under the case w resolves to
                (constant array indices included: capacitance[1] <-> capacitance[1])
  C10.cases     case labels of read_raw lie inside the vopts table; no label twice
  C10.complete  every data member of each dumped class is written by dump_raw (directly, through a getter, or by the
                parent's -component line), or is listed in tables/c10_undumped.json with a reason that is re-checked
  C10.serial    Serialize / Deserialize of each class are mirror images per channel (ints, doubles, nested objects): same
                number of items, same order, same loop nesting, same conditionality, same member
  C10.sercomplete every data member is carried by Serialize or listed in tables/c10_unserialized.json
  C10.keyword   the block keyword a class's dump_raw writes (e.g. SOLUTION_RAW) is the keyword whose read_input case reads
                that class into that kind's store and marks it in the same kind's Rxn_new_* set; *_MODIFY likewise
  C10.dumpkinds Phreeqc::dump_ostream has one block per kind, each block touches one kind only, all eleven kinds covered;
                StorageBinList::GetAllItems returns every kind's list exactly once; dumper/StorageBinList option words
                reach every kind
  C10.nested    nesting protocol of RAW text, per (parent, component) reader pair: the nested reader hands back on an option it does not
                know, the parent re-reads that line, the introducing line carries the key the reader extracts, and the introducing
                option is not a prefix of a nested option
  C10.ssorder   the position of an end-member in cxxSS::ss_comps is its identity in the binary non-ideal model: read_raw only appends or
                replaces in place (never rebuilds the vector)
  C10.nan       members the engine sets to NAN and dump_raw writes unconditionally are read back NaN-tolerantly
Not decided: (e) textual fixed point of dump -> read -> dump (number formatting), (f) equality of follow-up results
(derived quantities recomputed on read); phreeqc2cxxStorageBin / InternalCopy bulk copies are checked in the thorough tier
(C10.bulk).
"""
import json
import os

from .. import tree as T
from .. import rawio
from .. import kinds as KN
from ..facts import VERIF, AnalysisBroken

PROP = "C10"
EXPLANATION = __doc__


def load_table(name):
    return json.load(open(os.path.join(VERIF, "tables", name)))


def short(e):
    return e[0].split("::")[-1] + ("" if e[1] is None else "[%d]" % e[1])


def subset_compat(w, r):
    """every writer element has a compatible reader element"""
    missing = []
    for fw, iw in w:
        ok = any(fr == fw and (ir is None or iw is None or ir == iw) for fr, ir in r)
        if not ok:
            missing.append((fw, iw))
    return missing


def nested_rule(P, R):
    """"reading it back raises no errors": an entity's RAW text nests the text of its components (exchange components, surface components
    and charges, gas components, phases of an assemblage, solid solutions and their components, kinetic components, the isotopes of a
    solution).  The nesting protocol has four parts, each decided for every (parent reader, nested reader) pair:
      hand-back   the nested reader returns to its parent on an option it does not know (its default / error case sets OPT_KEYWORD and
                  reports nothing) - it cannot know where its text ends;
      re-read     the parent then processes that same line again (`useLastLine = true` after the nested call);
      key         the line that introduces the nested text carries the key the parent's reader extracts before it delegates (the writer
                  streams a value after the option text);
      prefix      the introducing option, as the writer spells it, is not a prefix of any option of the nested reader (option matching is
                  by prefix: `-isotope` inside an isotope block selects -isotope_number)."""
    RULE = "C10.nested"
    R.rule(RULE, "nesting protocol of RAW text for every (parent, component) reader pair: hand-back, re-read, key on the introducing line, no prefix clash", minimum=30)
    import re
    COMPONENT = re.compile(r"^cxx(ExchComp|SurfaceComp|SurfaceCharge|GasComp|PPassemblageComp|SS|SScomp|KineticsComp|SolutionIsotope)::read_raw$")
    npairs = 0
    for f in sorted(P.functions.values(), key=lambda g: (g["q"], g["line"])):
        if not f.get("body") or not f["q"].endswith("::read_raw") or f["q"].startswith("cxxStorageBin"):
            continue
        parent = f["q"].split("::")[0]
        where = dict(file=f["file"], function=f["q"])
        for case in T.walk(f["body"]):
            if case[0] != "Switch":
                continue
            # statements of the switch body, split at case labels
            body = case[3][2] if T.is_node(case[3]) and case[3][0] == "Compound" else []
            groups, cur = [], []
            for st in body:
                if T.is_node(st) and st[0] in ("Case", "Default"):
                    if cur:
                        groups.append(cur)
                    cur = [st]
                else:
                    cur.append(st)
            if cur:
                groups.append(cur)
            for g in groups:
                calls = [c for st in g for c in T.calls(st) if COMPONENT.match(T.callee_q(c) or "")]
                for c in calls:
                    nested = T.callee_q(c).split("::")[0]
                    if nested == parent:
                        continue
                    npairs += 1
                    pair = "%s>%s@%d" % (parent.replace("cxx", ""), nested.replace("cxx", ""), c[1])
                    # re-read
                    ull = any(y[0] == "Bin" and y[2] == "=" and T.text(y[3]) == "useLastLine" and str(T.strip_casts(y[4])[3]) in ("1", "true") for st in g for y in T.walk(st))
                    if ull:
                        R.ok(RULE, pair + ":re-read", "useLastLine = true after the nested read")
                    else:
                        R.violation(RULE, pair + ":re-read", "after %s::read_raw returns, %s does not process the line the nested reader stopped at (no `useLastLine = true`): the option "
                                    "following the nested text is lost or reported as unknown" % (nested, f["q"]), line=c[1], **where)
                    # hand-back
                    nf = P.fns_named(nested + "::read_raw")
                    nf = [x for x in nf if x.get("body")]
                    if not nf:
                        R.anchor_missing(RULE, "%s::read_raw has no body in the facts" % nested)
                        continue
                    nfn = nf[0]
                    hb = None
                    for sw in T.walk(nfn["body"]):
                        if sw[0] != "Switch":
                            continue
                        b2 = sw[3][2] if T.is_node(sw[3]) and sw[3][0] == "Compound" else []
                        grp, on = [], False
                        for st in b2:
                            if T.is_node(st) and st[0] in ("Case", "Default"):
                                lab = T.text(st[2]) if st[0] == "Case" else "default"
                                if "OPT_DEFAULT" in lab or "OPT_ERROR" in lab or lab == "default":
                                    on = True
                                    grp.append(st)
                                    continue
                                if on and grp and not any(T.is_node(z) and z[0] == "Break" for z in grp):
                                    grp.append(st)      # fall-through label
                                    continue
                                on = False
                            elif on:
                                grp.append(st)
                        if grp:
                            txt = " ".join(T.text(y) for st in grp for y in T.walk(st) if T.is_node(y) and y[0] in ("Bin", "Call"))
                            errs = any(T.callee_name(cc) == "error_msg" for st in grp for cc in T.calls(st))
                            keyw = "OPT_KEYWORD" in txt
                            hb = (keyw and not errs, errs)
                    if hb is None:
                        R.anchor_missing(RULE, "%s::read_raw: default / error case of the option switch not found" % nested)
                    elif hb[0]:
                        R.ok(RULE, pair + ":hand-back", "unknown option -> OPT_KEYWORD, no message")
                    else:
                        R.violation(RULE, pair + ":hand-back", "%s::read_raw %s an option it does not know instead of returning to %s: every option of the parent that follows "
                                    "the nested text is consumed by the nested reader" % (nested, "reports" if hb[1] else "does not hand back", parent),
                                    file=nfn["file"], line=nfn["line"], function=nfn["q"])
    # key + prefix: the writer side
    VT = rawio.vopts_tables(P)
    for f in sorted(P.functions.values(), key=lambda g: (g["q"], g["line"])):
        if not f.get("body") or not f["q"].endswith("::dump_raw"):
            continue
        parent = f["q"].split("::")[0]
        stmts = [x for x in T.walk(f["body"]) if x[0] == "Compound"]
        for blk in stmts:
            seq = [st for st in blk[2] if T.is_node(st)]
            for i, st in enumerate(seq):
                nc = [c for c in T.calls(st) if (T.callee_q(c) or "").endswith("::dump_raw") and re.match(r"^cxx(ExchComp|SurfaceComp|SurfaceCharge|GasComp|PPassemblageComp|SS|SScomp|KineticsComp|SolutionIsotope)::dump_raw$", T.callee_q(c) or "")]
                if not nc or i == 0 or st[0] in ("For", "RangeFor", "While", "If", "Compound"):
                    continue
                nested = T.callee_q(nc[0]).split("::")[0]
                if nested == parent:
                    continue
                prev = seq[i - 1]
                lits = [str(T.strip_casts(y)[3]).strip('"') for y in T.walk(prev) if y[0] == "Lit" and y[2] == "str"]
                opt = [l.strip() for l in lits if l.strip().startswith("-")]
                if not opt:
                    continue
                optname = opt[0].lstrip("-").split()[0].lower()
                inst = "%s>%s:-%s" % (parent.replace("cxx", ""), nested.replace("cxx", ""), optname)
                # does the parent's reader extract a key for this option?  (iss >> name before delegating)
                npairs += 1
                streams_value = any(y[0] in ("Member", "Ref", "Call") and y is not None and ("first" in T.text(y) or "Get_name" in T.text(y) or "Get_phase_name" in T.text(y) or "Get_formula" in T.text(y)
                                                                                           or "Get_rate_name" in T.text(y) or "Get_isotope_name" in T.text(y))
                                    for y in T.walk(prev) if T.is_node(y))
                if streams_value:
                    R.ok(RULE, inst + ":key", "the introducing line carries the key")
                else:
                    R.violation(RULE, inst + ":key", "%s writes `-%s` without the key of the nested %s, which the reader extracts before it delegates: the dump cannot be read back"
                                % (f["q"], optname, nested), file=f["file"], line=prev[1], function=f["q"])
                # prefix clash with the nested reader's options
                nopts = [w for w in (VT.get(nested, {}).get("words") or []) if w]
                if nopts:
                    clash = [o for o in nopts if o.lower().startswith(optname)]
                    if clash:
                        R.violation(RULE, inst + ":prefix", "`-%s` is a prefix of the nested option `-%s` of %s: inside the nested text the introducing line of the NEXT component is "
                                    "taken for that option" % (optname, clash[0], nested), file=f["file"], line=prev[1], function=f["q"])
                    else:
                        R.ok(RULE, inst + ":prefix", "no nested option starts with `%s`" % optname)
    if npairs < 10:
        R.anchor_missing(RULE, "only %d parent / component pairs found" % npairs)


def ssorder_rule(P, R):
    """In the binary non-ideal solid-solution model the POSITION of an end-member in cxxSS::ss_comps is its identity (component 1 /
    component 2: a0, a1, ag0, ag1, xb1, xb2 are applied by index in tidy and in the model).  A restored state must therefore list
    the end-members in the dumped order: cxxSS::read_raw may only append a new component or replace one in place; rebuilding the vector
    (clear / erase / insert / assignment, e.g. from a name-sorted map) silently swaps the end-members."""
    RULE = "C10.ssorder"
    R.rule(RULE, "cxxSS::read_raw keeps the dumped order of the end-members: ss_comps is only appended to or replaced in place", minimum=2)
    fs = [g for g in P.fns_named("cxxSS::read_raw") if g.get("body")]
    if not fs:
        R.anchor_missing(RULE, "cxxSS::read_raw not found")
        return
    f = fs[0]
    ops = []
    for c in T.calls(f["body"]):
        obj = c[3] if T.is_node(c[3]) else (c[4][0] if c[2].get("k") == "op" and c[4] else None)
        if obj is None:
            continue
        o = T.strip_casts(obj)
        if o[0] == "Member" and o[2] == "cxxSS::ss_comps":
            ops.append((T.callee_name(c), c[1]))
    allowed = {"push_back", "operator[]", "size", "empty", "back", "front", "at"}
    bad = [(n_, l) for n_, l in ops if n_ not in allowed]
    if not ops or not any(n_ == "push_back" for n_, l in ops):
        R.anchor_missing(RULE, "cxxSS::read_raw no longer appends to ss_comps")
        return
    if bad:
        R.violation(RULE, "ss_comps", "cxxSS::read_raw applies `%s` to ss_comps (line %d): the vector is rebuilt instead of appended to / replaced in place, so the end-members of a restored "
                    "binary non-ideal solid solution can come back in another order and the Guggenheim parameters are applied to the wrong end-member" % bad[0],
                    file=f["file"], line=bad[0][1], function=f["q"])
    else:
        R.ok(RULE, "ss_comps", "operations on ss_comps: %s" % ", ".join(sorted(set(n_ for n_, l in ops))))
    # the consumer: tidy / model address the end-members by position
    users = [g["q"] for g in P.functions.values() if g.get("body") and g["q"].startswith("Phreeqc::") and
             any(x[0] == "Call" and T.callee_name(x) == "operator[]" and x[4] and any(T.callee_name(cc) == "Get_ss_comps" for cc in T.calls(x[4][0])) and T.lit_value(x[4][1]) in (0, 1) for x in T.walk(g["body"]))]
    if users:
        R.ok(RULE, "positional-users", "%d engine functions address Get_ss_comps()[0] / [1]" % len(users))
    else:
        R.anchor_missing(RULE, "no engine function addresses Get_ss_comps()[0] / [1] any more (the order may have stopped mattering)")


def nan_rule(P, R):
    """A member that the engine deliberately sets to NAN (`Set_x(NAN)`: "not given") and that dump_raw writes is written as `nan`.
    Stream extraction of a double (`iss >> x`) rejects that text, so the entity's own dump raises an error when it is read back.  The
    read_raw case of such a member has to parse the token NaN-tolerantly (strtod / sscanf)."""
    RULE = "C10.nan"
    R.rule(RULE, "members the engine sets to NAN and dump_raw writes unconditionally are read back with a NaN-tolerant conversion", minimum=1)
    tab = json.load(open(os.path.join(VERIF, "tables", "c10_nan_exempt.json")))
    R.table("c10_nan_exempt.json", tab)
    exempt = tab["rows"]
    used = set()
    setters = {}
    for f in P.functions.values():
        if not f.get("body"):
            continue
        for c in T.calls(f["body"]):
            q = T.callee_q(c) or ""
            if "::Set_" in q and c[4] and any(y[0] == "Call" and (T.callee_q(y) or "").startswith("__builtin_nan") for y in T.walk(c[4][0])):
                setters.setdefault(q, (f, c))
    n = 0
    for q, (f, c) in sorted(setters.items()):
        cls, meth = q.rsplit("::", 1)
        member = meth[len("Set_"):]
        rd = [g for g in P.fns_named(cls + "::read_raw") if g.get("body")]
        dm = [g for g in P.fns_named(cls + "::dump_raw") if g.get("body")]
        if not rd or not dm:
            continue
        # written unconditionally by dump_raw?
        uncond = False
        for st in dm[0]["body"][2]:
            if T.is_node(st) and st[0] not in ("If", "For", "While", "RangeFor") and any(y[0] == "Member" and y[2] == cls + "::" + member for y in T.walk(st)):
                uncond = True
        if not uncond:
            continue
        n += 1
        inst = "%s::%s" % (cls, member)
        # the reader: any `iss >> this->member`
        direct = None
        for x in T.walk(rd[0]["body"]):
            if x[0] == "Call" and T.callee_name(x) == "operator>>" and any(y[0] == "Member" and y[2] == cls + "::" + member for y in T.walk(x)):
                direct = x
        if direct is not None and inst in exempt:
            used.add(inst)
            R.ok(RULE, inst, "exempt (%s): %s" % (exempt[inst]["kind"], exempt[inst]["reason"][:120]))
        elif direct is not None:
            R.violation(RULE, inst, "%s is set to NAN at %s:%d and written by dump_raw as `nan`, but read_raw extracts it with `iss >> %s`, which rejects that text: the entity's "
                        "own dump raises `Expected numeric value` when read back" % (inst, f["q"].split("::")[-1], c[1], member), file=rd[0]["file"], line=direct[1], function=rd[0]["q"])
        else:
            R.ok(RULE, inst, "not read by stream extraction of a double (NaN-tolerant conversion)")
    for k in exempt:
        if k not in used:
            R.info.setdefault("redundant_exemption_rows", []).append("C10.nan:" + k)
    if n == 0:
        R.anchor_missing(RULE, "no member that is set to NAN and dumped unconditionally was found (confirmed: cxxGasComp::p_read)")


def run(P, R, tier):
    casekey_rule(P, R)
    from .c04 import _Renamed
    from . import c14 as C14
    C14.overwrite_rule(P, _Renamed(R, "C14.overwrite", "C10.rawstore"), KN.get(P))
    R.undecided += [
        "(e) dump -> read -> dump is a textual fixed point (number formatting / precision)",
        "(f) follow-up results on the restored state equal those on the original (derived quantities recomputed on read)",
    ]
    K = KN.get(P)
    crossreset_rule(P, R)
    nested_rule(P, R)
    nan_rule(P, R)
    ssorder_rule(P, R)
    onceflag_rule(P, R)
    dumprange_rule(P, R)
    binkinds_rule(P, R)
    precision_rule(P, R)
    optelement_rule(P, R)
    litindex_rule(P, R)
    # ------------------------------------------------------------------ C10.findopt
    R.rule("C10.findopt", "CParser::find_option: lower-cased token, exact match first, then first entry that begins with it", minimum=1)
    shape, desc = rawio.find_option_shape(P)
    fo = P.fns_named("CParser::find_option")
    if shape is True:
        resolve = rawio.resolve_option
        R.ok("C10.findopt", "CParser::find_option", desc)
    elif shape == "prefix-only":
        resolve = rawio.resolve_option_prefix_only
        R.ok("C10.findopt", "CParser::find_option", desc + " - the table-order-sensitive semantics are applied below")
    else:
        R.anchor_missing("C10.findopt", desc)
        return
    # get_option must route "-word" lines through find_option(..., exact=false)
    go = [f for f in P.fns_named("CParser::get_option")]
    R.require(any(any(T.callee_name(c) == "find_option" for c in T.calls(f["body"])) for f in go), "C10.findopt",
              "CParser::get_option no longer calls find_option")

    vt = rawio.vopts_tables(P)
    classes = sorted(c for c in vt if P.fns_named(c + "::dump_raw") and P.fns_named(c + "::read_raw"))
    R.require(len(classes) >= 20, "C10.opts", "only %d classes with vopts + dump_raw + read_raw found (confirmed: 20)" % len(classes))
    undumped_tab = load_table("c10_undumped.json")
    R.table("c10_undumped.json", undumped_tab)
    exempt = {(e["class"], e["field"]): e for e in undumped_tab["fields"]}

    R.rule("C10.opts", "every dumped option word resolves (as find_option resolves it) to a read_raw case that stores", minimum=150)
    R.rule("C10.field", "members streamed after an option in dump_raw are the members stored by the case it resolves to", minimum=140)
    R.rule("C10.cases", "read_raw case labels lie inside the class's vopts table, none twice", minimum=180)
    R.rule("C10.complete", "every data member of a dumped class is written by dump_raw / its parent, or exempt with a re-checked reason", minimum=190)

    writer = {}
    parent_dumped = {}   # class -> set of field q dumped by another class's dump_raw through a const getter
    for cls in classes:
        d = P.fns_named(cls + "::dump_raw")
        if len(d) != 1:
            R.anchor_missing("C10.opts", "%s::dump_raw: %d definitions" % (cls, len(d)))
            continue
        writer[cls] = rawio.writer_model(d[0], P)
        # getters of OTHER cxx classes invoked while dumping (the -component <name> lines)
        for c in T.calls(d[0]["body"]):
            cd = c[2]
            if isinstance(cd, dict) and cd.get("proj") and cd.get("const") and cd.get("cls") and cd["cls"] != cls and cd["cls"] in vt \
                    and T.callee_name(c) != "dump_raw":
                for k in P.by_q.get(cd.get("q", ""), []):
                    g = P.functions[k]
                    if g["id"] == cd.get("id"):
                        for e in rawio.this_elems(g["body"], None):
                            parent_dumped.setdefault(cd["cls"], set()).add(e[0])
    for cls in classes:
        if cls not in writer:
            continue
        words = vt[cls]["words"]
        if words is None:
            R.anchor_missing("C10.opts", "%s::vopts: initialiser not recognised" % cls)
            continue
        hdr, segs = writer[cls]
        rfn = P.fns_named(cls + "::read_raw")[0]
        dfn = P.fns_named(cls + "::dump_raw")[0]
        rm = rawio.reader_model(P, rfn)
        if rm is None:
            if segs:
                R.anchor_missing("C10.opts", "%s::read_raw: option switch not found although dump_raw writes %d options" % (cls, len(segs)))
            else:
                R.ok("C10.opts", cls, "no option lines (positional format)")
            rm = {"cases": {}}
        cases = rm["cases"]
        # ---- cases
        seen = {}
        if rm.get("switch") is not None:
            for labels, stmts, line in rawio.switch_groups(rm["switch"]):
                for lb in labels:
                    inst = "%s:case %s" % (cls, lb)
                    if lb == "default":
                        continue
                    if lb is None:
                        R.anchor_missing("C10.cases", "%s::read_raw: case label at line %d is not a constant" % (cls, line))
                        continue
                    if lb in seen:
                        R.violation("C10.cases", inst, "case label %s appears twice in read_raw" % lb, file=rfn["file"], line=line, function=rfn["q"])
                    elif lb >= len(words):
                        R.violation("C10.cases", inst, "case %d has no entry in the vopts table (%d entries): unreachable reader code or missing option word"
                                    % (lb, len(words)), file=rfn["file"], line=line, function=rfn["q"])
                    else:
                        R.ok("C10.cases", inst, words[lb] if lb >= 0 else "parser code")
                    seen[lb] = line
        # ---- options and fields
        dumped_fields = set(e[0] for e in hdr["elems"])
        for s in segs:
            inst = "%s:-%s" % (cls, s["word"])
            dumped_fields |= set(e[0] for e in s["elems"] | s["getter"])
            idx = resolve(s["word"], words)
            if idx is None:
                R.violation("C10.opts", inst, "dump_raw writes option -%s but no entry of %s::vopts matches it: the reader rejects the dumped block"
                            % (s["word"], cls), file=dfn["file"], line=s["line"], function=dfn["q"])
                continue
            case = cases.get(idx)
            if case is None:
                R.violation("C10.opts", inst, "dumped option -%s resolves to vopts[%d] = \"%s\" but read_raw has no case %d: the value is never read back"
                            % (s["word"], idx, words[idx], idx), file=dfn["file"], line=s["line"], function=dfn["q"])
                continue
            if words[idx] != s["word"].lower():
                note = "resolves by prefix to \"%s\"" % words[idx]
            else:
                note = "exact"
            if not case["writes"]:
                R.violation("C10.opts", inst, "dumped option -%s resolves to case %d (\"%s\") whose body stores nothing into the object: the dumped value is dropped on read-back"
                            % (s["word"], idx, words[idx]), file=rfn["file"], line=case["line"], function=rfn["q"],
                            path=["%s:%d dump_raw writes -%s" % (dfn["file"], s["line"], s["word"]), "%s:%d case %d" % (rfn["file"], case["line"], idx)])
                continue
            R.ok("C10.opts", inst, "case %d (%s), stores %s" % (idx, note, ",".join(sorted(short(e) for e in case["writes"]))[:60]))
            # field pairing
            w = set(s["elems"])
            if w:
                miss = subset_compat(w, case["stores"])
                if miss:
                    R.violation("C10.field", inst, "dump_raw streams %s after -%s but case %d of read_raw stores the value into %s: written and read member differ"
                                % (",".join(sorted(short(e) for e in miss)), s["word"], idx, ",".join(sorted(short(e) for e in case["stores"])) or "nothing"),
                                file=dfn["file"], line=s["line"], function=dfn["q"],
                                path=["%s:%d dump_raw -%s" % (dfn["file"], s["line"], s["word"]), "%s:%d read_raw case %d" % (rfn["file"], case["line"], idx)])
                else:
                    R.ok("C10.field", inst, ",".join(sorted(short(e) for e in w)))
            elif s["getter"]:
                if rawio.elems_compatible(s["getter"], case["writes"]):
                    R.ok("C10.field", inst, "through getter: " + ",".join(sorted(short(e) for e in s["getter"]))[:60])
                else:
                    R.violation("C10.field", inst, "dump_raw streams a value computed from %s after -%s but case %d stores %s"
                                % (",".join(sorted(short(e) for e in s["getter"])), s["word"], idx, ",".join(sorted(short(e) for e in case["writes"]))),
                                file=dfn["file"], line=s["line"], function=dfn["q"])
            else:
                R.ok("C10.field", inst, "constant written (reader stores %s)" % ",".join(sorted(short(e) for e in case["writes"])))
        # ---- completeness
        rec = P.records.get(cls)
        if rec is None:
            R.anchor_missing("C10.complete", "record %s not found" % cls)
            continue
        for fld in rec["fields"]:
            inst = "%s::%s" % (cls, fld["name"])
            if fld["q"] in dumped_fields:
                R.ok("C10.complete", inst, "written by dump_raw")
            elif fld["q"] in parent_dumped.get(cls, ()):
                R.ok("C10.complete", inst, "written by the parent's dump_raw through a getter (component key)")
            elif (cls, fld["name"]) in exempt:
                ex = exempt[(cls, fld["name"])]
                ok, why = check_exempt(P, cls, fld, ex)
                if ok:
                    R.ok("C10.complete", inst, "exempt (%s): %s" % (ex["class_of_reason"], why))
                else:
                    R.violation("C10.complete", inst, "exemption '%s' no longer holds: %s" % (ex["class_of_reason"], why),
                                file=rec["file"], line=fld["line"], function=cls)
            else:
                R.violation("C10.complete", inst, "data member %s of %s is not written by dump_raw (nor by its parent) and has no exemption: "
                            "state held in it is lost when the entity is captured with DUMP and read back" % (fld["name"], cls),
                            file=rec["file"], line=fld["line"], function=cls + "::dump_raw")
    for (c, f), ex in exempt.items():
        rec = P.records.get(c)
        if rec is None or not any(x["name"] == f for x in rec["fields"]):
            R.anchor_missing("C10.complete", "exemption row %s::%s refers to a member that no longer exists" % (c, f))

    serial_rules(P, R, vt)
    keyword_rules(P, R, K, writer)
    dumpkind_rules(P, R, K)
    if tier == "thorough":
        bulk_rules(P, R, K)


# ------------------------------------------------------------------------------------------ exemptions

def field_accesses(P, fq):
    """(function, 'r'|'w', line) for every access to field fq in the program"""
    out = []
    for key, f in P.functions.items():
        wnodes = set()
        roots = [f["body"]] + [i[3] for i in f.get("inits", [])]
        for rt in roots:
            for tgt, how, line, node in T.writes(rt):
                for x in T.walk(tgt):
                    if x[0] == "Member" and x[2] == fq:
                        wnodes.add(id(x))
                        out.append((f, "w", line))
            for x in T.walk(rt):
                if x[0] == "Member" and x[2] == fq and id(x) not in wnodes:
                    out.append((f, "r", x[1]))
        for i in f.get("inits", []):
            if i[0] == fq or i[0] == fq.split("::")[-1]:
                out.append((f, "w", i[1] if isinstance(i[1], int) else f["line"]))
    return out


def check_exempt(P, cls, fld, ex):
    kind = ex["class_of_reason"]
    fq = fld["q"]
    if kind == "never-read":
        # no function reads the member except accessors that nobody calls for reading and the class's own copy/serialize code
        rd = [(f["q"], l) for f, m, l in field_accesses(P, fq) if m == "r" and not f["q"].startswith(cls + "::")]
        if rd:
            return False, "member is read at %s" % rd[:3]
        return True, ex["reason"]
    if kind == "definition-state":
        # the reader must put the restored entity into the defined state itself: read_raw (or the code it calls) writes it
        r = P.fns_named(cls + "::read_raw")
        if r:
            w = rawio.written_elems(P, [r[0]["body"]], cls)
            if any(e[0] == fq for e in w):
                return True, ex["reason"] + " (read_raw sets it)"
            if ex.get("not_set_by_reader_ok"):
                return True, ex["reason"]
            return False, "read_raw does not set %s" % fld["name"]
        return False, "no read_raw"
    if kind == "derived":
        # recomputed before use: the named builder functions must write it
        for b in ex.get("builders", []):
            fs = P.fns_named(b)
            if not fs:
                return False, "builder %s not found" % b
            w = False
            for f in fs:
                for tgt, how, line, node in T.writes(f["body"]):
                    if any(x[0] == "Member" and x[2] == fq for x in T.walk(tgt)):
                        w = True
                    # write through a reference-returning accessor: charge_ptr->Get_z_gMCD_map()[z] = ...
                    for x in T.walk(tgt):
                        if x[0] == "Call" and isinstance(x[2], dict) and x[2].get("cls") == cls and "&" in x[2].get("ret", ""):
                            for k in P.by_q.get(x[2].get("q", ""), []):
                                g = P.functions[k]
                                if any(y[0] == "Return" and any(z[0] == "Member" and z[2] == fq for z in T.walk(y)) for y in T.walk(g["body"])):
                                    w = True
                for c in T.calls(f["body"]):
                    for k in P.by_q.get(T.callee_q(c), []):
                        g = P.functions[k]
                        if g.get("cls") == cls or g["q"].startswith(cls + "::"):
                            for tgt, how, line, node in T.writes(g["body"]):
                                if any(x[0] == "Member" and x[2] == fq for x in T.walk(tgt)):
                                    w = True
            if not w:
                return False, "builder %s does not write %s" % (b, fld["name"])
        if not ex.get("builders"):
            return False, "derived exemption without builders"
        return True, ex["reason"]
    if kind == "infrastructure":
        return True, ex["reason"]
    return False, "unknown exemption class " + kind


# ------------------------------------------------------------------------------------------ serialisation

def serial_rules(P, R, vt):
    R.rule("C10.serial", "Serialize and Deserialize are mirror images per channel: count, order, loop nesting, conditionality, member", minimum=240)
    R.rule("C10.sercomplete", "every data member is carried by Serialize or exempt with a re-checked reason", minimum=190)
    tab = load_table("c10_unserialized.json")
    R.table("c10_unserialized.json", tab)
    exempt = {(e["class"], e["field"]): e for e in tab["fields"]}
    cond_ok = {(e["class"], e["channel"]): e for e in tab.get("conditional_consumption", [])}
    pairs = []
    for q in sorted(P.by_q):
        if q.endswith("::Serialize") and q.startswith("cxx"):
            cls = q[:-len("::Serialize")]
            s = P.fns_named(q)
            d = P.fns_named(cls + "::Deserialize")
            if len(s) == 1 and len(d) == 1:
                pairs.append((cls, s[0], d[0]))
            else:
                R.violation("C10.serial", cls, "Serialize without exactly one Deserialize (%d/%d definitions)" % (len(s), len(d)),
                            file=s[0]["file"], line=s[0]["line"], function=q)
    R.require(len(pairs) >= 20, "C10.serial", "only %d Serialize/Deserialize pairs found (confirmed: 20)" % len(pairs))
    for cls, sf, df in pairs:
        st = rawio.serialize_model(sf)
        dt = rawio.deserialize_model(df)
        rec = P.records.get(cls)
        selfcontainer = bool(rec and any(b.startswith("std::") for b in rec["bases"]))
        for ch, chname in (("I", "ints"), ("D", "doubles")):
            a = [t for t in st if t["chan"] in (ch, "N")]
            b = [t for t in dt if t["chan"] in (ch, "N")]
            if len(a) != len(b):
                R.violation("C10.serial", "%s:%s:count" % (cls, chname),
                            "Serialize emits %d items on the %s channel (incl. nested objects) but Deserialize consumes %d: every later item is shifted"
                            % (len(a), chname, len(b)), file=df["file"], line=df["line"], function=df["q"],
                            path=["%s:%d %s" % (sf["file"], t["line"], t["chan"]) for t in a][:30])
                continue
            for i, (x, y) in enumerate(zip(a, b)):
                inst = "%s:%s#%d" % (cls, chname, i)
                why = None
                if x["chan"] != y["chan"]:
                    why = "item %d is %s in Serialize but %s in Deserialize" % (i, x["chan"], y["chan"])
                elif x["depth"] != y["depth"]:
                    why = "item %d is at loop depth %d in Serialize but %d in Deserialize" % (i, x["depth"], y["depth"])
                elif x["cond"] != y["cond"]:
                    if (cls, chname) in cond_ok:
                        pass
                    else:
                        why = "item %d is %s in Serialize but %s in Deserialize (stream desynchronises when the condition is false)" % (
                            i, "conditional" if x["cond"] else "unconditional", "conditional" if y["cond"] else "unconditional")
                if why is None and x["elems"] and y["elems"] and not rawio.elems_compatible(x["elems"], y["elems"]):
                    why = "item %d carries %s in Serialize but is stored into %s by Deserialize" % (
                        i, ",".join(sorted(short(e) for e in x["elems"])), ",".join(sorted(short(e) for e in y["elems"])))
                if why is None and not selfcontainer and (not x["elems"] or not y["elems"]):
                    why = "item %d: member could not be identified on the %s side (line %d)" % (i, "Serialize" if not x["elems"] else "Deserialize",
                                                                                           x["line"] if not x["elems"] else y["line"])
                    R.anchor_missing("C10.serial", "%s %s" % (inst, why))
                    continue
                if why:
                    R.violation("C10.serial", inst, why, file=df["file"], line=y["line"], function=df["q"],
                                path=["%s:%d Serialize" % (sf["file"], x["line"]), "%s:%d Deserialize" % (df["file"], y["line"])])
                else:
                    R.ok("C10.serial", inst, ",".join(sorted(short(e) for e in x["elems"])) or "container element")
        # completeness
        if rec is None:
            continue
        got = set(e[0] for t in st for e in t["elems"])
        for fld in rec["fields"]:
            inst = "%s::%s" % (cls, fld["name"])
            if fld["q"] in got:
                R.ok("C10.sercomplete", inst, "serialized")
            elif (cls, fld["name"]) in exempt:
                ex = exempt[(cls, fld["name"])]
                ok, why = check_exempt(P, cls, fld, ex)
                if ok:
                    R.ok("C10.sercomplete", inst, "exempt (%s): %s" % (ex["class_of_reason"], why))
                else:
                    R.violation("C10.sercomplete", inst, "exemption '%s' no longer holds: %s" % (ex["class_of_reason"], why),
                                file=rec["file"], line=fld["line"], function=cls)
            else:
                R.violation("C10.sercomplete", inst, "data member %s is not carried by %s::Serialize and has no exemption: a binary-serialisation copy loses it"
                            % (fld["name"], cls), file=rec["file"], line=fld["line"], function=cls + "::Serialize")
    for (c, f), ex in exempt.items():
        rec = P.records.get(c)
        if rec is None or not any(x["name"] == f for x in rec["fields"]):
            R.anchor_missing("C10.sercomplete", "exemption row %s::%s refers to a member that no longer exists" % (c, f))


# ------------------------------------------------------------------------------------------ keyword dispatch

def keyword_rules(P, R, K, writer):
    R.rule("C10.keyword", "the keyword a class's dump_raw writes is read by read_input into that kind's store and Rxn_new set; MODIFY likewise", minimum=22)
    ri = P.one("Phreeqc::read_input")
    sw = None
    for x in T.walk(ri["body"]):
        if x[0] == "Switch":
            n = sum(1 for y in T.walk(x[3]) if y[0] == "Case")
            if n > 50:
                sw = x
    if sw is None:
        R.anchor_missing("C10.keyword", "keyword switch of read_input not found")
        return
    # keyword names
    names = keyword_names(P)
    if not names:
        R.anchor_missing("C10.keyword", "keyword name table (Keywords::phreeqc_keyword_names) not found")
        return
    groups = rawio.switch_groups(sw)
    case_of = {}
    for labels, stmts, line in groups:
        for lb in labels:
            case_of[lb] = (stmts, line)
    enum = None
    for e in P.enums.values():
        if e["q"].endswith("Keywords::KEYWORDS") or e["q"] == "Keywords::KEYWORDS":
            enum = e
    if enum is None:
        R.anchor_missing("C10.keyword", "enum Keywords::KEYWORDS not found")
        return
    val = {en[0].split("::")[-1]: en[1] for en in enum["enumerators"]}
    name_of_val = {}
    for nm, v in names.items():
        name_of_val.setdefault(v, []).append(nm)
    for cls in sorted(writer):
        hdr, segs = writer[cls]
        kw = hdr.get("keyword")
        if cls not in K.class_stem:
            continue
        stem = K.class_stem[cls]
        dfn = P.fns_named(cls + "::dump_raw")[0]
        inst = "%s:%s" % (cls, kw)
        if not kw:
            R.violation("C10.keyword", inst, "dump_raw of entity class %s writes no <KEYWORD>_RAW header line" % cls, file=dfn["file"], line=dfn["line"], function=dfn["q"])
            continue
        v = names.get(kw.upper())
        if v is None:
            R.violation("C10.keyword", inst, "dump_raw writes keyword %s which is not in the keyword name table: the dumped block cannot be read" % kw,
                        file=dfn["file"], line=dfn["line"], function=dfn["q"])
            continue
        for which, key in (("RAW", v), ("MODIFY", names.get(kw.upper().replace("_RAW", "_MODIFY")))):
            inst2 = "%s:%s" % (cls, kw if which == "RAW" else kw.replace("_RAW", "_MODIFY"))
            if key is None:
                if which == "MODIFY" and stem == "mix":
                    R.ok("C10.keyword", inst2, "no MIX_MODIFY keyword by design (frozen exception: mix entries are replaced, not modified)")
                else:
                    R.violation("C10.keyword", inst2, "no %s keyword for kind %s" % (which, stem), file=ri["file"], line=ri["line"], function=ri["q"])
                continue
            cs = case_of.get(key)
            if cs is None:
                R.violation("C10.keyword", inst2, "read_input has no case for keyword value %d (%s)" % (key, inst2), file=ri["file"], line=sw[1], function=ri["q"])
                continue
            stmts, line = cs
            bt, fields = set(), set()
            called = []
            for s in stmts:
                for k_ in K.by_type(s):
                    bt.add(k_)
                for c in T.calls(s):
                    called.append(T.callee_name(c))
                for x in T.walk(s):
                    if x[0] == "Member" and x[2].startswith("Phreeqc::Rxn_"):
                        fields.add(x[2].split("::")[-1])
            want_fn = "Rxn_read_raw" if which == "RAW" else "Rxn_read_modify"
            okfn = any(c == want_fn for c in called) or (stem == "mix" and any("read" in c for c in called))
            store = "Rxn_%s_map" % stem
            newset = "Rxn_new_%s" % stem
            problems = []
            if bt != {stem}:
                problems.append("touches kind(s) %s, expected only %s" % (sorted(bt), stem))
            if store not in fields:
                problems.append("does not use %s" % store)
            others = [f for f in fields if f.startswith("Rxn_new_") and f != newset]
            if others:
                problems.append("marks %s instead of %s" % (others, newset))
            if not okfn:
                problems.append("does not call %s" % want_fn)
            if problems:
                R.violation("C10.keyword", inst2, "read_input case for %s: %s" % (inst2.split(":")[1], "; ".join(problems)),
                            file=ri["file"], line=line, function=ri["q"])
            else:
                R.ok("C10.keyword", inst2, "case at line %d -> %s<%s> on %s" % (line, want_fn, cls, store))


def keyword_names(P):
    """upper-case keyword name -> enumerator value, from Keywords.cpp's name table (std::map initialiser pairs)"""
    out = {}
    for g in P.globals:
        if g["name"] == "temp_keywords" and T.is_node(g.get("init")):
            for x in T.walk(g["init"]):
                if x[0] in ("Construct", "InitList", "Call"):
                    lits = []
                    vals = []
                    kids = x[3] if x[0] == "Construct" else (x[2] if x[0] == "InitList" else x[4])
                    for a in kids:
                        a2 = T.strip_casts(a)
                        if T.is_node(a2) and a2[0] == "Lit" and a2[2] == "str":
                            lits.append(a2[3])
                        elif T.is_node(a2) and a2[0] == "Ref" and a2[2] == "enum":
                            vals.append(a2[5])
                        elif T.is_node(a2) and a2[0] == "Construct":
                            for b in a2[3]:
                                b2 = T.strip_casts(b)
                                if T.is_node(b2) and b2[0] == "Lit" and b2[2] == "str":
                                    lits.append(b2[3])
                    if len(lits) == 1 and len(vals) == 1:
                        out[lits[0].upper()] = vals[0]
    return out


# ------------------------------------------------------------------------------------------ dump driver

def block_kinds(K, stmts, names_classes=None):
    out = []
    for s in stmts:
        if not T.is_node(s):
            continue
        bt = set(K.by_type(s))
        bn = set(K.by_name(s, classes=names_classes)) if names_classes is not None else set()
        out.append((s, bt | bn))
    return out


def dumpkind_rules(P, R, K):
    R.rule("C10.dumpkinds", "dump_ostream: one block per kind, one kind per block, all kinds covered; GetAllItems returns each kind's list once", minimum=25)
    f = P.one("Phreeqc::dump_ostream")
    covered = {}
    for s, ks in block_kinds(K, f["body"][2], names_classes={"dumper", "StorageBinList"}):
        if not ks:
            continue
        inst = "dump_ostream:block@%s" % "+".join(sorted(ks))
        if len(ks) > 1:
            R.violation("C10.dumpkinds", inst, "one block of dump_ostream mixes kinds %s (e.g. tests one kind's request and dumps another kind's store)" % sorted(ks),
                        file=f["file"], line=s[1], function=f["q"])
        else:
            k = next(iter(ks))
            # the block must both consult the request of this kind and dump through this kind's store / class
            by_t = set(K.by_type(s))
            by_n = set(K.by_name(s, classes={"dumper", "StorageBinList"}))
            dumps = any(T.callee_name(c) in ("dump_raw", "Rxn_dump_raw") for c in T.calls(s))
            if by_t == {k} and by_n == {k} and dumps:
                R.ok("C10.dumpkinds", inst, "request and store agree, dumps through dump_raw")
            else:
                R.violation("C10.dumpkinds", inst, "block for kind %s: request kinds %s, store/type kinds %s, dumps=%s" % (k, sorted(by_n), sorted(by_t), dumps),
                            file=f["file"], line=s[1], function=f["q"])
            covered[k] = covered.get(k, 0) + 1
    for k in K.stems:
        if k not in covered:
            R.violation("C10.dumpkinds", "dump_ostream:missing:%s" % k, "dump_ostream has no block for kind %s: DUMP silently omits it" % k,
                        file=f["file"], line=f["line"], function=f["q"])
    # GetAllItems
    g = P.one("StorageBinList::GetAllItems")
    items = []
    for c in T.calls(g["body"]):
        if T.callee_name(c) == "insert" and c[4]:
            e = rawio.this_elems(c[4][0])
            for q, i in e:
                items.append(q.split("::")[-1])
    for k in K.stems:
        n = items.count(k)
        inst = "GetAllItems:%s" % k
        if n == 1:
            R.ok("C10.dumpkinds", inst, "inserted once")
        else:
            R.violation("C10.dumpkinds", inst, "StorageBinList::GetAllItems inserts the %s list %d times (expected once): -all / SetAll / cell selections skip or repeat this kind"
                        % (k, n), file=g["file"], line=g["line"], function=g["q"])
    extra = [i for i in items if i not in K.stems]
    if extra:
        R.violation("C10.dumpkinds", "GetAllItems:extra", "GetAllItems inserts %s which is not a kind list" % extra, file=g["file"], line=g["line"], function=g["q"])
    # option words of StorageBinList::Read reach every kind
    rd = P.one("StorageBinList::Read")
    rm = rawio.reader_model(P, rd)
    vt = rawio.vopts_tables(P)
    words = (vt.get("StorageBinList") or {}).get("words") or []
    if rm is None or not words:
        R.anchor_missing("C10.dumpkinds", "StorageBinList::Read option switch or vopts not found")
        return
    reach = {}
    for lb, case in rm["cases"].items():
        if not isinstance(lb, int) or lb < 0 or lb >= len(words):
            continue
        kinds_w = set()
        for st in case["stmts"]:
            kinds_w |= set(K.by_name(st, classes={"StorageBinList"}))
            for x in T.walk(st):
                if x[0] == "Member" and x[2].startswith("StorageBinList::"):
                    kinds_w |= K.of_name(x[2].split("::")[-1])
        wk = K.of_name(words[lb])
        inst = "StorageBinList::Read:-%s" % words[lb]
        if wk:
            if wk <= kinds_w and len(kinds_w) == 1:
                R.ok("C10.dumpkinds", inst, "selects %s" % sorted(kinds_w))
            else:
                R.violation("C10.dumpkinds", inst, "option word -%s names kind %s but its case selects %s" % (words[lb], sorted(wk), sorted(kinds_w)),
                            file=rd["file"], line=case["line"], function=rd["q"])
            for k in kinds_w:
                reach[k] = True
    for k in K.stems:
        if k not in reach:
            R.violation("C10.dumpkinds", "StorageBinList::Read:missing:%s" % k, "no DUMP/DELETE option word selects kind %s" % k,
                        file=rd["file"], line=rd["line"], function=rd["q"])


# ------------------------------------------------------------------------------------------ bulk copies (thorough)

def bulk_rules(P, R, K):
    R.rule("C10.bulk", "storage-bin bulk copies (phreeqc2cxxStorageBin, cxxStorageBin2phreeqc, cxxStorageBin::dump_raw/Get/Set/Remove) treat each kind in its own block and cover all stored kinds", minimum=4)
    drivers = [("Phreeqc::phreeqc2cxxStorageBin", 1, None), ("Phreeqc::cxxStorageBin2phreeqc", 1, None)]
    for q, npar, _ in drivers:
        fs = [f for f in P.fns_named(q)]
        for f in fs:
            stmts = f["body"][2] if f["body"][0] == "Compound" else []
            # descend one level into a leading Compound
            flat = []
            for s in stmts:
                if T.is_node(s) and s[0] == "Compound":
                    flat.append(s)
                else:
                    flat.append(s)
            seen = set()
            bad = False
            for s, ks in block_kinds(K, flat):
                if len(ks) > 1:
                    # a block with nested per-kind sub-blocks: look one level down
                    subs = [c for c in T.children(s)]
                    sub_ok = True
                    for c in subs:
                        if T.is_node(c) and c[0] in ("Compound",):
                            for ss, kk in block_kinds(K, c[2]):
                                if len(kk) > 1:
                                    sub_ok = False
                                seen |= kk
                        else:
                            kk = set(K.by_type(c))
                            if len(kk) > 1:
                                sub_ok = False
                            seen |= kk
                    if not sub_ok:
                        bad = True
                        R.violation("C10.bulk", "%s/%d:block@%d" % (q, len(f["params"]), s[1]), "block mixes kinds %s" % sorted(ks), file=f["file"], line=s[1], function=f["q"])
                else:
                    seen |= ks
            inst = "%s/%d" % (q, len(f["params"]))
            if not bad:
                R.ok("C10.bulk", inst, "kinds handled: %s" % ",".join(sorted(seen)))


def crossreset_rule(P, R):
    """dump_raw writes every option of an entity, one per line, in a fixed order; read_raw handles them one by one.  The handler
    of option X may therefore not unconditionally overwrite a member that has its own option Y: whichever of the two lines
    comes later in the dump would wipe what the earlier one restored (e.g. `-precipitate_only 0` clearing a restored
    dissolve_only).  A cross-write must depend on the value just parsed, or - when it sets a flag - dump_raw must emit option
    X only under that flag."""
    R.rule("C10.crossreset", "a read_raw option handler does not unconditionally overwrite a member that has its own option", minimum=150)
    n = 0
    for key, f in sorted(P.functions.items()):
        if f["name"] != "read_raw":
            continue
        rm = rawio.reader_model(P, f)
        if not rm:
            continue
        cases = rm["cases"]
        prim = {}
        for lb, c in cases.items():
            for e in c["stores"]:
                prim.setdefault(e, set()).add(lb)
        dump = P.fns_named(f.get("cls", "") + "::dump_raw")
        guarded = set()
        for d in dump:
            for x in T.walk(d["body"]):
                if x[0] == "If":
                    for y in T.walk(x[2]):
                        if y[0] == "Member":
                            guarded.add(y[2].split("::")[-1])
        seen = set()
        for lb, c in cases.items():
            if id(c["stmts"]) in seen:
                continue
            seen.add(id(c["stmts"]))
            n += 1
            mine = set(c["stores"])
            bad = []
            for st in c["stmts"]:
                if T.is_node(st) and st[0] == "Bin" and st[2] == "=":
                    t = T.strip_casts(st[3])
                    if t[0] == "Member" and T.is_node(t[3]) and T.strip_casts(t[3])[0] == "This" and T.strip_casts(st[4])[0] == "Lit":
                        e = rawio.target_elem(t)
                        if e not in mine and e in prim and e[0].split("::")[-1] not in guarded:
                            bad.append((st[1], e[0].split("::")[-1]))
            inst = "%s:case %s" % (f.get("cls", "?"), "/".join(str(l) for l in c["labels"]))
            if bad:
                R.violation("C10.crossreset", inst, "the handler unconditionally overwrites `%s` (line %d), which has its own option and is written by dump_raw on a line of its own: reading a "
                            "dump back, the later of the two lines wipes what the earlier one restored" % (bad[0][1], bad[0][0]), file=f["file"], line=bad[0][0], function=f["q"])
            else:
                R.ok("C10.crossreset", inst, "no unconditional cross-write")
    if n < 150:
        R.anchor_missing("C10.crossreset", "only %d read_raw option handlers examined" % n)


def onceflag_rule(P, R):
    """A list option of a RAW block may continue over several lines (dump_raw wraps long lists).  Readers that must replace the
    list of a *_MODIFY clear it once, on the first line of the option, guarded by a one-shot flag (`if (!cleared_once) { clear;
    cleared_once = true; }`).  The flag has to live across the iterations of the option loop: declared inside the loop it is
    false again on every line, each continuation line clears the list, and only the last dumped line survives."""
    R.rule("C10.onceflag", "one-shot flags of the RAW readers are declared outside the option loop they guard", minimum=5)
    LOOPS = ("For", "While", "Do", "RangeFor")
    n = 0
    for key, f in sorted(P.functions.items()):
        if f["name"] not in ("read_raw", "Read", "read"):
            continue
        decls = {}
        uses = {}

        def rec(nd, loops):
            if not T.is_node(nd):
                return
            if nd[0] in LOOPS:
                for c in T.children(nd):
                    rec(c, loops + [nd[1]])
                return
            if nd[0] == "Decl":
                for d in nd[2]:
                    if d[1] in ("bool", "_Bool") and T.is_node(d[2]) and T.lit_value(d[2]) == 0:
                        decls[d[0]] = (nd[1], tuple(loops))
            if nd[0] == "Bin" and nd[2] == "=" and T.strip_casts(nd[3])[0] == "Ref" and T.lit_value(nd[4]) == 1:
                uses.setdefault(T.strip_casts(nd[3])[3], []).append(("set", nd[1], tuple(loops)))
            if nd[0] == "If":
                for y in T.walk(nd[2]):
                    if y[0] == "Ref" and y[2] == "local":
                        uses.setdefault(y[3], []).append(("test", nd[1], tuple(loops)))
            for c in T.children(nd):
                rec(c, loops)
        rec(f["body"], [])
        for nm, (line, dloops) in sorted(decls.items()):
            us = uses.get(nm, [])
            sets = [u for u in us if u[0] == "set" and u[2]]
            tests = [u for u in us if u[0] == "test" and u[2]]
            if not sets or not tests:
                continue
            n += 1
            inst = "%s:%s" % (f["q"], nm)
            inner = min(len(u[2]) for u in sets + tests)
            if len(dloops) == 0 or len(dloops) < inner:
                R.ok("C10.onceflag", inst, "declared outside the loop it guards")
            else:
                R.violation("C10.onceflag", inst, "the one-shot flag `%s` is declared (line %d) inside the loop in which it is tested and set: it is false again on every line, so a list option "
                            "that continues over several lines is cleared on each of them and only the last line of a dumped list survives" % (nm, line),
                            file=f["file"], line=line, function=f["q"])
    if n < 5:
        R.anchor_missing("C10.onceflag", "only %d one-shot flags found in the RAW readers" % n)


def dumprange_rule(P, R):
    """`DUMP -all` (and a kind named without numbers, and the TRANSPORT -dump file) writes every stored entity through the template
    Utilities::Rxn_dump_raw, which filters on the user number: negative numbers are the engine's scratch copies, every number >= 0
    is the user's - 0 is the inflow solution of a column.  The guard of the dump_raw call is evaluated for n = 0, 1, 1000 (must pass)
    and n = -1, -2 (scratch, must not pass); all instantiations must agree."""
    RULE = "C10.dumprange"
    R.rule(RULE, "Rxn_dump_raw writes the entities numbered 0 and up and none of the negative scratch numbers (every instantiation)", minimum=8)
    fs = [g for g in P.functions.values() if g["q"].startswith("Utilities::Rxn_dump_raw<")]
    if len(fs) < 8:
        R.anchor_missing(RULE, "only %d instantiations of Utilities::Rxn_dump_raw" % len(fs))
        return

    def val(e, n):
        e = T.strip_casts(e)
        if not T.is_node(e):
            return None
        if e[0] == "Paren":
            return val(e[2], n)
        if e[0] == "Member" and e[2].endswith("::first"):
            return n
        if e[0] == "Call" and T.callee_name(e) == "Get_n_user":
            return n
        if e[0] == "Un" and e[2] == "-":
            v = val(e[3], n)
            return None if v is None else -v
        if e[0] == "Un" and e[2] == "!":
            v = val(e[3], n)
            return None if v is None else (not v)
        if e[0] == "Bin" and e[2] in ("&&", "||"):
            a, b = val(e[3], n), val(e[4], n)
            if a is None or b is None:
                return None
            return (a and b) if e[2] == "&&" else (a or b)
        if e[0] == "Bin" and e[2] in (">", ">=", "<", "<=", "==", "!="):
            a, b = val(e[3], n), val(e[4], n)
            if a is None or b is None:
                return None
            return {">": a > b, ">=": a >= b, "<": a < b, "<=": a <= b, "==": a == b, "!=": a != b}[e[2]]
        return T.lit_value(e)
    for g in sorted(fs, key=lambda f: f["q"]):
        inst = g["q"][len("Utilities::Rxn_dump_raw<"):-1].replace("std::map<int, ", "").rstrip(">")
        guards = []

        def rec(node, conds):
            if not T.is_node(node):
                return
            if node[0] == "Call" and T.callee_name(node) == "dump_raw":
                guards.append(list(conds))
            if node[0] == "If":
                rec(node[2], conds)
                rec(node[3], conds + [node[2]])
                rec(node[4], conds)
                return
            for ch in T.children(node):
                rec(ch, conds)
        rec(g["body"], [])
        if not guards:
            R.anchor_missing(RULE, "%s: no dump_raw call" % g["q"])
            continue
        bad = None
        for conds in guards:
            for n, want in ((0, True), (1, True), (1000, True), (-1, False), (-2, False)):
                got = True
                for c in conds:
                    v = val(c, n)
                    if v is None:
                        got = None
                        break
                    got = got and bool(v)
                if got is None:
                    bad = ("cannot evaluate the guard for n = %d" % n, None)
                elif got != want:
                    bad = ("an entity numbered %d is %s" % (n, "written (scratch copy of the engine)" if got else "left out of the dump"), n)
        if bad and bad[1] is None:
            R.anchor_missing(RULE, "%s: %s" % (g["q"], bad[0]))
        elif bad:
            R.violation(RULE, inst, "Rxn_dump_raw: %s: DUMP -all / TRANSPORT -dump then %s" % (bad[0], "lose it - reading the dump back does not reproduce the state (solution 0 is the inflow of a column)" if bad[1] >= 0 else "expose internal copies"),
                        file=g["file"], line=g["line"], function=g["q"])
        else:
            R.ok(RULE, inst, "numbers 0, 1, 1000 written; -1, -2 skipped")


def binkinds_rule(P, R):
    """The storage bin is a copy of the reaction state by kind: one std::map<int, cxxX> member per kind.  Each of its writers
    (dump_raw, dump_raw(n), dump_raw_range - the TRANSPORT -dump restart file is written by the first) and each of its readers
    (read_raw, read_raw_keyword) must handle every kind the bin stores: a kind a writer forgets is missing from the restart
    file, a kind a reader forgets is lost when the text is read into a bin."""
    RULE = "C10.binkinds"
    R.rule(RULE, "every entity kind stored in cxxStorageBin is written by each of its dump functions and read by each of its RAW readers", minimum=50)
    rec = P.records.get("cxxStorageBin")
    if not rec:
        R.anchor_missing(RULE, "class cxxStorageBin not found")
        return
    kinds = [(f["name"], f["type"].split(",")[-1].strip(" >")) for f in rec["fields"] if f["type"].startswith("std::map<int, cxx")]
    if len(kinds) < 11:
        R.anchor_missing(RULE, "cxxStorageBin: only %d entity maps" % len(kinds))
        return
    fns = [g for g in P.functions.values() if g["q"] in ("cxxStorageBin::dump_raw", "cxxStorageBin::dump_raw_range", "cxxStorageBin::read_raw", "cxxStorageBin::read_raw_keyword")]
    if len(fns) != 5:
        R.anchor_missing(RULE, "cxxStorageBin: %d dump/read functions (5 expected)" % len(fns))
        return
    for g in sorted(fns, key=lambda f: (f["q"], f["line"])):
        refs = set()
        for x in T.walk(g["body"]):
            if x[0] == "Member" and x[2].startswith("cxxStorageBin::"):
                refs.add(x[2].split("::")[-1])
            if x[0] == "Call":
                q = T.callee_q(x) or ""
                if q.startswith("cxxStorageBin::Get_"):
                    # Get_Solution(n) ... accessors of one kind: map them to the member through the returned class
                    ret = str(x[2].get("ret", "")) if isinstance(x[2], dict) else ""
                    for nm, cls in kinds:
                        if cls in ret:
                            refs.add(nm)
        tag = "%s@%d" % (g["q"].split("::")[-1], g["line"])
        for nm, cls in kinds:
            inst = "%s:%s" % (tag, nm)
            if nm in refs:
                R.ok(RULE, inst, "handled")
            else:
                R.violation(RULE, inst, "%s (line %d) does not handle the bin member %s (%s): %s" % (g["q"], g["line"], nm, cls,
                            "the kind is missing from the text it writes (TRANSPORT -dump restart file, per-cell dumps)" if "dump" in g["q"] else "the kind is dropped when RAW text is read into a bin"),
                            file=g["file"], line=g["line"], function=g["q"])


def precision_rule(P, R):
    """"Any follow-up calculation gives the same results (relative 1e-7) on the restored state": RAW text carries doubles with the
    precision of the stream, which is sticky and 6 digits by default.  Every dump_raw therefore sets s_oss.precision(DBL_DIG - 1) itself -
    a selective DUMP (-mix n) may make any kind the first one written to a fresh stream - or is a nested writer that is only called from
    dump_raw functions that have set it."""
    from ..callgraph import CallGraph
    RULE = "C10.precision"
    R.rule(RULE, "every dump_raw sets the stream precision to at least 14 digits before it writes (nested writers: every caller has)", minimum=20)
    cg = CallGraph(P)
    fns = {k: g for k, g in P.functions.items() if g["q"].endswith("::dump_raw") and g["q"].startswith("cxx") and g.get("body")}
    if len(fns) < 20:
        R.anchor_missing(RULE, "only %d dump_raw functions" % len(fns))
        return

    def sets(g):
        for c in T.calls(g["body"]):
            if T.callee_name(c) == "precision" and c[4]:
                a = T.strip_casts(c[4][0])
                v = T.lit_value(a)
                if v is None and T.is_node(a) and a[0] == "Bin" and a[2] == "-":
                    l, r = T.lit_value(T.strip_casts(a[3])), T.lit_value(T.strip_casts(a[4]))
                    v = l - r if l is not None and r is not None else None
                if v is not None and v >= 14:
                    return c[1]
        return None
    has = {k: sets(g) for k, g in fns.items()}
    for k, g in sorted(fns.items(), key=lambda kv: (kv[1]["q"], kv[1]["line"])):
        inst = "%s@%d" % (g["q"].split("::")[0], g["line"])
        if has[k]:
            R.ok(RULE, inst, "precision set at line %d" % has[k])
            continue
        callers = cg.callers.get(k, set())
        if callers and all(c in fns and has[c] for c in callers):
            R.ok(RULE, inst, "nested writer: called only from %s, which set the precision" % ", ".join(sorted(P.functions[c]["q"] for c in callers)))
        else:
            R.violation(RULE, inst, "%s writes doubles without setting the stream precision and is not only called from writers that set it: when this kind is the first one written to a "
                        "fresh dump stream (selective DUMP) its numbers carry 6 digits and the restored state differs by 1e-6" % g["q"], file=g["file"], line=g["line"], function=g["q"])


OPTELEMENT_EXEMPT = {
    ("cxxPPassemblageComp", "si"): "`totals` of a pure-phase component is work space of totalize(), which list_components and the saver run on copies: it is empty in every stored entity that was dumped in the replays (EQUILIBRIUM_PHASES with Quartz: `-totals` followed by no line); not reproduced",
    ("cxxSS", "p"): "`totals` of a solid solution is work space of totalize() as for pure phases; empty in stored entities; not reproduced",
}
_ELEMENT_SYMBOLS = ("H He Li Be B C N O F Ne Na Mg Al Si P S Cl Ar K Ca Sc Ti V Cr Mn Fe Co Ni Cu Zn Ga Ge As Se Br Kr Rb Sr Y Zr Nb Mo Tc Ru Rh Pd Ag Cd In Sn Sb Te I Xe Cs Ba "
                    "La Ce Pr Nd Pm Sm Eu Gd Tb Dy Ho Er Tm Yb Lu Hf Ta W Re Os Ir Pt Au Hg Tl Pb Bi Po At Rn Fr Ra Ac Th Pa U Np Pu Am Cm").split()


def optelement_rule(P, R):
    """RAW text writes an element list (cxxNameDouble) as lines `<Element> <moles>` without a dash after the option that opens the list, and
    every reader first looks a line up in its own option table - exact, but case-insensitive.  An option word that is also an element
    symbol (la / La, si / Si, p / P) therefore swallows that element's line unless the reader tells them apart (an option found on a line
    is rewritten in lower case, an element starts with a capital: the guard calls isupper).  For every reader that reads an element list:
    option words that are element symbols need the guard or a row in the exemption table."""
    RULE = "C10.optelement"
    R.rule(RULE, "no RAW reader takes the line of an element in a -totals list for one of its own options (la / La, si / Si, p / P)", minimum=4)
    low = {e.lower(): e for e in _ELEMENT_SYMBOLS}
    tabs = rawio.vopts_tables(P)
    n = 0
    for cls, t in sorted(tabs.items()):
        col = [o for o in t["words"] if o and o.lower() in low]
        if not col:
            continue
        fs = [f for f in P.fns_named(cls + "::read_raw") if f.get("body")]
        if not fs:
            continue
        g = fs[0]
        lists = [c for c in T.calls(g["body"]) if (T.callee_q(c) or "") == "cxxNameDouble::read_raw"]
        for o in col:
            n += 1
            inst = "%s:%s" % (cls, o)
            if not lists:
                R.ok(RULE, inst, "reader has no element list")
            elif any(T.callee_name(c) == "isupper" for c in T.calls(g["body"])):
                R.ok(RULE, inst, "reader tells the element %s from the option -%s by its capital letter" % (low[o.lower()], o))
            elif (cls, o) in OPTELEMENT_EXEMPT:
                R.ok(RULE, inst, "exempt: " + OPTELEMENT_EXEMPT[(cls, o)])
            else:
                R.violation(RULE, inst, "%s::read_raw reads an element list and has the option `%s`: the line `%s <moles>` of the list is taken for the option, the element's total is lost "
                            "when RAW text is read back" % (cls, o, low[o.lower()]), file=g["file"], line=g["line"], function=g["q"])
    if n < 4:
        R.anchor_missing(RULE, "only %d option words coincide with element symbols" % n)


def litindex_rule(P, R):
    """A writer (dump_raw / Serialize / dump_xml) that subscripts a std::vector member with a literal (p[3]) relies on the vector having that
    many elements.  The readers of the keyword input may leave it shorter (read_solid_solutions: two-parameter forms push two values into
    cxxSS::p), so the subscript must sit under a test of the vector's size in the same expression or statement; otherwise the writer reads
    past the end: garbage in the RAW text and an invalid memory access."""
    RULE = "C10.litindex"
    R.rule(RULE, "writers subscript vector members with literals only under a size test", minimum=4)
    n = 0
    for k, g in sorted(P.functions.items(), key=lambda kv: kv[1]["q"]):
        if not (g["q"].endswith("::dump_raw") or g["q"].endswith("::Serialize") or g["q"].endswith("::dump_xml")):
            continue

        def rec(node, guards):
            nonlocal n
            if not T.is_node(node):
                return
            if node[0] == "Cond":
                rec(node[2], guards)
                rec(node[3], guards + [node[2]])
                rec(node[4], guards + [node[2]])
                return
            if node[0] == "If":
                rec(node[2], guards)
                rec(node[3], guards + [node[2]])
                rec(node[4], guards + [node[2]])
                return
            if node[0] == "Call" and T.callee_name(node) == "operator[]" and len(node[4]) == 2:
                o, i = T.strip_casts(node[4][0]), T.strip_casts(node[4][1])
                if T.is_node(o) and o[0] == "Member" and "vector" in str(o[4]) and T.is_node(i) and i[0] == "Lit":
                    n += 1
                    inst = "%s:%s[%s]@%d" % (g["q"].split("::")[0], o[2].split("::")[-1], i[3], node[1])
                    sized = any(any(y[0] == "Call" and T.callee_name(y) == "size" and T.call_obj(y) is not None and any(
                        z[0] == "Member" and z[2] == o[2] for z in T.walk(T.call_obj(y))) for y in T.walk(gd)) for gd in guards)
                    if sized:
                        R.ok(RULE, inst, "under a test of %s.size()" % o[2].split("::")[-1])
                    else:
                        R.violation(RULE, inst, "%s reads %s[%s] without a test of the vector's size: an input form that leaves fewer elements makes the writer read past the end" % (
                            g["q"], o[2], i[3]), file=g["file"], line=node[1], function=g["q"])
            for ch in T.children(node):
                rec(ch, guards)
        rec(g["body"], [])
    if n < 4:
        R.anchor_missing(RULE, "only %d literal subscripts of vector members in writers" % n)


CASEKEY_COPIES = {
    # functions that store under the name of an entry that is already stored somewhere (no text from the input involved)
    "cxxPPassemblage::add": "the key is Get_name() of a component of the assemblage that is added (mixing of stored assemblages)",
    "cxxPPassemblage::Deserialize": "the key comes from the dictionary of a serialised assemblage (a stored state)",
}


def casekey_rule(P, R):
    """A pure-phase assemblage finds its components without regard to case (cxxPPassemblage::Find: strcmp_nocase over the keys of the
    component map), and so does everything that saves results into it.  A store into that map under a name taken from the input must
    therefore not create a second key that differs only in capitalisation: the reader removes such a key first (read.cpp: store_pp_comp),
    the RAW / MODIFY reader stores a component it found under the name it already has.  Otherwise one phase has two components:
    results are saved into one and the other keeps its initial amount (a mole of calcite lost on SAVE), DUMP prints the component twice
    and the text no longer restores the state."""
    RULE = "C10.casekey"
    R.rule(RULE, "every store into the component map of a pure-phase assemblage keeps its keys unique without regard to case", minimum=4)
    find = P.one("cxxPPassemblage::Find")
    if not any(T.callee_name(c) == "strcmp_nocase" for c in T.calls(find["body"])):
        R.anchor_missing(RULE, "cxxPPassemblage::Find is no longer case-insensitive: the rule's premise is gone")
        return
    n = 0
    for k, g in sorted(P.functions.items(), key=lambda kv: (kv[1]["file"], kv[1]["line"])):
        if not g.get("body"):
            continue
        for c in T.calls(g["body"]):
            if T.callee_name(c) != "operator[]" or not c[4] or "cxxPPassemblageComp" not in str(c[2].get("ret", "")):
                continue
            n += 1
            inst = "%s@%d" % (g["q"].split("::")[-1], c[1] - g["line"])
            if g["q"] in CASEKEY_COPIES:
                R.ok(RULE, inst, CASEKEY_COPIES[g["q"]])
                continue
            mp = "".join(T.text(c[4][0], -40).split())
            key = T.strip_casts(c[4][1]) if len(c[4]) > 1 else None
            # (a) the function erases keys that compare equal without regard to case before it stores
            dedupe = any(T.callee_name(x) == "strcmp_nocase" for x in T.calls(g["body"])) and \
                any(T.callee_name(x) == "erase" and T.call_obj(x) is not None and "".join(T.text(T.call_obj(x), -40).split()) == mp for x in T.calls(g["body"]))
            # (b) the key variable is re-assigned from the name of the component that Find returned, on the path where one was found
            renamed = False
            if T.is_node(key) and key[0] == "Ref":
                finds = [w for w in T.walk(g["body"]) if w[0] == "Decl" and any(d[2] is not None and any(T.callee_name(y) == "Find" for y in T.calls(d[2])) for d in w[2])]
                fvars = {d[0] for w in finds for d in w[2]}
                for w in T.walk(g["body"]):
                    if w[0] == "If" and any(y[0] == "Ref" and y[3] in fvars for y in T.walk(w[2])):
                        for t, how, line, a in T.writes(w[3]):
                            t2 = T.strip_casts(t)
                            if T.is_node(t2) and t2[0] == "Ref" and t2[3] == key[3] and line < c[1] and any(
                                    T.callee_name(y) == "Get_name" and any(z[0] == "Ref" and z[3] in fvars for z in T.walk(y)) for y in T.calls(a)):
                                renamed = True
            if dedupe:
                R.ok(RULE, inst, "keys equal without regard to case are erased first")
            elif renamed:
                R.ok(RULE, inst, "a component that Find returned is stored under the name it has")
            else:
                R.violation(RULE, inst, "%s stores a component under `%s` without making the key unique without regard to case, while Find and the save functions match "
                            "case-insensitively: `Calcite` and `calcite` become two components of one phase" % (g["q"], T.text(c[4][1])[:40] if len(c[4]) > 1 else "?"),
                            file=g["file"], line=c[1], function=g["q"])
    if n < 4:
        R.anchor_missing(RULE, "only %d stores into a pure-phase component map found" % n)
