"""C11 – transport only moves dissolved mass: conservation, exact shifts, bounded mixing.

One clause only is decided; everything else in C11 quantifies over run-time mixing factors and inventories and is NOT decided.
  C11.shift   "with pure advection the solution in cell i after a shift equals the previous solution of its upstream
              neighbour": the advective shift is an in-place copy chain  Rxn_copy(Rxn_solution_map, i - d, i)  over the cells.
              It is exact only if the loop walks AGAINST the copy direction (update i -= d), so that every source cell is
              read before it is overwritten; walking with the copy direction would propagate the inflow solution through the
              whole column in one shift.  Checked for every in-place shift loop over the solution store (ADVECTION, TRANSPORT
              column shift), symbolically in the shift d (1, or +-ishift); the loop must also start at the downstream end
              (count_ad_cells / last_c) and not exclude the first cell.
  C11.mixwater  "element amounts are moved, never created": every mixing recipe the transport code GENERATES itself (the
              mobile/stagnant exchange recipes of -stagnant 1 exch_f th_m th_im, the dispersion recipes of init_mix) must hand
              each cell back its own water mass: the factors, weighted by the water of the cell they draw from, sum to the
              water of the target cell - as an exact rational identity in the code's own symbols (mix_f_m, water_m, m[i], ...).
              Cells whose water is not measured by the code weigh 1 (equal cells): the identity is then "the factors sum to
              1", which is also the convexity (bounded mixing) condition on generated recipes.
  C11.transfer  multicomponent diffusion moves an amount out of one cell's element totals and into its neighbour's (multi_D: the
              giving side subtracts tot1, the receiving side adds tot2).  The two sides select the entry of the totals map by
              the same whole-name match (prefix compare plus equal lengths); if one side matches differently, what leaves "N"
              in one cell can arrive in "Na" in the other
  C11.wholename  every comparison of an element name with a totals key by strncmp over the stem before the parenthesis (giving side,
              receiving side, deficit borrowed from the other redox states, moles_from_redox_states) is conjoined with equality of the
              two stem lengths; a bare prefix compare books `Ca` on `C(4)` and `Na` on `N(5)`; where the name compared is itself a totals key its
              stem is taken with strcspn as well (`C(-4)` must still find `C(4)`)
  C11.kinmix    run_reactions applies the mixing recipe its caller passes (use_mix) in every branch - no kinetics, Runge-Kutta, CVODE
  C11.park      the mixruns of transport() park each cell's mixed result in scratch solution -2 and write it to its cell one iteration later; the
              write-back after the loop targets (upper bound of the loop) - 1, as a polynomial identity
  C11.maxmix    "bounded mixing": init_mix splits a time step into l_nmix mixing runs so that no cell's mixing fractions exceed the
              allowed maximum; l_nmix comes from maxmix, the maximum over the cells of m[i] + m1[i] taken AFTER the boundary cells'
              factors have been replaced.  Every update of that maximum reads the two factors of the SAME cell, and in a
              boundary block it reads the cell whose factors that block has just assigned; otherwise the boundary cell can get
              a negative self-fraction (concentrations leave the initial/boundary range)
Not decided: conservation of the column inventory, mixing-factor arithmetic, convexity (bounded mixing), stagnant zones,
multicomponent diffusion, boundary conditions.
"""
from fractions import Fraction

from .. import tree as T

PROP = "C11"
EXPLANATION = __doc__


def affine(n, var):
    """expression as (coefficient of var, {symbol: coeff}, constant) or None"""
    n = T.strip_casts(n)
    if not T.is_node(n):
        return None
    v = T.lit_value(n)
    if v is not None:
        return (0, {}, v)
    if n[0] == "Ref" and n[2] in ("local", "param"):
        if n[3] == var:
            return (1, {}, 0)
        return (0, {n[3]: 1}, 0)
    if n[0] == "Member":
        return (0, {n[2].split("::")[-1]: 1}, 0)
    if n[0] == "Un" and n[2] == "-":
        a = affine(n[3], var)
        if a is None:
            return None
        return (-a[0], {k: -c for k, c in a[1].items()}, -a[2])
    if n[0] == "Bin" and n[2] in ("+", "-"):
        a, b = affine(n[3], var), affine(n[4], var)
        if a is None or b is None:
            return None
        sg = 1 if n[2] == "+" else -1
        sym = dict(a[1])
        for k, c in b[1].items():
            sym[k] = sym.get(k, 0) + sg * c
        return (a[0] + sg * b[0], {k: c for k, c in sym.items() if c}, a[2] + sg * b[2])
    return None


def diff(a, b):
    """a - b for affine triples"""
    sym = dict(a[1])
    for k, c in b[1].items():
        sym[k] = sym.get(k, 0) - c
    return (a[0] - b[0], {k: c for k, c in sym.items() if c}, a[2] - b[2])


def update_of(loop, var):
    """affine change of var per iteration from the For increment expression: i--, i++, i -= d, i += d"""
    inc = loop[4]
    if not T.is_node(inc):
        return None
    if inc[0] == "Un" and inc[2] in ("post--", "--", "post++", "++"):
        t = T.strip_casts(inc[3])
        if t[0] == "Ref" and t[3] == var:
            return (0, {}, -1 if "--" in inc[2] else 1)
    if inc[0] == "Bin" and inc[2] in ("-=", "+="):
        t = T.strip_casts(inc[3])
        if t[0] == "Ref" and t[3] == var:
            a = affine(inc[4], var)
            if a is None or a[0] != 0:
                return None
            if inc[2] == "-=":
                return (0, {k: -c for k, c in a[1].items()}, -a[2])
            return a
    return None


def mixwater_rule(P, R):
    from .. import ratfun as RF
    R.rule("C11.mixwater", "generated mixing recipes return each cell its own water mass (water-weighted factor sum = water of the target cell)", minimum=4)
    n = 0
    for key, f in sorted(P.functions.items()):
        if not f["q"].startswith("Phreeqc::"):
            continue
        # water symbols: local = Rxn_find(Rxn_solution_map, K)->Get_mass_water()
        water = {}
        for x in T.walk(f["body"]):
            if x[0] == "Bin" and x[2] == "=" and T.strip_casts(x[3])[0] == "Ref":
                r = T.strip_casts(x[4])
                if r[0] == "Call" and T.callee_name(r) == "Get_mass_water" and T.is_node(r[3]):
                    for c in T.calls(r[3]):
                        if T.callee_name(c) == "Rxn_find" and len(c[4]) == 2 and T.text(c[4][0]).endswith("Rxn_solution_map"):
                            water[T.text(c[4][1]).replace(" ", "")] = T.strip_casts(x[3])[3]
        for blk in T.walk(f["body"]):
            if blk[0] != "Compound":
                continue
            mixes = [d[0] for s_ in blk[2] if T.is_node(s_) and s_[0] == "Decl" for d in s_[2] if "cxxMix" in d[1] and "*" not in d[1] and "&" not in d[1]]
            for mv in mixes:
                target, terms, stored = None, [], False
                for s_ in blk[2]:
                    if not T.is_node(s_):
                        continue
                    for c in ([s_] if s_[0] == "Call" else []):
                        if T.is_node(c[3]) and T.text(c[3]) == mv:
                            if T.callee_name(c) == "Set_n_user" and len(c[4]) == 1:
                                target = T.text(c[4][0]).replace(" ", "")
                            if T.callee_name(c) == "Add" and len(c[4]) == 2:
                                terms.append((T.text(c[4][0]).replace(" ", ""), c[4][1], c[1]))
                    if s_[0] in ("Bin", "Call") and any(y[0] == "Ref" and y[2] == "local" and y[3] == mv for y in T.walk(s_)) and "_mix_map" in T.text(s_):
                        stored = True
                if target is None or not terms or not stored:
                    continue
                n += 1
                inst = "%s:mix[%s]@%d" % (f["q"].split("::")[-1], target, terms[0][2])
                where = dict(file=f["file"], line=terms[0][2], function=f["q"])

                def sym(nd):
                    nd0 = T.strip_casts(nd)
                    if nd0[0] == "Ref" and nd0[2] in ("local", "param"):
                        return nd0[3]
                    if nd0[0] == "Member":
                        return T.text(nd0).replace(" ", "")
                    if nd0[0] == "Index":
                        return T.text(nd0).replace(" ", "")
                    return None

                def conv(nd):
                    nd0 = T.strip_casts(nd)
                    if nd0[0] == "Index":
                        return RF.Rat.sym(T.text(nd0).replace(" ", ""))
                    return RF.from_tree(nd0, sym)
                try:
                    tot = RF.Rat.const(0)
                    for cell, e, line in terms:
                        w = RF.Rat.sym(water[cell]) if cell in water else RF.Rat.const(1)
                        tot = tot + conv_idx(e, sym, RF) * w
                except (RF.NotRational, ZeroDivisionError) as ex:
                    R.anchor_missing("C11.mixwater", "%s: factor not rational (%s)" % (inst, ex))
                    continue
                want = RF.Rat.sym(water[target]) if target in water else RF.Rat.const(1)
                if tot.same(want):
                    R.ok("C11.mixwater", inst, "sum of water-weighted factors = %s" % ("water of the target cell (%s)" % water[target] if target in water else "1"))
                else:
                    R.violation("C11.mixwater", inst, "the generated recipe for cell %s does not return the cell its own water: sum over sources of factor * water = %s, expected %s - "
                                "water and every element are created or lost at each mixing step" % (target, " + ".join("(%s)*w[%s]" % (T.text(e)[:40], c_) for c_, e, l_ in terms), want), **where)
    if n < 4:
        R.anchor_missing("C11.mixwater", "only %d generated mixing recipes found (expected the two stagnant and two dispersion recipes)" % n)


def conv_idx(nd, sym, RF):
    """ratfun conversion where array elements m[i] are atomic symbols"""
    nd = T.strip_casts(nd)
    if T.is_node(nd) and nd[0] == "Index":
        return RF.Rat.sym(T.text(nd).replace(" ", ""))
    if T.is_node(nd) and nd[0] == "Bin" and nd[2] in ("+", "-", "*", "/"):
        a, b = conv_idx(nd[3], sym, RF), conv_idx(nd[4], sym, RF)
        return a + b if nd[2] == "+" else a - b if nd[2] == "-" else a * b if nd[2] == "*" else a / b
    if T.is_node(nd) and nd[0] == "Un" and nd[2] == "-":
        return -conv_idx(nd[3], sym, RF)
    return RF.from_tree(nd, sym)


def transfer_rule(P, R):
    from .. import shape as SH
    R.rule("C11.transfer", "multi_D: the giving and the receiving cell select the element total by the same match condition", minimum=1)
    f = P.one("Phreeqc::multi_D")
    sites = {}
    for x in T.walk(f["body"]):
        if x[0] == "If":
            for w in T.walk(x[3]):
                if w[0] == "Bin" and w[2] in ("-=", "+=") and T.strip_casts(w[4])[0] == "Member" and T.strip_casts(w[4])[2].split("::")[-1] in ("tot1", "tot2") and "second" in T.text(w[3]):
                    nm = T.strip_casts(w[4])[2].split("::")[-1]
                    if any(T.callee_name(c) in ("strncmp", "strcmp") for c in T.calls(x[2])):
                        sites.setdefault(nm, []).append((x, w))
    if "tot1" not in sites or "tot2" not in sites:
        R.anchor_missing("C11.transfer", "multi_D: the tot1 / tot2 transfer sites were not found")
        return
    a, b = sites["tot1"][0], sites["tot2"][0]
    sa, sb = SH.shape(a[0][2]), SH.shape(b[0][2])
    signs = (a[1][2], b[1][2])
    if sa == sb and signs == ("-=", "+="):
        R.ok("C11.transfer", "multi_D:tot1~tot2", "same match condition; giver -= tot1, receiver += tot2")
    elif sa != sb:
        R.violation("C11.transfer", "multi_D:tot1~tot2", "the receiving side selects the element total by `%s`, the giving side by `%s`: the amount can arrive under another element's name"
                    % (T.text(b[0][2])[:90], T.text(a[0][2])[:90]), file=f["file"], line=b[0][1], function=f["q"])
    else:
        R.violation("C11.transfer", "multi_D:tot1~tot2", "expected giver -= tot1 and receiver += tot2, found %s / %s" % signs, file=f["file"], line=b[0][1], function=f["q"])


def wholename_rule(P, R):
    """"element amounts are moved, never created or lost": the transport code matches an element name against the entries of a solution's
    totals map (`Ca`, `C(4)`, `N(5)`, ...) by comparing the stem before the parenthesis with strncmp.  A prefix compare is a match of the
    element only together with equality of the two stem lengths - without it `Ca` matches `C(4)` and `Na` matches `N(5)`, and an amount
    (or a deficit) of one element is booked on another.  Every stem comparison in transport.cpp must be such a whole-name match."""
    RULE = "C11.wholename"
    R.rule(RULE, "every strncmp of an element name against a totals key (stem length from strlen / strcspn(.., \"(\")) is conjoined with equality of the two stem lengths", minimum=4)
    n = 0
    for key, f in sorted(P.functions.items()):
        if not f.get("body") or not f["file"].endswith("transport.cpp"):
            continue
        # locals that hold a stem length
        stem = {}
        for x in T.walk(f["body"]):
            if x[0] == "Bin" and x[2] == "=" and T.strip_casts(x[3])[0] == "Ref":
                for c in T.calls(x[4]):
                    if T.callee_name(c) in ("strlen", "strcspn") and c[4]:
                        stem[T.strip_casts(x[3])[3]] = (T.callee_name(c), T.text(c[4][0]).replace(" ", ""))
        if not stem:
            continue
        for x in T.walk(f["body"]):
            if x[0] != "If":
                continue
            calls = [c for c in T.calls(x[2]) if T.callee_name(c) == "strncmp" and len(c[4]) == 3 and T.strip_casts(c[4][2])[0] == "Ref" and T.strip_casts(c[4][2])[3] in stem]
            if not calls:
                continue
            n += 1
            inst = "%s@%d" % (f["q"].split("::")[-1], x[1])
            # conjuncts of the condition
            conj = []

            def split(c):
                c = T.strip_casts(c)
                if c[0] == "Paren":
                    return split(c[2])
                if c[0] == "Bin" and c[2] == "&&":
                    split(c[3])
                    split(c[4])
                else:
                    conj.append(c)
            split(x[2])
            eq = False
            keystem = None
            for c in conj:
                if c[0] == "Bin" and c[2] == "==":
                    a, b = T.strip_casts(c[3]), T.strip_casts(c[4])
                    if a[0] == "Ref" and b[0] == "Ref" and a[3] in stem and b[3] in stem and a[3] != b[3]:
                        eq = True
                        # a name that is itself a totals key (iterator->first) may carry a valence: its stem needs strcspn too
                        for v in (a[3], b[3]):
                            fn, arg = stem[v]
                            if ".first" in arg and fn != "strcspn":
                                keystem = (v, arg)
            in_conj = any(any(k is cc for cc in T.calls(c)) for c in conj for k in calls)
            if eq and in_conj and keystem:
                R.violation(RULE, inst, "the length `%s` of the totals key `%s` is its full length, not the stem before the parenthesis: a key that carries a valence (`C(-4)`) never "
                            "matches its own redox family (`C(4)`)" % keystem, file=f["file"], line=x[1], function=f["q"])
            elif eq and in_conj:
                R.ok(RULE, inst, "prefix compare && equal stem lengths")
            else:
                R.violation(RULE, inst, "`%s` matches by prefix only (no test that the two stem lengths are equal): `Ca` matches `C(4)`, `Na` matches `N(5)` - the amount or deficit of one "
                            "element is booked on another element's total" % T.text(x[2])[:90], file=f["file"], line=x[1], function=f["q"])
    if n < 4:
        R.anchor_missing(RULE, "only %d stem comparisons found in transport.cpp (4 confirmed: moles_from_redox_states, multi_D x3)" % n)


def kinmix_rule(P, R):
    """"With reactive solids the column inventory ... obeys the same balance": run_reactions(i, kin_time, use_mix, step_fraction) applies the
    mixing step the transport loop asks for (use_mix: DISP, STAG, MIX_BS, NOMIX) before it integrates the kinetic reactions of the cell.
    All its branches - no kinetics, Runge-Kutta, CVODE - must hand the caller's use_mix on for that first, non-kinetic solve; a branch
    that substitutes another recipe gives that cell a different mixing than its neighbours assume."""
    RULE = "C11.kinmix"
    R.rule(RULE, "run_reactions: every branch applies the caller's mix (use_mix) in its mixing solve", minimum=3)
    f = P.one("Phreeqc::run_reactions")
    where = dict(file=f["file"], function=f["q"])
    um = f["pnames"][2] if len(f["pnames"]) > 2 else "use_mix"
    n = 0
    for c in T.calls(f["body"]):
        nm = T.callee_name(c)
        if nm == "set_and_run_wrapper" and len(c[4]) == 5:
            uk = T.strip_casts(c[4][2])
            if uk[0] == "Lit" and str(uk[3]) in ("0", "false"):          # the mixing solve (use_kinetics FALSE)
                n += 1
                a = T.strip_casts(c[4][1])
                inst = "set_and_run_wrapper@%d" % c[1]
                if a[0] == "Ref" and a[3] == um:
                    R.ok(RULE, inst, "use_mix handed on")
                else:
                    R.violation(RULE, inst, "this branch of run_reactions solves the cell with mix recipe `%s` instead of the caller's use_mix: the cell is mixed differently from what its "
                                "neighbours assume, and the column inventory changes" % T.text(a)[:20], line=c[1], **where)
        if nm == "rk_kinetics" and len(c[4]) >= 3:
            n += 1
            a = T.strip_casts(c[4][2])
            inst = "rk_kinetics@%d" % c[1]
            if a[0] == "Ref" and a[3] == um:
                R.ok(RULE, inst, "use_mix handed on")
            else:
                R.violation(RULE, inst, "rk_kinetics is called with mix recipe `%s` instead of the caller's use_mix" % T.text(a)[:20], line=c[1], **where)
    if n < 3:
        R.anchor_missing(RULE, "run_reactions: only %d mixing solves found (no-kinetics, Runge-Kutta, CVODE)" % n)


def park_rule(P, R):
    """"moved, never created or lost": in the dispersion / diffusion mixruns of transport() the mixed result of cell i is parked in the scratch
    solution -2 and written to its cell one iteration later (`Rxn_copy(store, -2, i - 1)`), so that the neighbours still mix with the old
    content.  The result of the last cell is written back after the loop; its target has to be the last index the loop would have written,
    (upper bound of i) - 1 - with any other target one cell keeps its unmixed content while another is overwritten."""
    from .. import ratfun as RF
    RULE = "C11.park"
    R.rule(RULE, "transport mixruns: the parked result (-2) of the last cell is written back to (loop upper bound) - 1, the cell the loop's own write-back pattern addresses", minimum=2)
    f = P.one("Phreeqc::transport")
    where = dict(file=f["file"], function=f["q"])

    def is_park_copy(c):
        return T.callee_name(c) == "Rxn_copy" and len(c[4]) == 3 and T.lit_value(c[4][1]) == -2 or \
            (T.callee_name(c) == "Rxn_copy" and len(c[4]) == 3 and T.text(c[4][1]).replace(" ", "") in ("-2",))

    def sym(n):
        return RF.from_tree(n, lambda y: (y[3] if y[0] == "Ref" else y[2].split("::")[-1]))
    n = 0
    for blk in T.walk(f["body"]):
        if blk[0] != "Compound":
            continue
        seq = [st for st in blk[2] if T.is_node(st)]
        for i, lp in enumerate(seq):
            if lp[0] != "For" or not T.is_node(lp[3]):
                continue
            inner = [c for c in T.calls(lp[5]) if is_park_copy(c)]
            if not inner:
                continue
            cond = T.strip_casts(lp[3])
            if not (cond[0] == "Bin" and cond[2] in ("<=", "<")):
                continue
            after = [c for st in seq[i + 1:i + 3] for c in T.calls(st) if is_park_copy(c)]
            if not after:
                continue
            n += 1
            inst = "mixrun-loop@%d" % lp[1]
            try:
                upper = sym(cond[4]) - (RF.Rat.const(0) if cond[2] == "<=" else RF.Rat.const(1))
                want = upper - RF.Rat.const(1)
                got = sym(after[0][4][2])
            except Exception as e:
                R.anchor_missing(RULE, "%s: bound / target not a polynomial (%s)" % (inst, e))
                continue
            if got.same(want):
                R.ok(RULE, inst, "write-back target %s = upper bound - 1" % T.text(after[0][4][2]))
            else:
                R.violation(RULE, inst, "after the loop over i <= %s the parked result of the last cell is written to `%s`, not to the last index the loop's write-back pattern "
                            "(-2 -> i - 1) addresses: that cell keeps its unmixed content and another one is overwritten, the column inventory changes"
                            % (T.text(cond[4]), T.text(after[0][4][2])), line=after[0][1], **where)
    if n < 2:
        R.anchor_missing(RULE, "transport(): only %d mixrun loops with a parked write-back found (2 confirmed)" % n)


def maxmix_rule(P, R):
    R.rule("C11.maxmix", "init_mix: every update of the maximum mixing fraction reads m and m1 of the same cell, the cell whose factors the block assigns", minimum=4)
    f = P.one("Phreeqc::init_mix")
    where = dict(file=f["file"], function=f["q"])
    n = 0

    def idx_of(nd, arr):
        nd = T.strip_casts(nd)
        if nd[0] == "Index" and T.text(nd[2]).split(".")[-1] == arr:
            return T.text(nd[3]).replace(" ", "")
        return None
    for blk in T.walk(f["body"]):
        if blk[0] != "Compound":
            continue
        stm = [s_ for s_ in blk[2] if T.is_node(s_)]
        for st in stm:
            if not (st[0] == "Bin" and st[2] == "=" and T.text(st[3]) == "mf12"):
                continue
            r = T.strip_casts(st[4])
            if not (r[0] == "Bin" and r[2] == "+"):
                continue
            a, b = idx_of(r[3], "m"), idx_of(r[4], "m1")
            if a is None or b is None:
                a, b = idx_of(r[4], "m"), idx_of(r[3], "m1")
            if a is None or b is None:
                continue
            n += 1
            inst = "mf12@%d" % st[1]
            assigned = set()
            for s2 in stm:
                if s2 is st:
                    break
                for w in T.walk(s2):
                    if w[0] == "Bin" and w[2] in T.ASSIGN_OPS:
                        for arr in ("m", "m1"):
                            k = idx_of(w[3], arr)
                            if k is not None:
                                assigned.add(k)
            if a != b:
                R.violation("C11.maxmix", inst, "the maximum mixing fraction is updated from m[%s] + m1[%s]: the factors of two different cells" % (a, b), line=st[1], **where)
            elif assigned and a not in assigned:
                R.violation("C11.maxmix", inst, "this block assigns the mixing factors of cell %s but updates the maximum from cell %s: the boundary cell's own factors no longer limit the number "
                            "of mixing runs and its self-fraction can become negative" % (", ".join(sorted(assigned)), a), line=st[1], **where)
            else:
                R.ok("C11.maxmix", inst, "m[%s] + m1[%s]" % (a, b))
    if n < 4:
        R.anchor_missing("C11.maxmix", "init_mix: only %d updates of the maximum mixing fraction found" % n)



def implicitsides_rule(P, R):
    """diffuse_implicit, explicit mole bookkeeping of step 3: for every interface (icell, icell+1) the flux `tot1` is subtracted from
    the giving solution sptr1 and added to the receiving solution sptr2.  Which of the two really is a column cell (and not a boundary
    solution that must stay constant) is decided by a guard on icell / ilast / the boundary type; the guard is repeated for H, for O,
    for the negative-moles check and for every other element.  The copies for the same side must agree: a side whose guard differs for
    one element gives or receives that element on a different set of interfaces than all others, and moles of it vanish or appear at
    the boundary (sibling cross-check; the guard itself is taken from the code, not assumed)."""
    RULE = "C11.implicitsides"
    R.rule(RULE, "diffuse_implicit: all guards of updates of the giving side agree with each other, and all guards of the receiving side agree with each other", minimum=6)
    f = P.one("Phreeqc::diffuse_implicit")

    def conjuncts(c):
        c = T.strip_casts(c)
        if T.is_node(c) and c[0] == "Paren":
            return conjuncts(c[2])
        if T.is_node(c) and c[0] == "Bin" and c[2] == "&&":
            return conjuncts(c[3]) + conjuncts(c[4])
        return [c]

    def mentions(n, name):
        return any(y[0] in ("Ref", "Member") and (y[3] if y[0] == "Ref" else y[2]).split("::")[-1] == name for y in T.walk(n) if T.is_node(y))

    def side_writes(n, stop_nested=True):
        """solutions (local names) whose totals are modified directly in n, not inside a nested guard on ilast"""
        out = set()
        if not T.is_node(n):
            return out
        if n[0] == "If" and mentions(n[2], "ilast") and stop_nested:
            return out
        if n[0] == "Call":
            nm = T.callee_name(n)
            o = T.call_obj(n) if nm in ("Set_total_h", "Set_total_o") else None
            o = T.strip_casts(o) if o is not None else None
            if T.is_node(o) and o[0] == "Ref":
                out.add(o[3])
        if n[0] == "Bin" and n[2] in T.ASSIGN_OPS:
            for y in T.walk(n[3]):
                if y[0] == "Call" and T.callee_name(y) == "Get_totals":
                    o = T.strip_casts(T.call_obj(y))
                    if T.is_node(o) and o[0] == "Ref":
                        out.add(o[3])
        for ch in T.children(n):
            out |= side_writes(ch)
        return out
    def disjuncts(c):
        c = T.strip_casts(c)
        if T.is_node(c) and c[0] == "Paren":
            return disjuncts(c[2])
        if T.is_node(c) and c[0] == "Bin" and c[2] == "||":
            return disjuncts(c[3]) + disjuncts(c[4])
        return [c]

    def canon(c):
        """order-insensitive text: sorted disjuncts of sorted conjuncts"""
        return " || ".join(sorted(" && ".join(sorted(" ".join(T.text(k).split()) for k in conjuncts(d))) for d in disjuncts(c)))
    groups = {}
    for x in T.walk(f["body"]):
        if x[0] != "If" or not mentions(x[2], "ilast"):
            continue
        guard = [c for c in conjuncts(x[2]) if mentions(c, "ilast")]
        if len(guard) != 1:
            continue
        sides = set()
        for ch in T.children(x[3]) if T.is_node(x[3]) else ():
            sides |= side_writes(ch)
        if T.is_node(x[3]) and x[3][0] != "Compound":
            sides |= side_writes(x[3])
        for sd in sides:
            if sd in ("sptr1", "sptr2"):
                groups.setdefault(sd, []).append((x[1], canon(guard[0])))
    if len(groups.get("sptr1", [])) < 3 or len(groups.get("sptr2", [])) < 3:
        R.anchor_missing(RULE, "diffuse_implicit: guarded updates found: %s" % {k: len(v) for k, v in groups.items()})
        return
    for sd, lst in sorted(groups.items()):
        from collections import Counter
        common, _ = Counter(t for _, t in lst).most_common(1)[0]
        for line, txt in lst:
            inst = "%s@%d" % (sd, line)
            if txt == common:
                R.ok(RULE, inst, "guard `%s`" % txt[:90])
            else:
                R.violation(RULE, inst, "this update of the %s solution is guarded by `%s` while the other %d updates of that side use `%s`: for this element the side changes on a "
                            "different set of interfaces than for all others, so its moles are lost or created at a column end" % (
                                "giving" if sd == "sptr1" else "receiving", txt[:100], len(lst) - 1, common[:100]), file=f["file"], line=line, function=f["q"])



def pairreset_rule(P, R):
    """Per-pair accumulators: `if (a) v = x; if (b) v += y;` computes a sum of optional terms for one pair of cells.  When the first
    condition is false v keeps whatever the previous pair left in it, unless the block assigns v unconditionally before.  In init_mix
    (v = dav, the harmonic-mean denominator of the dispersive mixing factor) a stale value makes the factor of cell i towards j differ
    from that of j towards i, and moles appear or vanish at the interface.  The idiom is searched program-wide (it occurs in init_mix
    only); each occurrence needs an unconditional assignment of v earlier in the same block."""
    RULE = "C11.pairreset"
    R.rule(RULE, "an accumulator filled by `if (a) v = x; if (b) v += y;` is assigned unconditionally earlier in the same block (no value carried over from the previous pair of cells)", minimum=4)

    def localref(n):
        n = T.strip_casts(n)
        return n[3] if T.is_node(n) and n[0] == "Ref" and n[2] == "local" else None

    def single(st):
        if T.is_node(st) and st[0] == "Compound" and len(st[2]) == 1:
            return st[2][0]
        return st
    n = 0
    for k, g in sorted(P.functions.items()):
        for comp in T.walk(g["body"]):
            if comp[0] != "Compound":
                continue
            st = comp[2]
            for i, nx in enumerate(st):
                # the optional second term: `if (b) v += y;`
                if not (T.is_node(nx) and nx[0] == "If" and not T.is_node(nx[4])):
                    continue
                b2 = single(nx[3])
                if not (T.is_node(b2) and b2[0] == "Bin" and b2[2] in ("+=", "-=") and localref(b2[3])):
                    continue
                v = localref(b2[3])
                # nearest earlier siblings that start v in this block: `if (a) v = x;` (conditional) or `v = ...;` (unconditional)
                cond_start = uncond = None
                for p in reversed(st[:i]):
                    if T.is_node(p) and p[0] == "Bin" and p[2] == "=" and localref(p[3]) == v:
                        uncond = p
                        break
                    if T.is_node(p) and p[0] == "If" and not T.is_node(p[4]):
                        b = single(p[3])
                        if T.is_node(b) and b[0] == "Bin" and b[2] == "=" and localref(b[3]) == v:
                            cond_start = p
                            continue
                    if any(localref(t) == v for t, how, line, w in T.writes(p)) if T.is_node(p) else False:
                        break
                if cond_start is None and uncond is None:
                    continue            # a running sum that is not started in this block
                n += 1
                inst = "%s:%s@%d" % (g["q"].split("::")[-1], v, nx[1])
                if uncond is not None:
                    R.ok(RULE, inst, "%s assigned unconditionally at line %d" % (v, uncond[1]))
                else:
                    R.violation(RULE, inst, "`if (%s) %s = ...; if (...) %s += ...;` without an unconditional assignment of %s before it in the block: when the first condition is false the "
                                "value of the previous pair of cells is used, the two mixing factors of one interface differ and the column gains or loses moles" % (
                                    T.text(cond_start[2])[:40], v, v, v), file=g["file"], line=cond_start[1], function=g["q"])
    if n < 4:
        R.anchor_missing(RULE, "only %d occurrences of the pair-accumulator idiom (init_mix: 4)" % n)



def genmix_rule(P, R):
    """For `-stagnant 1 exch_f th_m th_im` transport() writes mobile / immobile exchange recipes into the user's MIX store (Rxn_mix_map[n] =
    generated mix).  They are scratch of that TRANSPORT run: left behind, a later ADVECTION / RUN_CELLS / USE mix in the same instance mixes
    every cell with its former stagnant partner - cell i after an advective shift is then not the previous solution of its upstream
    neighbour, and mass is created.  transport_cleanup() must clear the store under the condition under which transport() generates into
    it (compared as a set of conjuncts on stag_data)."""
    from .. import ratfun as RF
    RULE = "C11.genmix"
    R.rule(RULE, "MIX recipes generated by transport() for first-order stagnant exchange are removed by transport_cleanup() under the same condition", minimum=1)
    tr, cl = P.one("Phreeqc::transport"), P.one("Phreeqc::transport_cleanup")

    def conj(c):
        c = T.strip_casts(c)
        if T.is_node(c) and c[0] == "Paren":
            return conj(c[2])
        if T.is_node(c) and c[0] == "Bin" and c[2] == "&&":
            return conj(c[3]) + conj(c[4])
        return [" ".join(T.text(c).split())]

    def guarded(fn, pred):
        out = []

        def rec(n, conds):
            if not T.is_node(n):
                return
            if pred(n):
                out.append((n[1], frozenset(k for c in conds for k in conj(c) if "stag_data" in k)))
            if n[0] == "If":
                rec(n[2], conds)
                rec(n[3], conds + [n[2]])
                rec(n[4], conds)
                return
            for ch in T.children(n):
                rec(ch, conds)
        rec(fn["body"], [])
        return out

    def is_gen(x):
        return x[0] == "Call" and T.callee_name(x) == "operator=" and x[4] and any(
            y[0] == "Call" and T.callee_name(y) == "operator[]" and y[4] and any(z[0] == "Member" and z[2] == "Phreeqc::Rxn_mix_map" for z in T.walk(y[4][0])) for y in T.walk(x[4][0]))

    def is_clear(x):
        return x[0] == "Call" and T.callee_name(x) in ("clear", "erase") and T.call_obj(x) is not None and any(
            y[0] == "Member" and y[2] == "Phreeqc::Rxn_mix_map" for y in T.walk(T.call_obj(x)))

    # index sets: the numbers generated and the numbers erased, as polynomials in the loop variable (renamed `v`) and count_cells
    def loop_var_defs(fn):
        defs = {}
        for x in T.walk(fn["body"]):
            if x[0] == "Bin" and x[2] == "=" and T.is_node(T.strip_casts(x[3])) and T.strip_casts(x[3])[0] == "Ref" and T.strip_casts(x[3])[2] == "local":
                defs.setdefault(T.strip_casts(x[3])[3], []).append(x[4])
        return defs

    def index_poly(fn, e, loopvars):
        defs = loop_var_defs(fn)

        def sym(n):
            if n[0] == "Ref" and n[3] in loopvars:
                return "v"
            if n[0] == "Ref" and n[2] == "local" and n[3] in defs and len(defs[n[3]]) == 1:
                return None
            if n[0] in ("Ref", "Member"):
                return (n[3] if n[0] == "Ref" else n[2].split("::")[-1])
            return None

        def conv(n):
            n = T.strip_casts(n)
            if T.is_node(n) and n[0] == "Paren":
                return conv(n[2])
            if T.is_node(n) and n[0] == "Ref" and n[2] == "local" and n[3] not in loopvars and n[3] in defs and len(defs[n[3]]) == 1:
                return conv(defs[n[3]][0])
            if T.is_node(n) and n[0] == "Bin" and n[2] in ("+", "-", "*"):
                a, b = conv(n[3]), conv(n[4])
                return a + b if n[2] == "+" else a - b if n[2] == "-" else a * b
            return RF.from_tree(n, sym)
        return conv(e)

    def enclosing_loop_vars(fn):
        out = {}
        for lp in T.walk(fn["body"]):
            if lp[0] == "For" and T.is_node(lp[3]) and lp[3][0] == "Bin":
                v = T.strip_casts(lp[3][3])
                if T.is_node(v) and v[0] == "Ref":
                    for x in T.walk(lp[5]):
                        out.setdefault(id(x), set()).add(v[3])
        return out
    gens = guarded(tr, is_gen)
    if not gens:
        R.anchor_missing(RULE, "transport() no longer generates entries of Rxn_mix_map")
        return
    want = {c for _, c in gens}
    clears = {c for _, c in guarded(cl, is_clear)}
    whole = any(is_clear(x) and T.callee_name(x) == "clear" for x in T.walk(cl["body"]))
    gen_idx, era_idx = [], []
    try:
        lv = enclosing_loop_vars(tr)
        for x in T.walk(tr["body"]):
            if is_gen(x):
                for y in T.walk(x[4][0]):
                    if y[0] == "Call" and T.callee_name(y) == "operator[]" and len(y[4]) == 2:
                        gen_idx.append(index_poly(tr, y[4][1], lv.get(id(x), set())))
        lv = enclosing_loop_vars(cl)
        for x in T.walk(cl["body"]):
            if is_clear(x) and T.callee_name(x) == "erase" and x[4]:
                era_idx.append(index_poly(cl, x[4][0], lv.get(id(x), set())))
    except RF.NotRational as e:
        R.anchor_missing(RULE, "index of a generated / erased MIX entry not a polynomial (%s)" % e)
        return
    for (line, c), gi in zip(sorted(gens), gen_idx if len(gen_idx) == len(gens) else [None] * len(gens)):
        inst = "transport@%d" % line
        if not whole and (gi is None or not any(gi.same(e) for e in era_idx)):
            R.violation(RULE, inst, "transport() generates the MIX entry number %r but transport_cleanup() erases only %r: the recipe survives the run and a later ADVECTION / "
                        "RUN_CELLS mixes the cell with its former stagnant partner" % (gi, era_idx), file=cl["file"], line=cl["line"], function=cl["q"])
            continue
        if any(cc <= c for cc in clears):
            R.ok(RULE, inst, "generated under {%s}; transport_cleanup clears the store under a condition that covers it" % ", ".join(sorted(c)))
        else:
            R.violation(RULE, inst, "transport() writes a generated recipe into Rxn_mix_map under {%s} and transport_cleanup() does not clear the store under that condition: the "
                        "recipes survive the run and a later ADVECTION / RUN_CELLS mixes every cell with its former stagnant partner" % ", ".join(sorted(c)),
                        file=cl["file"], line=cl["line"], function=cl["q"])


def run(P, R, tier):
    mixwater_rule(P, R)
    maxmix_rule(P, R)
    transfer_rule(P, R)
    wholename_rule(P, R)
    park_rule(P, R)
    kinmix_rule(P, R)
    implicitsides_rule(P, R)
    pairreset_rule(P, R)
    genmix_rule(P, R)
    heatpair_rule(P, R)
    saveold_rule(P, R)
    heatscan_rule(P, R)
    R.undecided += ["conservation of the column inventory over shifts (mixing-factor arithmetic)", "bounded mixing / convexity",
                    "stagnant zones, multicomponent diffusion, boundary conditions, reactive solids"]
    R.rule("C11.shift", "in-place advective shift loops over the solution store walk against the copy direction (each source is read before it is overwritten)", minimum=2)
    n = 0
    for key, f in sorted(P.functions.items()):
        if not f["q"].startswith("Phreeqc::"):
            continue
        for lp in T.walk(f["body"]):
            if lp[0] != "For":
                continue
            # loop variable: the variable updated by the increment
            inc = lp[4]
            var = None
            if T.is_node(inc):
                for y in T.walk(inc):
                    if y[0] == "Ref" and y[2] in ("local", "param"):
                        var = y[3]
                        break
            if var is None:
                continue
            body = lp[5]
            stmts = body[2] if T.is_node(body) and body[0] == "Compound" else [body]
            for s in stmts:
                if not (T.is_node(s) and s[0] == "Call" and T.callee_name(s) == "Rxn_copy" and len(s[4]) == 3):
                    continue
                m = T.strip_casts(s[4][0])
                if not (m[0] == "Member" and m[2] == "Phreeqc::Rxn_solution_map"):
                    continue
                src, dst = affine(s[4][1], var), affine(s[4][2], var)
                if src is None or dst is None or src[0] != 1 or dst[0] != 1:
                    continue            # not an in-place shift along the loop variable (e.g. restore from scratch copies)
                d = diff(dst, src)      # destination index minus source index
                if d[0] != 0 or (not d[1] and d[2] == 0):
                    continue
                n += 1
                inst = "%s:shift#%d" % (f["q"].split("::")[-1], n)
                upd = update_of(lp, var)
                where = dict(file=f["file"], line=lp[1], function=f["q"])
                neg = (0, {k: -c for k, c in d[1].items()}, -d[2])
                if upd is None:
                    R.anchor_missing("C11.shift", "%s: loop update of `%s` not recognised" % (inst, var))
                elif upd == neg:
                    R.ok("C11.shift", inst, "copy %s -> %s, loop update %s: source read before it is overwritten" % (T.text(s[4][1]), T.text(s[4][2]), T.text(inc)))
                else:
                    R.violation("C11.shift", inst, "the in-place shift copies cell %s into cell %s but the loop advances by `%s`: it does not walk against the copy direction, so a "
                                "cell is overwritten before it has been copied on and one shift smears the inflow solution through the column"
                                % (T.text(s[4][1]), T.text(s[4][2]), T.text(inc)), **where)
                # start at the downstream end
                init = lp[2]
                st = None
                if T.is_node(init):
                    for y in T.walk(init):
                        if y[0] == "Bin" and y[2] == "=":
                            st = T.text(y[4])
                        elif y[0] == "Decl":
                            for dd in y[2]:
                                if dd[0] == var and T.is_node(dd[2]):
                                    st = T.text(dd[2])
                if st is not None and any(w in st for w in ("count_ad_cells", "last_c", "count_cells")):
                    R.ok("C11.shift", inst + ":start", "starts at the downstream end (%s)" % st)
                else:
                    R.violation("C11.shift", inst + ":start", "the shift loop does not start at the downstream end of the column (start `%s`)" % st, **where)


def heatpair_rule(P, R):
    """mix_stag exchanges heat between a mobile cell and its stagnant partner: the new temperature of each side is the mixture
    f * T(other) + (1 - f) * T(own) with that side's factor (heat_mix_f_m, heat_mix_f_imm).  What one side gains the other loses only
    if BOTH results are stored: each expression built with a heat_mix_f_* factor must reach Set_tc of a solution, directly or through a
    local that is not reassigned in between.  (The stagnant side's value was computed into t_imm and overwritten by the statement that
    should have stored it: heat was created, 10 C and 60 C cells met at 56.6 C instead of 35 C.)"""
    RULE = "C11.heatpair"
    R.rule(RULE, "mix_stag: the temperature computed with each heat-exchange factor is stored with Set_tc (both partners change)", minimum=2)
    f = P.one("Phreeqc::mix_stag")
    n = 0
    for blk in T.walk(f["body"]):
        if blk[0] != "Compound":
            continue
        stmts = blk[2]
        for k, st in enumerate(stmts):
            if not T.is_node(st):
                continue
            # direct: X->Set_tc(<expr with factor>)
            for c in T.calls(st) if st[0] in ("Call",) else []:
                pass
            facs = sorted({y[2].split("::")[-1] for y in T.walk(st) if y[0] == "Member" and y[2].split("::")[-1].startswith("heat_mix_f_")})
            if not facs:
                continue
            if st[0] == "Call" and T.callee_name(st) == "Set_tc":
                n += 1
                R.ok(RULE, "%s@%d" % (facs[0], st[1] - f["line"]), "stored directly with %s" % T.text(st)[:40])
                continue
            if st[0] == "Bin" and st[2] == "=":
                tgt = T.strip_casts(st[3])
                if not (T.is_node(tgt) and tgt[0] == "Ref" and tgt[2] == "local"):
                    continue
                n += 1
                inst = "%s@%d" % (facs[0], st[1] - f["line"])
                stored = killed = None
                for nx in stmts[k + 1:]:
                    if not T.is_node(nx):
                        continue
                    uses = [c for c in T.calls(nx) if T.callee_name(c) == "Set_tc" and any(y[0] == "Ref" and y[3] == tgt[3] for a in c[4] for y in T.walk(a))]
                    writes = [w for t, how, line, w in T.writes(nx) if T.is_node(T.strip_casts(t)) and T.strip_casts(t)[0] == "Ref" and T.strip_casts(t)[3] == tgt[3]]
                    if uses and not writes:
                        stored = nx[1]
                        break
                    if writes:
                        killed = nx[1]
                        break
                if stored:
                    R.ok(RULE, inst, "%s stored with Set_tc at line %d" % (tgt[3], stored))
                else:
                    R.violation(RULE, inst, "the temperature computed with %s into `%s` (line %d) is %s before any Set_tc receives it: one partner of the heat exchange keeps its "
                                "temperature, heat is created or lost" % (facs[0], tgt[3], st[1], "overwritten at line %d" % killed if killed else "never stored"),
                                file=f["file"], line=st[1], function=f["q"])
    if n < 2:
        R.anchor_missing(RULE, "mix_stag: only %d temperatures computed with heat_mix_f_* factors" % n)


def saveold_rule(P, R):
    """A column cell with CVODE kinetics: run_reactions first mixes the cell ("Do mix first"), integrates, and finally puts the cell's OLD
    solution back in its place for the neighbours that have not been calculated yet (transport mixes every cell with the old content of
    its neighbours).  The old solution is parked in the scratch entry save_old; the parking copy has to come before the first
    statement of the block that can change solution i (set_and_run_wrapper / saver) - parked after the mix, the "old" solution the
    neighbours see is the already mixed one and mass is created or lost."""
    RULE = "C11.saveold"
    R.rule(RULE, "run_reactions (CVODE): the cell's old solution is parked in save_old before the first statement that changes the cell", minimum=1)
    f = P.one("Phreeqc::run_reactions")
    n = 0
    for blk in T.walk(f["body"]):
        if blk[0] != "Compound":
            continue
        st = [x for x in blk[2] if T.is_node(x)]
        if not any(x[0] == "Bin" and x[2] == "=" and T.text(T.strip_casts(x[3])) == "save_old" for x in st):
            continue
        park = changer = None
        for k, x in enumerate(st):
            if park is None and any(T.callee_name(c) == "Rxn_copy" and len(c[4]) == 3 and T.text(T.strip_casts(c[4][2])) == "save_old"
                                    and "Rxn_solution_map" in T.text(c[4][0]) for c in T.calls(x)):
                park = (k, x[1])
            if changer is None and any(T.callee_name(c) in ("saver", "set_and_run_wrapper", "set_and_run") for c in T.calls(x)):
                changer = (k, x[1])
        if park is None and changer is None:
            continue
        n += 1
        inst = "block@%d" % (blk[1] - f["line"])
        if park is not None and (changer is None or park[0] < changer[0]):
            R.ok(RULE, inst, "parked at line %d, first change of the cell at line %s" % (park[1], changer[1] if changer else "-"))
        else:
            R.violation(RULE, inst, "the old solution of the cell is parked in save_old at line %s, after the statement at line %d that mixes / saves the cell: the neighbours mix "
                        "with the already mixed solution" % (park[1] if park else "(never)", changer[1]), file=f["file"], line=changer[1], function=f["q"])
    if n < 1:
        R.anchor_missing(RULE, "run_reactions: the block that sets save_old was not found")


def heatscan_rule(P, R):
    """init_heat_mix decides whether heat has to be moved at all: it scans the mobile cells 1..count_cells and, for every stagnant layer n,
    the cells i + 1 + n * count_cells for a temperature that differs from solution 0.  The two scans walk the same positions i, so they
    must have the same bounds: the loops over `i` whose body reads cell_data[...].temp are compared (first value, comparison, bound).
    The stagnant scan stopped one cell short: warm water in the last stagnant cell did not switch thermal diffusion on, the mirror
    image did."""
    RULE = "C11.heatscan"
    R.rule(RULE, "init_heat_mix: the temperature scans of the mobile and of the stagnant cells cover the same positions", minimum=2)
    f = P.one("Phreeqc::init_heat_mix")
    scans = []
    for lp in T.walk(f["body"]):
        if lp[0] != "For" or not T.is_node(lp[3]) or lp[3][0] != "Bin":
            continue
        v = T.strip_casts(lp[3][3])
        if not (T.is_node(v) and v[0] == "Ref"):
            continue
        inner_for = [x for x in T.walk(lp[5]) if x[0] == "For"]
        reads_temp = any(y[0] == "Member" and y[2].endswith("::temp") for y in T.walk(lp[5])) and any(T.callee_name(c) == "fabs" for c in T.calls(lp[5]))
        if inner_for or not reads_temp:
            continue
        init = "".join(T.text(lp[2], -40).split()) if T.is_node(lp[2]) else ""
        scans.append((lp[1], init, lp[3][2], "".join(T.text(lp[3][4], -40).split())))
    if len(scans) < 2:
        R.anchor_missing(RULE, "init_heat_mix: %d temperature scans found" % len(scans))
        return
    ref = scans[0]
    for line, init, op, bound in scans:
        inst = "scan@%d" % (line - f["line"])
        if (init, op, bound) == ref[1:]:
            R.ok(RULE, inst, "%s ; i %s %s" % (init, op, bound))
        else:
            R.violation(RULE, inst, "this temperature scan runs `%s ; i %s %s`, the scan of the mobile cells `%s ; i %s %s`: a cell at the end of the stagnant layer is not looked at, "
                        "warm water there does not switch thermal diffusion on" % (init, op, bound, ref[1], ref[2], ref[3]), file=f["file"], line=line, function=f["q"])
