"""C05 – selected-output table, string, lines and file describe the same data.

Decided structurally:
  C05.trisink   each IPhreeqc::fpunchf overload sends the SAME (name, format, value) to the three sinks on every normal
                path: PHRQ_io::fpunchf (file), fpunchf_helper into the block's string under exactly
                `get_sel_out_string_on(block) && punch_on`, and unconditionally the block's table through the PushBack
                matching the value type; all three sinks are keyed by the block being punched
  C05.siblings  overload families of the punch path are structurally identical modulo the value type: IPhreeqc::fpunchf
                x3, PHRQ_io::fpunchf x3, Phreeqc::fpunchf x3, Phreeqc::fpunchf_user x2, PHRQ_io::fpunchf_helper
                (file / string), CSelectedOutput::PushBackDouble/Long/String
  C05.who       who-may-call / who-may-write: table cells are written only by CSelectedOutput::PushBack/EndRow/Clear, which
                only IPhreeqc::fpunchf / EndRow / the reset code call; the selected-output string is appended only by
                fpunchf and punch_msg; the file stream is written only by PHRQ_io::punch_msg / fpunchf_helper
  C05.get       CSelectedOutput::Get: VarClear first; row and column are range-checked (>= count, < 0) before any subscript;
                failing branches yield TT_ERROR + the matching code; Get is const.  IPhreeqc::GetSelectedOutputValue: result
                switch total over VRESULT; unknown user number -> VR_INVALIDARG without touching any table
  C05.pad       a late-appearing column is padded to the current row count before its first cell; EndRow pads every column
                (loop over all columns, no early exit) after incrementing the row count
  C05.upgate    USER_PUNCH columns are in all three sinks or in none: tidy_punch (headings), punch_user_punch (values) and
                IPhreeqc::EndRow (table padding) each test current_user_punch together with the block's -user_punch switch
  C05.rowend    every engine function that ends a selected-output line (punch_msg("\\n")) also ends the table row (fpunchf_end_row);
                punch_model (inverse-model records) does not: known finding
  C05.varalloc  a string cell holds its text, the empty string included: VarAllocString returns NULL early only under a null test of the
                source (its callers store an error-typed VAR for any other NULL)
  C05.var       VarClear / VarCopy are total over VAR_TYPE; VarCopy clears the destination and deep-copies strings
  C05.gate      every engine write of the selected-output print switch pr.punch is followed by the matching
                phrq_io->Set_punch_on(..) (string/file gate), so table, string and file are switched together
  C05.open      do_run opens the lazily opened files before tidy_model and independently of pr.punch
  C05.once      tidy_punch (which writes the headings of every flagged block) is never called from inside a loop over the blocks
  C05.lines     GetSelectedOutputStringLine is range-guarded on the same vector it subscripts (shared with C09.lines)
Not decided: (c) the text cell equals the table value rendered in the block's format (format strings vs values); row-count
arithmetic over all block shapes; the selected-output FILE content on disk.
"""
from .. import tree as T
from .. import shape as SH
from ..callgraph import get as callgraph

PROP = "C05"
EXPLANATION = __doc__


def fam(P, q, n=None):
    fs = sorted(P.fns_named(q), key=lambda f: f["line"])
    return fs


def value_param(f):
    return f["pnames"][-1] if f["pnames"] else None


def run(P, R, tier):
    R.undecided += ["(c) every text cell is the table's full-precision value rendered in the block's print format",
                    "row-count contract over all block shapes (arithmetic)", "content of the selected-output file on disk"]
    sibling_rules(P, R)
    # "the C, C++ and Fortran-binding accessors agree cell by cell": the Fortran glue hands every text cell and line through padfstring
    from .c04 import _Renamed
    from . import c13 as C13
    pf = [g for g in P.functions.values() if g["file"] == "IPhreeqc_interface_F.cpp" and g["q"] == "padfstring" and g.get("body")]
    R.rule("C05.fpad", "padfstring (every text cell and line of the Fortran binding): copies min(strlen, *len) characters, blank-fills up to *len, reports strlen", minimum=2)
    C13.check_pad(P, _Renamed(R, "C13.pad", "C05.fpad"), pf[0] if pf else None)
    trisink_rules(P, R)
    who_rules(P, R)
    get_rules(P, R)
    pad_rules(P, R)
    var_rules(P, R)
    varalloc_rule(P, R)
    upgate_rule(P, R)
    tablerow_rule(P, R)
    rowend_rule(P, R)
    punchscope_rule(P, R)
    lines_rule(P, R, "C05.lines", only=("GetSelectedOutputStringLine",))
    once_rule(P, R)
    open_rule(P, R)
    stream_rule(P, R)
    percol_rule(P, R)
    reopen_rule(P, R)
    # the engine-side selected-output switch pr.punch and the sink gate punch_on move together (shared with C07.mirror):
    # a write of pr.punch that is not followed by Set_punch_on lets the table fill while string and file stay empty (or v.v.)
    from . import c07 as C07
    wt = C07.load_table("c07_wrapper_exempt.json")
    C07.mirror_rule(P, R, "C05.gate", wt, P.one("IPhreeqc::UnLoadDatabase"), only=("pr.punch",), minimum=3)


# ------------------------------------------------------------------------------------------ headings once

def once_rule(P, R):
    """Phreeqc::tidy_punch walks over ALL selected-output blocks and writes the headings of every block whose new_def flag
    is set.  A caller that invokes it from inside its own loop over the blocks repeats the headings of the blocks it has
    not reached yet in their strings (their files may not even be open): string and file then differ."""
    R.rule("C05.once", "tidy_punch (which visits every block) is never called from inside a loop over the selected-output blocks", minimum=2)
    tp = P.one("Phreeqc::tidy_punch")
    walks_all = any(x[0] == "For" and any(y[0] == "Member" and y[2] == "Phreeqc::SelectedOutput_map" for y in T.walk(x)) for x in T.walk(tp["body"]))
    if not walks_all:
        R.anchor_missing("C05.once", "tidy_punch no longer loops over SelectedOutput_map")
        return
    n = 0
    for key, f in sorted(P.functions.items()):
        def rec(node, in_loop):
            nonlocal n
            if not T.is_node(node):
                return
            if node[0] in ("For", "While", "Do", "RangeFor"):
                hdr = [c for c in node[2:5] if T.is_node(c)]
                over_blocks = any(y[0] == "Member" and y[2] == "Phreeqc::SelectedOutput_map" for h in hdr for y in T.walk(h))
                for c in T.children(node):
                    rec(c, in_loop or over_blocks)
                return
            if node[0] == "Call" and T.callee_q(node) == "Phreeqc::tidy_punch":
                n += 1
                inst = "%s:tidy_punch#%d" % (f["q"], n)
                if in_loop:
                    R.violation("C05.once", inst, "tidy_punch() is called inside a loop over the selected-output blocks: blocks not yet reached get their heading line "
                                "written again (into the string while the file is still closed)", file=f["file"], line=node[1], function=f["q"])
                else:
                    R.ok("C05.once", inst, "outside any loop over the blocks")
            for c in T.children(node):
                rec(c, in_loop)
        rec(f["body"], False)


def reopen_rule(P, R):
    """A block's file and string must restart together.  IPhreeqc::punch_open is the single place where the file of a
    selected-output block is (re)opened; when it opens it in truncating mode the rows already written for that block in this
    call disappear from the file, so the same function must also reset the block's string (or open in append mode).  The
    engine calls it again when SELECTED_OUTPUT n is redefined in a later simulation of the same call."""
    R.rule("C05.reopen", "re-opening a block's selected-output file in truncating mode also resets the block's string (or appends)", minimum=1)
    f = P.one("IPhreeqc::punch_open")
    opens = [c for c in T.calls(f["body"]) if T.callee_name(c) == "ofstream_open"]
    if not opens:
        R.anchor_missing("C05.reopen", "IPhreeqc::punch_open no longer calls ofstream_open")
        return
    resets = []
    for x in T.walk(f["body"]):
        if x[0] == "Call" and T.callee_name(x) in ("clear", "erase") and "SelectedOutputStringMap" in T.text(x):
            resets.append(x[1])
        if x[0] in ("Bin",) and x[2] == "=" and "SelectedOutputStringMap" in T.text(x[3]):
            resets.append(x[1])
    appends = any("app" in T.text(a) for c in opens for a in c[4])
    if resets or appends:
        R.ok("C05.reopen", "punch_open:SelectedOutputStringMap", "string reset at line %s / append mode" % (resets or "-"))
    else:
        R.violation("C05.reopen", "punch_open:SelectedOutputStringMap", "punch_open (re)opens the block's file with the caller's mode (truncating) but leaves the block's string untouched: when "
                    "SELECTED_OUTPUT n is redefined in a later simulation of the same call the file restarts while the string keeps the earlier rows", file=f["file"], line=opens[0][1], function=f["q"])


def percol_rule(P, R):
    """The text row is positional, the table is keyed by heading: every selected column must be punched exactly once per row.
    Where a punch_* function finds the value by searching nested lists (solid solutions -> components), the punch sits inside
    the search loops; after punching, control must leave EVERY search loop up to the loop over the selected names - the
    innermost by a break in the punching block, each outer one by a break under the found flag - or a name that occurs in two
    lists is punched twice: the text row gets an extra cell (all later cells shift) while the table cell is overwritten."""
    R.rule("C05.percol", "a punch inside nested search loops leaves every search loop: one cell per selected column and row", minimum=2)
    LOOPS = ("For", "While", "Do", "RangeFor")

    def body_of(lp):
        b = lp[5] if lp[0] == "For" else lp[3] if lp[0] == "While" else lp[2] if lp[0] == "Do" else lp[4]
        return b[2] if T.is_node(b) and b[0] == "Compound" else [b]
    n = 0
    for key, f in sorted(P.functions.items()):
        if not f["q"].startswith("Phreeqc::punch_") or f["q"].endswith(("punch_model", "punch_model_heading", "punch_all")):
            continue
        found = []

        def rec(nd, loops):
            if not T.is_node(nd):
                return
            if nd[0] in LOOPS:
                for c in T.children(nd):
                    rec(c, loops + [nd])
                return
            if nd[0] == "Call" and T.callee_name(nd) == "fpunchf" and len(loops) >= 2:
                found.append((nd, list(loops)))
            for c in T.children(nd):
                rec(c, loops)
        rec(f["body"], [])
        for call, loops in found:
            inner = loops[1:]              # search loops below the loop over the selected names
            for depth, lp in enumerate(reversed(inner)):
                n += 1
                inst = "%s:punch@%d:loop@%d" % (f["q"].split("::")[-1], call[1], lp[1])
                stm = body_of(lp)
                if depth == 0:
                    # innermost: a Break in the same block chain as the punch, after it
                    okk = False

                    def has_break_after(lst):
                        hit = False
                        for s_ in lst:
                            if not T.is_node(s_):
                                continue
                            if any(y is call for y in T.walk(s_)):
                                hit = True
                                if s_[0] in ("If", "Compound"):
                                    sub = s_[3][2] if s_[0] == "If" and T.is_node(s_[3]) and s_[3][0] == "Compound" else (s_[2] if s_[0] == "Compound" else [])
                                    if any(any(y is call for y in T.walk(z)) for z in sub if T.is_node(z)) and has_break_after(sub):
                                        return True
                                    if s_[0] == "If" and T.is_node(s_[4]):
                                        sub2 = s_[4][2] if s_[4][0] == "Compound" else [s_[4]]
                                        if any(any(y is call for y in T.walk(z)) for z in sub2 if T.is_node(z)) and has_break_after(sub2):
                                            return True
                                continue
                            if hit and s_[0] == "Break":
                                return True
                        return False
                    okk = has_break_after(stm)
                    why = "break after the punch"
                else:
                    # outer search loop: after the nested loop, `if (<flag>) break;` or an unconditional break
                    idx = next((i for i, s_ in enumerate(stm) if T.is_node(s_) and any(y is call for y in T.walk(s_))), None)
                    after = stm[idx + 1:] if idx is not None else []
                    okk = any(T.is_node(s_) and (s_[0] == "Break" or (s_[0] == "If" and any(y[0] == "Break" for y in T.walk(s_[3])))) for s_ in after)
                    why = "break under the found flag after the nested search"
                if okk:
                    R.ok("C05.percol", inst, why)
                else:
                    R.violation("C05.percol", inst, "after punching (line %d) control does not leave the search loop at line %d: a selected name that occurs in more than one list is punched once "
                                "per occurrence - an extra cell in the text row, an overwritten cell in the table" % (call[1], lp[1]), file=f["file"], line=lp[1], function=f["q"])
    if n < 2:
        R.anchor_missing("C05.percol", "no punch inside nested search loops found")


def stream_rule(P, R):
    """Every engine loop that walks the selected-output blocks and punches per block selects the block's file stream first:
    phrq_io->Set_punch_ostream(current_selected_output->Get_punch_ostream()).  A block whose file switch is off has a NULL
    stream on purpose; installing it is what keeps its rows out of the file of the previously punched block.  The selection
    must therefore be an unconditional statement of the loop body (after the `continue` filters) that precedes every
    statement that may punch, and the stream is detached (NULL) after the loop."""
    R.rule("C05.stream", "loops over the blocks that punch select the block's file stream unconditionally before punching and detach it after the loop", minimum=4)
    from ..callgraph import get as callgraph
    CG = callgraph(P)
    sinks = set(k for k, g in P.functions.items() if g["q"] in ("PHRQ_io::fpunchf", "PHRQ_io::punch_msg", "PHRQ_io::fpunchf_end_row", "Phreeqc::fpunchf",
                                                                  "Phreeqc::fpunchf_user", "Phreeqc::punch_msg", "Phreeqc::fpunchf_end_row", "Phreeqc::fpunchf_heading"))
    if not sinks:
        R.anchor_missing("C05.stream", "punch sinks not found")
        return
    reach = CG.reach_to(sinks)

    def may_punch(n, f):
        for c in T.calls(n):
            if isinstance(c[2], dict) and any(k in reach for k in CG.resolve(c[2], f)):
                return True
        return False

    def is_select(s, scope=None):
        """phrq_io->Set_punch_ostream(<... Get_punch_ostream() of the current block ...>) as a statement"""
        if not (T.is_node(s) and s[0] == "Call" and T.callee_q(s) == "PHRQ_io::Set_punch_ostream" and s[4]):
            return None
        a = s[4][0]
        if T.lit_value(a) == 0 or T.text(a) in ("NULL", "nullptr", "0"):
            return "null"
        if any(T.callee_name(c) == "Get_punch_ostream" for c in T.calls(a)):
            return "block"
        a0 = T.strip_casts(a)
        if scope is not None and a0[0] == "Ref" and a0[2] == "local":
            # a local declared unconditionally in the loop body from the block's Get_punch_ostream()
            for st in scope:
                if T.is_node(st) and st[0] == "Decl":
                    for dd in st[2]:
                        if dd[0] == a0[3] and T.is_node(dd[2]) and any(T.callee_name(c) == "Get_punch_ostream" for c in T.calls(dd[2])):
                            return "block"
        return "other"

    for key, f in sorted(P.functions.items()):
        if not f["q"].startswith("Phreeqc::"):
            continue
        def rec(node, parent_stmts, idx):
            if not T.is_node(node):
                return
            if node[0] == "Compound":
                for i, c in enumerate(node[2]):
                    rec(c, node[2], i)
                return
            if node[0] == "For":
                body = node[5]
                stmts = body[2] if T.is_node(body) and body[0] == "Compound" else [body]
                sets_cur = [i for i, st in enumerate(stmts) if T.is_node(st) and st[0] == "Bin" and st[2] == "=" and
                            T.strip_casts(st[3])[0] == "Member" and T.strip_casts(st[3])[2] == "Phreeqc::current_selected_output"]
                if sets_cur and may_punch(body, f):
                    inst = "%s@%d" % (f["q"].split("::")[-1], node[1])
                    where = dict(file=f["file"], line=node[1], function=f["q"])
                    sel = [i for i, st in enumerate(stmts) if is_select(st, stmts) == "block"]
                    nested = [x for x in T.walk(body) if is_select(x) == "block"]
                    first_punch = next((i for i, st in enumerate(stmts) if i > sets_cur[0] and T.is_node(st) and st[0] != "If" and may_punch(st, f)), None)
                    if first_punch is None:
                        first_punch = next((i for i, st in enumerate(stmts) if i > sets_cur[0] and T.is_node(st) and may_punch(st, f) and
                                            not (st[0] == "If" and all(y[0] in ("Continue",) or not may_punch(y, f) for y in [st[3]]))), None)
                    if not sel:
                        if nested:
                            R.violation("C05.stream", inst, "the block's file stream is installed only conditionally (line %d): a block without a file keeps the stream of the "
                                        "previously punched block and its rows are written into that block's file" % nested[0][1], **where)
                        else:
                            R.violation("C05.stream", inst, "the loop punches per block but never selects the block's file stream", **where)
                    elif first_punch is not None and sel[0] > first_punch:
                        R.violation("C05.stream", inst, "a statement that may punch (line %d) precedes the selection of the block's file stream (line %d)"
                                    % (stmts[first_punch][1], stmts[sel[0]][1]), **where)
                    else:
                        R.ok("C05.stream", inst, "stream selected unconditionally at line %d before the first punching statement" % stmts[sel[0]][1])
                    # detached after the loop
                    after = parent_stmts[idx + 1:] if parent_stmts is not None else []
                    if any(is_select(st) == "null" for st in after):
                        R.ok("C05.stream", inst + ":detach", "stream detached after the loop")
                    else:
                        R.violation("C05.stream", inst + ":detach", "the file stream of the last block stays installed after the loop", **where)
                    return
            for c in T.children(node):
                rec(c, None, 0)
        rec(f["body"], None, 0)


def open_rule(P, R):
    """The selected-output files are opened lazily by do_run.  tidy_punch writes a block's heading line whenever its new_def
    flag is set - also in a simulation with PRINT -selected_output false (it forces the switch on for the headings).  If the
    opening of the files depended on that print switch, the heading would reach the string while the file is still closed."""
    R.rule("C05.open", "do_run opens the selected-output files independently of the engine print switch pr.punch, before tidy_model", minimum=2)
    f = P.one("IPhreeqc::do_run")
    opens = []

    def rec(n, conds):
        if not T.is_node(n):
            return
        if n[0] == "If":
            rec(n[3], conds + [n[2]])
            rec(n[4], conds + [n[2]])
            for c in T.calls(n[2]):
                if T.callee_name(c) == "punch_open":
                    opens.append((c, list(conds)))
            return
        if n[0] == "Call" and T.callee_name(n) == "punch_open":
            opens.append((n, list(conds)))
        for c in T.children(n):
            rec(c, conds)
    rec(f["body"], [])
    if not opens:
        R.anchor_missing("C05.open", "do_run no longer calls punch_open")
        return
    for c, conds in opens:
        dep = [cd for cd in conds if any(y[0] == "Member" and y[2].split("::")[-1] == "punch" and T.is_node(y[3]) and
                                         any(z[0] == "Member" and z[2] == "Phreeqc::pr" for z in T.walk(y[3])) for y in T.walk(cd))]
        if dep:
            R.violation("C05.open", "do_run:punch_open", "the selected-output file is opened only when pr.punch is on (condition at line %d): a heading line written by "
                        "tidy_punch while PRINT -selected_output false is in force reaches the string but not the file" % dep[0][1], file=f["file"], line=c[1], function=f["q"])
        else:
            R.ok("C05.open", "do_run:punch_open", "not control-dependent on pr.punch")
    tm = [c[1] for c in T.calls(f["body"]) if T.callee_q(c) == "Phreeqc::tidy_model"]
    if tm and all(c[1] < min(tm) for c, _ in opens):
        R.ok("C05.open", "do_run:order", "files opened before tidy_model (which may write headings)")
    else:
        R.violation("C05.open", "do_run:order", "punch_open is not called before tidy_model in do_run", file=f["file"], line=opens[0][0][1], function=f["q"])


# ------------------------------------------------------------------------------------------ siblings

FAMILIES = [
    ("IPhreeqc::fpunchf", 3, {"PushBackDouble": "PushBack#", "PushBackString": "PushBack#", "PushBackLong": "PushBack#"}),
    ("PHRQ_io::fpunchf", 3, {}),
    ("Phreeqc::fpunchf", 3, {}),
    ("Phreeqc::fpunchf_user", 2, {}),
    ("PHRQ_io::fpunchf_helper", 2, {"operator<<": "EMIT", "operator+=": "EMIT"}),
]


def sibling_rules(P, R):
    R.rule("C05.siblings", "overload families of the punch path are structurally identical modulo the value type", minimum=9)
    for q, n, sub in FAMILIES:
        fs = fam(P, q)
        if len(fs) != n:
            R.anchor_missing("C05.siblings", "%s: %d overloads found, %d confirmed" % (q, len(fs), n))
            continue
        shapes = []
        for f in fs:
            s = dict(sub)
            for p in f["pnames"]:
                pass
            # the value parameter (last) and for helpers the sink parameter (first) are abstracted
            if f["pnames"]:
                s[f["pnames"][-1]] = "#v"
                if q.endswith("fpunchf_helper"):
                    s[f["pnames"][0]] = "#sink"
            shapes.append(SH.shape(f["body"], s))
        ref = shapes[0]
        for f, sh in zip(fs[1:], shapes[1:]):
            inst = "%s(%s)~(%s)" % (q, fs[0]["params"][-1 if not q.endswith("helper") else 0], f["params"][-1 if not q.endswith("helper") else 0])
            d = SH.first_difference(ref, sh)
            if d is None:
                R.ok("C05.siblings", inst, "identical modulo value type")
            else:
                R.violation("C05.siblings", inst, "overloads of %s differ beyond the value type: %s - the same cell is treated differently depending on its type"
                            % (q, d), file=f["file"], line=f["line"], function=f["q"],
                            path=["%s:%d %s(%s)" % (g["file"], g["line"], g["q"], ",".join(g["params"])) for g in (fs[0], f)])
    # PushBackDouble/Long/String
    pbs = [P.fns_named("CSelectedOutput::PushBack" + t) for t in ("Double", "Long", "String")]
    if any(len(x) != 1 for x in pbs):
        R.anchor_missing("C05.siblings", "CSelectedOutput::PushBackDouble/Long/String not all found")
    else:
        shapes = [SH.shape(x[0]["body"], {x[0]["pnames"][-1]: "#v"}) for x in pbs]
        for x, sh in zip(pbs[1:], shapes[1:]):
            d = SH.first_difference(shapes[0], sh)
            inst = "CSelectedOutput::PushBackDouble~%s" % x[0]["q"].split("::")[-1]
            if d is None:
                R.ok("C05.siblings", inst, "identical modulo value type")
            else:
                R.violation("C05.siblings", inst, "typed PushBack wrappers differ: %s" % d, file=x[0]["file"], line=x[0]["line"], function=x[0]["q"])


# ------------------------------------------------------------------------------------------ tri-sink

def trisink_rules(P, R):
    R.rule("C05.trisink", "IPhreeqc::fpunchf: same (name, format, value) to file, string (under its switch) and table (always), keyed by the block punched", minimum=15)
    want = {"double": "PushBackDouble", "char *": "PushBackString", "int": "PushBackLong"}
    for f in fam(P, "IPhreeqc::fpunchf"):
        vt = f["params"][-1]
        pn = f["pnames"]
        set_aliases(f)
        inst0 = "IPhreeqc::fpunchf(%s)" % vt
        where = dict(file=f["file"], line=f["line"], function=f["q"])
        body = f["body"]
        trys = [s for s in body[2] if T.is_node(s) and s[0] == "Try"]
        if len(trys) != 1:
            R.anchor_missing("C05.trisink", "%s: expected one try block" % inst0)
            continue
        st = [s for s in trys[0][2][2] if T.is_node(s)]
        calls = [s for s in st if s[0] == "Call"]
        ifs = [s for s in st if s[0] == "If"]
        # (1) file sink
        c1 = [c for c in calls if T.callee_q(c) == "PHRQ_io::fpunchf"]
        ok1 = len(c1) == 1 and [param_name(a) for a in c1[0][4]] == pn and isinstance(c1[0][2], dict) and c1[0][2].get("k") != "virtual"
        (R.ok if ok1 else lambda *a, **k: R.violation("C05.trisink", inst0 + ":file", "the file sink PHRQ_io::fpunchf(name, format, value) is not called exactly once, "
                                                      "unconditionally, with the unmodified parameters", **where))("C05.trisink", inst0 + ":file", "PHRQ_io::fpunchf(%s)" % ", ".join(pn))
        # (3) table sink
        pb = [c for c in calls if T.callee_name(c).startswith("PushBack")]
        ok3 = False
        key_tab = None
        if len(pb) == 1:
            c = pb[0]
            args = [param_name(a) for a in c[4]]
            if T.callee_name(c) == want.get(vt) and args == [pn[0], pn[-1]]:
                root, steps = T.access_path(c[3])
                if steps and steps[0] == ("f", "IPhreeqc::SelectedOutputMap"):
                    ok3 = True
                    key_tab = map_key_text(c[3])
        if ok3:
            R.ok("C05.trisink", inst0 + ":table", "%s(name, value) on SelectedOutputMap[%s]" % (want[vt], key_tab))
        else:
            R.violation("C05.trisink", inst0 + ":table", "the table sink is not exactly one unconditional %s(name, value) on SelectedOutputMap[block]" % want.get(vt),
                        **where)
        # (2) string sink
        ok2 = False
        key_str = key_cond = None
        if len(ifs) == 1:
            i = ifs[0]
            cnd = T.strip_casts(i[2])
            if cnd[0] == "Bin" and cnd[2] == "&&":
                l, r = T.strip_casts(cnd[3]), T.strip_casts(cnd[4])
                if l[0] == "Call" and T.callee_name(l) == "get_sel_out_string_on" and r[0] == "Member" and r[2] == "PHRQ_io::punch_on":
                    key_cond = T.text(l[4][0])
                    hs = [c for c in T.calls(i[3]) if T.callee_name(c) == "fpunchf_helper"]
                    if len(hs) == 1 and not T.is_node(i[4]):
                        h = hs[0]
                        if [param_name(a) for a in h[4][1:]] == pn[1:]:
                            root, steps = T.access_path(h[4][0])
                            if steps and steps[0] == ("f", "IPhreeqc::SelectedOutputStringMap"):
                                ok2 = True
                                key_str = map_key_text(h[4][0])
        if ok2:
            R.ok("C05.trisink", inst0 + ":string", "fpunchf_helper(&SelectedOutputStringMap[%s], format, value) under get_sel_out_string_on(%s) && punch_on" % (key_str, key_cond))
        else:
            R.violation("C05.trisink", inst0 + ":string", "the string sink is not `if (get_sel_out_string_on(block) && punch_on) fpunchf_helper(&SelectedOutputStringMap[block], format, value)`",
                        **where)
        # same key everywhere, and it is the block being punched
        keys = [k for k in (key_tab, key_str, key_cond) if k]
        if ok2 and ok3:
            if len(set(keys)) == 1 and "current_selected_output" in keys[0] and "Get_n_user" in keys[0]:
                R.ok("C05.trisink", inst0 + ":key", keys[0])
            else:
                R.violation("C05.trisink", inst0 + ":key", "the three sinks are not keyed by the same block (PhreeqcPtr->current_selected_output->Get_n_user()): %s" % keys, **where)
        # order: file, string, table
        order = []
        for s in st:
            if s[0] == "Call" and T.callee_q(s) == "PHRQ_io::fpunchf":
                order.append("file")
            elif s[0] == "If":
                order.append("string")
            elif s[0] == "Call" and T.callee_name(s).startswith("PushBack"):
                order.append("table")
        if order == ["file", "string", "table"]:
            R.ok("C05.trisink", inst0 + ":order", "file, string, table")
        else:
            R.violation("C05.trisink", inst0 + ":order", "sinks are served in order %s (expected file, string, table; an exception between them leaves the views unequal)" % order, **where)
    # punch_msg: raw text (headings, end of line) to string and file
    f = P.one("IPhreeqc::punch_msg")
    set_aliases(f)
    ok = False
    for s in f["body"][2]:
        if T.is_node(s) and s[0] == "If":
            cnd = T.strip_casts(s[2])
            if cnd[0] == "Bin" and cnd[2] == "&&" and any(T.callee_name(c) == "get_sel_out_string_on" for c in T.calls(cnd)):
                for tgt, how, line, node in T.writes(s[3]):
                    root, steps = T.access_path(tgt)
                    if steps and steps[0] == ("f", "IPhreeqc::SelectedOutputStringMap") and node[0] == "Call" and T.callee_name(node) == "operator+=" \
                            and param_name(node[4][-1]) == f["pnames"][0]:
                        ok = True
    base = [c for c in T.calls(f["body"]) if T.callee_q(c) == "PHRQ_io::punch_msg" and [param_name(a) for a in c[4]] == f["pnames"]]
    top = [s for s in f["body"][2] if T.is_node(s) and s[0] == "Call" and T.callee_q(s) == "PHRQ_io::punch_msg"]
    if ok and len(base) == 1 and len(top) == 1:
        R.ok("C05.trisink", "IPhreeqc::punch_msg", "str appended to the block's string under its switch; PHRQ_io::punch_msg(str) unconditionally")
    else:
        R.violation("C05.trisink", "IPhreeqc::punch_msg", "punch_msg does not pass the unmodified text to both the string (under its switch) and the file sink (unconditionally)",
                    file=f["file"], line=f["line"], function=f["q"])
    # end of row reaches the table
    e = P.one("IPhreeqc::fpunchf_end_row")
    er = P.one("IPhreeqc::EndRow")
    if any(T.callee_q(c) == "IPhreeqc::EndRow" for c in T.calls(e["body"])) and any(T.callee_q(c) == "CSelectedOutput::EndRow" for c in T.calls(er["body"])):
        R.ok("C05.trisink", "fpunchf_end_row", "fpunchf_end_row -> IPhreeqc::EndRow -> CSelectedOutput::EndRow")
    else:
        R.violation("C05.trisink", "fpunchf_end_row", "the end-of-row event no longer reaches CSelectedOutput::EndRow", file=e["file"], line=e["line"], function=e["q"])


_ALIASES = {}


def set_aliases(f):
    """locals that are plain copies of a parameter (`const char *s = str;`, never re-assigned) denote that parameter"""
    global _ALIASES
    al = {}
    written = set()
    for t, how, l, n in T.writes(f["body"]):
        root, steps = T.access_path(t)
        if root[0] == "local" and not steps:
            written.add(root[1])
    for x in T.walk(f["body"]):
        if x[0] == "Decl":
            for d in x[2]:
                i = T.strip_casts(d[2]) if T.is_node(d[2]) else None
                if T.is_node(i) and i[0] == "Ref" and i[2] == "param" and d[0] not in written:
                    al[d[0]] = i[3]
    _ALIASES = al
    return al


def param_name(a):
    a = T.strip_casts(a)
    if T.is_node(a) and a[0] == "Ref" and a[2] == "param":
        return a[3]
    if T.is_node(a) and a[0] == "Ref" and a[2] == "local" and a[3] in _ALIASES:
        return _ALIASES[a[3]]
    return None


def map_key_text(n):
    """text of the key expression of  M[key]  /  &M[key] / M[key]->"""
    for x in T.walk(n):
        if x[0] == "Call" and T.callee_name(x) == "operator[]" and len(x[4]) == 2:
            return T.text(x[4][1])
    return None


# ------------------------------------------------------------------------------------------ who-may

def who_rules(P, R):
    R.rule("C05.who", "table cells, selected-output strings and the file stream are written only by the punch path and the reset code", minimum=8)
    cg = callgraph(P)
    allowed_callers = {
        "CSelectedOutput::PushBackDouble": {"IPhreeqc::fpunchf"}, "CSelectedOutput::PushBackString": {"IPhreeqc::fpunchf"},
        "CSelectedOutput::PushBackLong": {"IPhreeqc::fpunchf"}, "CSelectedOutput::PushBackEmpty": {"IPhreeqc::EndRow"},
        "CSelectedOutput::PushBack": {"CSelectedOutput::PushBackDouble", "CSelectedOutput::PushBackString", "CSelectedOutput::PushBackLong", "CSelectedOutput::PushBackEmpty"},
        "CSelectedOutput::EndRow": {"IPhreeqc::EndRow"},
        "IPhreeqc::EndRow": {"IPhreeqc::fpunchf_end_row"},
    }
    for callee, allowed in sorted(allowed_callers.items()):
        keys = P.by_q.get(callee, [])
        if not keys:
            R.anchor_missing("C05.who", "%s not found" % callee)
            continue
        callers = set()
        for k in keys:
            for c in cg.callers.get(k, ()):
                callers.add(P.functions[c]["q"])
        # CSelectedOutput::DeSerialize rebuilds a table from its own serialized form (no file/string view exists for it)
        bad = sorted(callers - allowed - {"CSelectedOutput::DeSerialize"})
        if bad:
            f = P.fns_named(bad[0])[0]
            R.violation("C05.who", callee, "%s is also called by %s: table cells are produced outside the single punch call that also feeds file and string" % (callee, bad),
                        file=f["file"], line=f["line"], function=f["q"])
        else:
            R.ok("C05.who", callee, "callers: %s" % sorted(callers))
    # appends to the selected-output string / writes to punch_ostream
    app, fil = {}, {}
    for key, f in P.functions.items():
        for tgt, how, line, node in T.writes(f["body"]):
            root, steps = T.access_path(tgt)
            if steps and steps[0] == ("f", "IPhreeqc::SelectedOutputStringMap"):
                if how in ("call:operator+=", "call:append", "addr", "ref", "call:operator<<", "op="):
                    app.setdefault(f["q"], line)
            if steps and steps[0] == ("f", "PHRQ_io::punch_ostream") and how in ("call:operator<<", "call:write", "call:put"):
                fil.setdefault(f["q"], line)
        for c in T.calls(f["body"]):
            if T.callee_name(c) == "fpunchf_helper" and c[4]:
                root, steps = T.access_path(c[4][0])
                if steps and steps[0] == ("f", "PHRQ_io::punch_ostream"):
                    fil.setdefault(f["q"], c[1])
    for name, got, allowed in (("SelectedOutputStringMap appenders", app, {"IPhreeqc::fpunchf", "IPhreeqc::punch_msg"}),
                               ("punch_ostream writers", fil, {"PHRQ_io::punch_msg", "PHRQ_io::fpunchf"})):
        bad = sorted(set(got) - allowed)
        if not got:
            R.anchor_missing("C05.who", "%s: none found" % name)
        elif bad:
            f = P.fns_named(bad[0])[0]
            R.violation("C05.who", name, "%s also writes this sink directly (line %d): one view receives content the others do not" % (bad, got[bad[0]]),
                        file=f["file"], line=got[bad[0]], function=f["q"])
        else:
            R.ok("C05.who", name, ", ".join(sorted(got)))


# ------------------------------------------------------------------------------------------ Get

def get_rules(P, R):
    R.rule("C05.get", "CSelectedOutput::Get and IPhreeqc::GetSelectedOutputValue: checks before subscripts, error-typed VAR, total result mapping", minimum=7)
    fs = [f for f in P.fns_named("CSelectedOutput::Get") if len(f["params"]) == 3]
    if len(fs) != 1:
        R.anchor_missing("C05.get", "CSelectedOutput::Get(int,int,VAR*) not found")
        return
    f = fs[0]
    where = dict(file=f["file"], line=f["line"], function=f["q"])
    st = [s for s in f["body"][2] if T.is_node(s)]
    row, col, pv = f["pnames"]
    # const method
    rec = P.records.get("CSelectedOutput")
    m = [x for x in rec["methods"] if x["name"] == "Get" and len(x["params"]) == 3]
    if m and m[0]["const"]:
        R.ok("C05.get", "Get:const", "Get is a const method: it cannot modify the table")
    else:
        R.violation("C05.get", "Get:const", "CSelectedOutput::Get is no longer const: a look-up may modify the table", **where)
    # first: VarClear
    ok = bool(st) and st[0][0] == "If" and any(T.callee_name(c) == "VarClear" for c in T.calls(st[0][2])) and returns_enum(st[0][3], "VR_BADVARTYPE")
    if ok:
        R.ok("C05.get", "Get:clear-first", "VarClear(pVAR) first; VR_BADVARTYPE on failure")
    else:
        R.violation("C05.get", "Get:clear-first", "Get does not begin by clearing the caller's VAR (VarClear) and returning VR_BADVARTYPE on failure", **where)

    # locals holding a count: `size_t nrows = this->GetRowCount();`
    count_locals = {}
    for x in T.walk(f["body"]):
        if x[0] == "Decl":
            for d in x[2]:
                if T.is_node(d[2]):
                    for cc in T.calls(d[2]):
                        if T.callee_name(cc) in ("GetRowCount", "GetColCount"):
                            count_locals[d[0]] = T.callee_name(cc)

    def measures(n, count_fn):
        if any(T.callee_name(cc) == count_fn for cc in T.calls(n)):
            return True
        return any(y[0] == "Ref" and y[2] == "local" and count_locals.get(y[3]) == count_fn for y in T.walk(n))

    def guard_index(param, count_fn, code):
        for i, s in enumerate(st):
            if s[0] != "If":
                continue
            c = T.strip_casts(s[2])
            parts = flatten_or(c)
            has_hi = any(p[0] == "Bin" and p[2] == ">=" and param_name(p[3]) == param and measures(p[4], count_fn) for p in parts)
            has_lo = any(p[0] == "Bin" and p[2] == "<" and param_name(p[3]) == param and T.lit_value(p[4]) == 0 for p in parts)
            if has_hi or has_lo:
                sets_type = any(is_field(t, "type") and how == "=" and enum_name(n[4]) == "TT_ERROR" for t, how, l, n in T.writes(s[3]))
                sets_code = any(is_field(t, "vresult") and how == "=" and enum_name(n[4]) == code for t, how, l, n in T.writes(s[3]))
                rets = any(y[0] == "Return" for y in T.walk(s[3]))
                return i, has_hi, has_lo, sets_type, sets_code, rets
        return None
    first_sub = None
    for i, s in enumerate(st):
        for x in T.walk(s):
            if (x[0] == "Index" or (x[0] == "Call" and T.callee_name(x) in ("operator[]", "at"))) and any(
                    y[0] == "Ref" and y[2] == "param" and y[3] in (row, col) for y in T.walk(x)):
                if first_sub is None:
                    first_sub = i
    for param, cnt, code, nm in ((row, "GetRowCount", "VR_INVALIDROW", "row"), (col, "GetColCount", "VR_INVALIDCOL", "col")):
        g = guard_index(param, cnt, code)
        inst = "Get:%s" % nm
        if g is None:
            R.violation("C05.get", inst, "no range check of the %s index" % nm, **where)
            continue
        i, hi, lo, ty, cd, rt = g
        probs = []
        if not hi:
            probs.append("no `>= %s()` test" % cnt)
        if not lo:
            probs.append("no `< 0` test")
        if not ty:
            probs.append("failing branch does not set type = TT_ERROR")
        if not cd:
            probs.append("failing branch does not set vresult = %s" % code)
        if not rt:
            probs.append("failing branch does not return")
        if first_sub is not None and first_sub <= i:
            probs.append("a subscript with the index precedes the check")
        if probs:
            R.violation("C05.get", inst, "%s index: %s" % (nm, "; ".join(probs)), file=f["file"], line=st[i][1], function=f["q"])
        else:
            R.ok("C05.get", inst, ">= %s() || < 0 -> TT_ERROR/%s, before any subscript" % (cnt, code))
    # IPhreeqc::GetSelectedOutputValue
    g = P.one("IPhreeqc::GetSelectedOutputValue")
    whereg = dict(file=g["file"], line=g["line"], function=g["q"])
    vres = None
    for e in P.enums.values():
        names = [x[0].split("::")[-1] for x in e["enumerators"]]
        if "VR_INVALIDROW" in names:
            vres = names
    if vres is None:
        R.anchor_missing("C05.get", "enum VRESULT not found")
        return
    sw = [x for x in T.walk(g["body"]) if x[0] == "Switch"]
    if len(sw) != 1:
        R.anchor_missing("C05.get", "GetSelectedOutputValue: expected one switch over the result")
        return
    labels = set()
    for x in T.walk(sw[0][3]):
        if x[0] == "Case":
            labels.add(enum_name(x[2]))
    missing = [v for v in vres if v not in labels and v != "VR_BADINSTANCE"]
    if missing:
        R.violation("C05.get", "GetSelectedOutputValue:total", "result switch has no case for %s" % missing, **whereg)
    else:
        R.ok("C05.get", "GetSelectedOutputValue:total", "cases for %s" % sorted(labels))
    # each error case records an error and refreshes the error views
    for x in T.walk(sw[0][3]):
        if x[0] == "Case":
            nm = enum_name(x[2])
            if nm in ("VR_INVALIDROW", "VR_INVALIDCOL", "VR_OUTOFMEMORY", "VR_BADVARTYPE"):
                pass
    # unknown user number branch
    ifs = [s for s in g["body"][2] if T.is_node(s) and s[0] == "If" and any(T.callee_name(c) == "end" for c in T.calls(s[2]))]
    if len(ifs) != 1 or not T.is_node(ifs[0][4]):
        R.anchor_missing("C05.get", "GetSelectedOutputValue: look-up `if (ci != end) ... else ...` not found")
        return
    els = ifs[0][4]
    uses_tab = any(T.callee_name(c) in ("Get", "operator[]") and "SelectedOutput" in T.text(c) for c in T.calls(els))
    sets = any(T.strip_casts(t)[0] == "Ref" and T.strip_casts(t)[3] == "v" and enum_name(n[4]) == "VR_INVALIDARG" for t, how, l, n in T.writes(els) if n[0] == "Bin")
    if sets and not uses_tab:
        R.ok("C05.get", "GetSelectedOutputValue:unknown-user-number", "VR_INVALIDARG, no table access")
    else:
        R.violation("C05.get", "GetSelectedOutputValue:unknown-user-number", "the unknown-user-number branch does not return VR_INVALIDARG without touching a table", **whereg)
    # ... and hands back an error-typed VAR, like the out-of-range branches of Get do
    typed = any(is_field(t, "type") and enum_name(n[4]) == "TT_ERROR" for t, how, l, n in T.writes(els) if n[0] == "Bin")
    if typed:
        R.ok("C05.get", "GetSelectedOutputValue:unknown-user-number:var", "VAR set to TT_ERROR")
    else:
        R.violation("C05.get", "GetSelectedOutputValue:unknown-user-number:var",
                    "for an unknown user number the caller's VAR is left untouched (not error-typed) although the call fails with VR_INVALIDARG; the out-of-range "
                    "branches return TT_ERROR", file=g["file"], line=els[1], function=g["q"])


def flatten_or(c):
    c = T.strip_casts(c)
    if T.is_node(c) and c[0] == "Bin" and c[2] == "||":
        return flatten_or(c[3]) + flatten_or(c[4])
    return [c]


def enum_name(n):
    n = T.strip_casts(n)
    if T.is_node(n) and n[0] == "Ref" and n[2] == "enum":
        return n[3].split("::")[-1]
    return None


def is_field(t, name):
    t = T.strip_casts(t)
    return T.is_node(t) and t[0] == "Member" and t[2].split("::")[-1] == name


def returns_enum(n, name):
    return any(y[0] == "Return" and enum_name(y[2]) == name for y in T.walk(n))


# ------------------------------------------------------------------------------------------ padding

def pad_rules(P, R):
    R.rule("C05.pad", "late columns are padded to the current row count; EndRow pads every column", minimum=3)
    f = P.one("CSelectedOutput::PushBack")
    where = dict(file=f["file"], line=f["line"], function=f["q"])
    newkey = None
    for x in T.walk(f["body"]):
        if x[0] == "If" and any(T.callee_name(c) == "end" for c in T.calls(x[2])) and any(
                y[0] == "Member" and y[2] == "CSelectedOutput::m_mapHeadingToCol" for y in T.walk(x[2])):
            newkey = x
            break
    if newkey is None:
        R.anchor_missing("C05.pad", "PushBack: new-key test not found")
    else:
        st = [s for s in newkey[3][2] if T.is_node(s)] if newkey[3][0] == "Compound" else []
        order = []
        for s in st:
            txt = T.text(s)
            if s[0] == "If" and any(y[0] == "Member" and y[2] == "CSelectedOutput::m_nRowCount" for y in T.walk(s[2])) and any(
                    T.callee_name(c) == "resize" and any(y[0] == "Member" and y[2] == "CSelectedOutput::m_nRowCount" for a in c[4] for y in T.walk(a)) for c in T.calls(s[3])):
                order.append("pad")
            elif s[0] == "Call" and T.callee_name(s) == "push_back" and any(y[0] == "Member" and y[2] == "CSelectedOutput::m_arrayVar" for y in T.walk(s[3] if T.is_node(s[3]) else s)):
                if any(T.callee_name(c) == "back" for c in T.calls(s)):
                    order.append("cell")
            elif s[0] == "Call" and T.callee_name(s) == "push_back" and any(y[0] == "Member" and y[2] == "CSelectedOutput::m_vecVarHeadings" for y in T.walk(s)):
                order.append("heading")
            elif s[0] == "Call" and T.callee_name(s) == "insert" and any(y[0] == "Member" and y[2] == "CSelectedOutput::m_mapHeadingToCol" for y in T.walk(s)):
                order.append("map")
            elif s[0] == "Call" and T.callee_name(s) == "resize" and any(y[0] == "Member" and y[2] == "CSelectedOutput::m_arrayVar" for y in T.walk(s)):
                order.append("column")
        for need in ("map", "heading", "column", "pad", "cell"):
            if need not in order:
                R.violation("C05.pad", "PushBack:new-column:%s" % need, "a new column is created without the `%s` step (steps found: %s)" % (need, order), **where)
                break
        else:
            if order.index("pad") < order.index("cell") and order.index("column") < order.index("pad"):
                R.ok("C05.pad", "PushBack:new-column", "map, heading, column, pad to m_nRowCount, then the cell")
            else:
                R.violation("C05.pad", "PushBack:new-column", "a late-appearing column is not padded to the current row count before its first cell (order %s)" % order, **where)
        # heading index = column index: the map value inserted is the map's previous size and headings/columns are appended
        ins = [c for c in T.calls(newkey[3]) if T.callee_name(c) == "insert"]
        if ins and any(T.callee_name(c) == "size" and any(y[0] == "Member" and y[2] == "CSelectedOutput::m_mapHeadingToCol" for y in T.walk(c)) for c in T.calls(ins[0])):
            R.ok("C05.pad", "PushBack:column-index", "new key maps to the previous number of columns")
        else:
            R.violation("C05.pad", "PushBack:column-index", "a new heading is not mapped to the index of the column appended for it", **where)
    g = P.one("CSelectedOutput::EndRow")
    whereg = dict(file=g["file"], line=g["line"], function=g["q"])
    loops = [x for x in T.walk(g["body"]) if x[0] == "For"]
    inc = [n for t, how, l, n in T.writes(g["body"]) if is_field(t, "m_nRowCount") and how == "++"]
    ok = False
    if len(loops) == 1 and len(inc) == 1:
        lp = loops[0]
        noexit = not any(y[0] in ("Break", "Continue", "Return", "Goto") for y in T.walk(lp[5]))
        rs = [c for c in T.calls(lp[5]) if T.callee_name(c) == "resize" and any(y[0] == "Member" and y[2] == "CSelectedOutput::m_nRowCount" for a in c[4] for y in T.walk(a))]
        bound = any(T.callee_name(c) == "GetColCount" for c in T.calls(g["body"]))
        before = inc[0][1] <= lp[1]
        ok = noexit and len(rs) == 1 and bound and before
    if ok:
        R.ok("C05.pad", "EndRow", "++m_nRowCount, then every column resized to it (no early exit)")
    else:
        R.violation("C05.pad", "EndRow", "EndRow does not increment the row count once and then pad every column to it in a loop without early exit", **whereg)


# ------------------------------------------------------------------------------------------ VAR

def var_rules(P, R):
    R.rule("C05.var", "VarClear / VarCopy total over VAR_TYPE; VarCopy clears the destination and deep-copies strings", minimum=4)
    vt = None
    for e in P.enums.values():
        names = [x[0].split("::")[-1] for x in e["enumerators"]]
        if "TT_EMPTY" in names and "TT_STRING" in names:
            vt = names
    if vt is None:
        R.anchor_missing("C05.var", "enum VAR_TYPE not found")
        return
    for q in ("VarClear", "VarCopy"):
        fs = P.fns_named(q)
        if len(fs) != 1:
            R.anchor_missing("C05.var", "%s: %d definitions" % (q, len(fs)))
            continue
        f = fs[0]
        sw = [x for x in T.walk(f["body"]) if x[0] == "Switch"]
        labels = set(enum_name(x[2]) for s in sw for x in T.walk(s[3]) if x[0] == "Case")
        miss = [v for v in vt if v not in labels]
        if miss:
            R.violation("C05.var", q + ":total", "%s has no case for VAR type(s) %s" % (q, miss), file=f["file"], line=f["line"], function=f["q"])
        else:
            R.ok("C05.var", q + ":total", "cases for %s" % sorted(labels))
    f = P.fns_named("VarCopy")
    if f:
        f = f[0]
        st = [s for s in f["body"][2] if T.is_node(s)]
        # a leading `if (dest == src) return ...;` (copying a VAR onto itself keeps it, fix a049ee32) is not a store: the first statement that
        # does anything to the destination must still be VarClear(dest)
        while st and st[0][0] == "If" and not T.is_node(st[0][4]) and T.is_node(T.strip_casts(st[0][2])) and T.strip_casts(st[0][2])[0] == "Bin" \
                and T.strip_casts(st[0][2])[2] == "==" and {param_name(T.strip_casts(st[0][2])[3]), param_name(T.strip_casts(st[0][2])[4])} == set(f["pnames"][:2]) \
                and any(y[0] == "Return" for y in T.walk(st[0][3])) and not list(T.writes(st[0][3])):
            st = st[1:]
        first_clear = bool(st) and st[0][0] == "Call" and T.callee_name(st[0]) == "VarClear" and param_name(st[0][4][0]) == f["pnames"][0]
        deep = any(T.callee_name(c) == "VarAllocString" for c in T.calls(f["body"]))
        if first_clear and deep:
            R.ok("C05.var", "VarCopy:deep", "destination cleared first; strings duplicated with VarAllocString")
        else:
            R.violation("C05.var", "VarCopy:deep", "VarCopy does not clear the destination first or does not duplicate strings", file=f["file"], line=f["line"], function=f["q"])
    f = P.fns_named("VarClear")
    if f:
        f = f[0]
        frees = any(T.callee_name(c) == "VarFreeString" for c in T.calls(f["body"]))
        init = any(T.callee_name(c) == "VarInit" for c in T.calls(f["body"]))
        if frees and init:
            R.ok("C05.var", "VarClear:free", "string freed, VAR re-initialised")
        else:
            R.violation("C05.var", "VarClear:free", "VarClear does not free the string and re-initialise the VAR", file=f["file"], line=f["line"], function=f["q"])


def upgate_rule(P, R):
    """USER_PUNCH columns exist in all three sinks or in none: the headings go to the file / string in tidy_punch, the values in
    punch_user_punch, the padding of never-punched headings into the value table in IPhreeqc::EndRow.  Each of the three tests the
    presence of a USER_PUNCH block (current_user_punch) AND the block's -user_punch switch (Get_user_punch()); a site that tests only
    the first adds columns to its sink that the others do not have."""
    RULE = "C05.upgate"
    R.rule(RULE, "the three sites that emit USER_PUNCH columns (headings, values, table padding) test current_user_punch and the -user_punch switch alike", minimum=4)
    SITES = ("Phreeqc::tidy_punch", "Phreeqc::punch_user_punch", "IPhreeqc::EndRow")
    n = 0
    for q in SITES:
        fs = P.fns_named(q)
        if not fs:
            R.anchor_missing(RULE, "%s not found" % q)
            continue
        f = fs[0]
        conds = [x for x in T.walk(f["body"]) if x[0] == "If" and any(y[0] == "Member" and y[2] == "Phreeqc::current_user_punch" for y in T.walk(x[2]))]
        if not conds:
            R.anchor_missing(RULE, "%s no longer tests current_user_punch" % q)
            continue
        for x in conds:
            n += 1
            inst = "%s@%d" % (q.split("::")[-1], x[1])
            if any(T.callee_name(c) == "Get_user_punch" for c in T.calls(x[2])):
                R.ok(RULE, inst, "tests the block and its -user_punch switch")
            else:
                R.violation(RULE, inst, "`%s` tests only the presence of a USER_PUNCH block, not the -user_punch switch of the SELECTED_OUTPUT block: with `-user_punch false` this sink "
                            "gets the USER_PUNCH columns and the others do not" % T.text(x[2])[:70], file=f["file"], line=x[1], function=f["q"])
    if n < 3:
        R.anchor_missing(RULE, "only %d gated sites found" % n)
    # the padding loop of EndRow runs from n_user_punch_index (the number of cells the program punched in this row, 0 when it
    # executed no PUNCH) to the number of headings: it must run for every index >= 0, a row without PUNCH included, otherwise
    # the table misses columns the heading line has (and a row with no cell at all is not counted)
    fs = P.fns_named("IPhreeqc::EndRow")
    if fs:
        f = fs[0]
        loops = []

        def rec(node, conds):
            if not T.is_node(node):
                return
            if node[0] == "For" and any(y[0] == "Member" and y[2] == "Phreeqc::n_user_punch_index" for y in T.walk(node[2]) if T.is_node(node[2])):
                loops.append((node, list(conds)))
            if node[0] == "If":
                rec(node[3], conds + [node[2]])
                rec(node[4], conds)
                return
            for ch in T.children(node):
                rec(ch, conds)
        rec(f["body"], [])
        if len(loops) != 1:
            R.anchor_missing(RULE, "EndRow: %d padding loops starting at n_user_punch_index" % len(loops))
        else:
            loop, conds = loops[0]

            def conj(c):
                c = T.strip_casts(c)
                if T.is_node(c) and c[0] == "Paren":
                    return conj(c[2])
                if T.is_node(c) and c[0] == "Bin" and c[2] == "&&":
                    return conj(c[3]) + conj(c[4])
                return [c]

            def val(e, idx):
                e = T.strip_casts(e)
                if T.is_node(e) and e[0] == "Paren":
                    return val(e[2], idx)
                if T.is_node(e) and e[0] == "Member" and e[2] == "Phreeqc::n_user_punch_index":
                    return idx
                if T.is_node(e) and e[0] == "Un" and e[2] == "-":
                    v = val(e[3], idx)
                    return None if v is None else -v
                return T.lit_value(e)
            bad = None
            undec = None
            for c in conds:
                for k in conj(c):
                    if not any(y[0] == "Member" and y[2] == "Phreeqc::n_user_punch_index" for y in T.walk(k)):
                        continue
                    for idx in (0, 1):
                        r = None
                        if k[0] == "Bin" and k[2] in (">", ">=", "<", "<=", "==", "!="):
                            a, b = val(k[3], idx), val(k[4], idx)
                            if a is not None and b is not None:
                                r = {">": a > b, ">=": a >= b, "<": a < b, "<=": a <= b, "==": a == b, "!=": a != b}[k[2]]
                        elif k[0] == "Member":
                            r = bool(idx)
                        if r is None:
                            undec = k
                        elif not r:
                            bad = (k, idx)
            if bad:
                R.violation(RULE, "EndRow:padding", "the padding of never-punched USER_PUNCH headings is skipped when n_user_punch_index == %d (`%s`): in a row where the program executed no PUNCH "
                            "the table gets no cells for the headings that the string and file have" % (bad[1], T.text(bad[0])[:60]), file=f["file"], line=loop[1], function=f["q"])
            elif undec is not None:
                R.anchor_missing(RULE, "EndRow: guard `%s` of the padding loop cannot be evaluated" % T.text(undec)[:60])
            else:
                R.ok(RULE, "EndRow:padding", "padding loop runs for every n_user_punch_index >= 0 (guards mentioning the index hold at 0 and 1)")


def rowend_rule(P, R):
    """"equal numbers of data rows": a selected-output line is ended in the string / file by punch_msg("\\n") and in the value table by
    fpunchf_end_row().  Every engine function that ends a line must end the row as well."""
    RULE = "C05.rowend"
    R.rule(RULE, "every engine function that ends a selected-output line (punch_msg(\"\\n\")) also ends the table row (fpunchf_end_row)", minimum=2)
    n = 0
    for key, f in sorted(P.functions.items()):
        if not f.get("body") or not f["q"].startswith("Phreeqc::"):
            continue
        ends = [c for c in T.calls(f["body"]) if T.callee_name(c) == "punch_msg" and c[4] and T.strip_casts(c[4][0])[0] == "Lit" and str(T.strip_casts(c[4][0])[3]).strip('"') in ("\\n", "\n")]
        if not ends:
            continue
        n += 1
        inst = f["q"].split("::")[-1]
        if any(T.callee_name(c) == "fpunchf_end_row" for c in T.calls(f["body"])):
            R.ok(RULE, inst, "line end and row end")
        else:
            R.violation(RULE, inst, "%s ends the selected-output line in the string and the file but never ends the table row: the string has one line per punched record, the "
                        "table keeps the cells pending (successive records overwrite each other, a later ordinary row absorbs them)" % inst,
                        file=f["file"], line=ends[0][1], function=f["q"])
    if n < 2:
        R.anchor_missing(RULE, "only %d line-ending punch functions found (punch_all, punch_model)" % n)


def varalloc_rule(P, R):
    """A string cell holds its text, the empty string included: VarAllocString duplicates every non-NULL source.  Its callers
    (CVar::operator=(const char*), VarCopy) read a NULL result for a non-NULL source as an allocation failure and store an
    error-typed VAR.  So the only early `return NULL` allowed before the allocation is the one guarded by a null test of the source."""
    RULE = "C05.varalloc"
    R.rule(RULE, "VarAllocString returns NULL early only for a NULL source; callers turn any other NULL into an error-typed VAR", minimum=2)
    fs = P.fns_named("VarAllocString")
    if len(fs) != 1:
        R.anchor_missing(RULE, "VarAllocString: %d definitions" % len(fs))
        return
    f = fs[0]
    src = f["pnames"][0]
    where = dict(file=f["file"], function=f["q"])

    def is_null_test_of_src(c):
        c = T.strip_casts(c)
        if c[0] == "Paren":
            return is_null_test_of_src(c[2])
        if c[0] == "Un" and c[2] == "!" and param_name(c[3]) == src:
            return True
        if c[0] == "Bin" and c[2] == "==":
            a, b = T.strip_casts(c[3]), T.strip_casts(c[4])
            return (param_name(a) == src and b[0] == "Lit" and str(b[3]) in ("0", "NULL", "nullptr")) or (param_name(b) == src and a[0] == "Lit" and str(a[3]) in ("0", "NULL", "nullptr"))
        return False
    malloc_line = min([c[1] for c in T.calls(f["body"]) if T.callee_name(c) in ("malloc", "calloc", "strdup")] or [10 ** 9])
    if malloc_line == 10 ** 9:
        R.anchor_missing(RULE, "VarAllocString no longer allocates with malloc/calloc/strdup")
        return
    bad = []
    n = 0
    for x in T.walk(f["body"]):
        if x[0] == "If" and x[1] <= malloc_line and any(y[0] == "Return" and T.is_node(y[2]) and T.strip_casts(y[2])[0] == "Lit" for y in T.walk(x[3])):
            n += 1
            if not is_null_test_of_src(x[2]):
                bad.append(x)
    if bad:
        R.violation(RULE, "VarAllocString:early-null", "VarAllocString returns NULL under `%s`, not only for a NULL source: for that source the callers store an error-typed VAR "
                    "(VR_OUTOFMEMORY) in the value table while the string, the lines and the file show the text cell" % T.text(bad[0][2])[:60], line=bad[0][1], **where)
    else:
        R.ok(RULE, "VarAllocString:early-null", "%d early NULL return(s), each guarded by a null test of the source" % n)
    # callers: NULL for a non-NULL source -> error-typed VAR
    callers = [g for g in P.functions.values() if g.get("body") and any(T.callee_name(c) == "VarAllocString" for c in T.calls(g["body"])) and g["q"] != "VarAllocString"]
    R.ok(RULE, "callers", "%d callers (%s)" % (len(callers), ", ".join(sorted(set(g["q"] for g in callers)))[:100])) if callers else R.anchor_missing(RULE, "no caller of VarAllocString found")


# ------------------------------------------------------------------------------------------ line accessors (shared with C09)

LINE_ACCESSORS = {
    "GetOutputStringLine": ("IPhreeqc::OutputLines", "GetOutputStringLineCount"),
    "GetLogStringLine": ("IPhreeqc::LogLines", "GetLogStringLineCount"),
    "GetDumpStringLine": ("IPhreeqc::DumpLines", "GetDumpStringLineCount"),
    "GetErrorStringLine": ("IPhreeqc::ErrorLines", "GetErrorStringLineCount"),
    "GetWarningStringLine": ("IPhreeqc::WarningLines", "GetWarningStringLineCount"),
    "GetSelectedOutputStringLine": ("IPhreeqc::SelectedOutputLinesMap", "GetSelectedOutputStringLineCount"),
}


def lines_rule(P, R, rule, only=None):
    R.rule(rule, "Get*StringLine(n): n < 0 || n >= count -> \"\" before any subscript; count is the size of the vector subscripted", minimum=1 if only else 6)
    for name, (vec, cnt) in sorted(LINE_ACCESSORS.items()):
        if only and name not in only:
            continue
        fs = P.fns_named("IPhreeqc::" + name)
        cs = P.fns_named("IPhreeqc::" + cnt)
        if len(fs) != 1 or len(cs) != 1:
            R.anchor_missing(rule, "%s / %s not found" % (name, cnt))
            continue
        f, c = fs[0], cs[0]
        where = dict(file=f["file"], line=f["line"], function=f["q"])
        n = f["pnames"][0]
        st = [s for s in f["body"][2] if T.is_node(s)]
        guard = None
        for i, s in enumerate(st):
            if s[0] == "If":
                parts = flatten_or(s[2])
                lo = any(p[0] == "Bin" and p[2] == "<" and param_name(p[3]) == n and T.lit_value(p[4]) == 0 for p in parts)
                hi = any(p[0] == "Bin" and p[2] == ">=" and param_name(p[3]) == n and any(T.callee_name(cc) == cnt for cc in T.calls(p[4])) for p in parts)
                if lo and hi and any(y[0] == "Return" for y in T.walk(s[3])):
                    guard = i
                    break
        sub = None
        for i, s in enumerate(st):
            for x in T.walk(s):
                if x[0] == "Call" and T.callee_name(x) in ("operator[]", "at") and any(param_name(a) == n for a in x[4]):
                    root, steps = T.access_path(x[4][0] if not T.is_node(x[3]) else x[3])
                    if sub is None:
                        sub = (i, steps[0][1] if steps else None)
        # the count accessor measures the same vector
        csz = None
        for x in T.walk(c["body"]):
            if x[0] == "Member" and x[2] == vec:
                csz = vec
        probs = []
        if guard is None:
            probs.append("no `n < 0 || n >= %s()` guard returning before the subscript" % cnt)
        if sub is None:
            probs.append("no subscript with n found")
        else:
            if guard is not None and sub[0] <= guard:
                probs.append("subscript precedes the guard")
            if sub[1] != vec:
                probs.append("subscripts %s, expected %s" % (sub[1], vec))
        if csz != vec:
            probs.append("%s does not measure %s" % (cnt, vec))
        if probs:
            R.violation(rule, name, "; ".join(probs), **where)
        else:
            R.ok(rule, name, "guarded on %s() = size of %s" % (cnt, vec.split("::")[-1]))


def members_in_names(n):
    return set(x[2].split("::")[-1] for x in T.walk(n) if x[0] == "Member")


def tablerow_rule(P, R):
    """The value table has one row per line of the string / file and keeps what was punched:
    (rowcount) CSelectedOutput::EndRow advances m_nRowCount on every path - also while the table has no column yet (a USER_PUNCH-only
               block whose program punches nothing in its first rows still writes a line for each of them);
    (padkeep)  PushBackEmpty, used by IPhreeqc::EndRow to pad unpunched USER_PUNCH headings, must not reach the branch of PushBack that
               replaces the cell the pending row already has for that heading (headings are keys: a repeated heading names an earlier
               column) - it tests the column's length against m_nRowCount and returns first."""
    RULE = "C05.tablerow"
    R.rule(RULE, "CSelectedOutput: EndRow counts every row; padding with empty cells never replaces a cell of the pending row", minimum=2)
    f = P.one("CSelectedOutput::EndRow")
    cfg = T.CFG(f)
    dom = cfg.dominators()
    inc = []
    for nd in cfg.nodes:
        if T.is_node(nd["n"]):
            for t, how, line, n in T.writes(nd["n"]):
                root, steps = T.access_path(t)
                if how == "++" and steps == [("f", "CSelectedOutput::m_nRowCount")]:
                    inc.append(nd["id"])
    if inc and any(i in dom.get(cfg.exit, ()) for i in inc):
        R.ok(RULE, "EndRow:rowcount", "++m_nRowCount dominates the exit of EndRow")
    else:
        R.violation(RULE, "EndRow:rowcount", "CSelectedOutput::EndRow does not advance m_nRowCount on every path: a row that ends while the table has no column is not counted, "
                    "the string and file have a line the table has no row for", file=f["file"], line=f["line"], function=f["q"])
    g = P.one("CSelectedOutput::PushBackEmpty")
    pb = P.one("CSelectedOutput::PushBack")
    overwrites = any(how in ("=", "call:operator=") and any(T.is_node(y) and y[0] == "Call" and T.callee_name(y) == "at" for y in T.walk(t)) for t, how, line, n in T.writes(pb["body"]))
    calls = [c for c in T.calls(g["body"]) if T.callee_q(c) == "CSelectedOutput::PushBack"]
    if not calls:
        R.anchor_missing(RULE, "PushBackEmpty no longer calls PushBack")
        return
    if not overwrites:
        R.ok(RULE, "PushBackEmpty:padkeep", "PushBack has no overwriting branch")
        return
    guard = None
    for x in T.walk(g["body"]):
        if x[0] == "If" and x[1] <= calls[0][1]:
            mem = {y[2] for y in T.walk(x[2]) if y[0] == "Member"}
            body_ = x[3][2] if T.is_node(x[3]) and x[3][0] == "Compound" else [x[3]]
            if {"CSelectedOutput::m_arrayVar", "CSelectedOutput::m_nRowCount"} <= mem and body_ and T.is_node(body_[-1]) and body_[-1][0] == "Return":
                guard = x
    if guard:
        R.ok(RULE, "PushBackEmpty:padkeep", "returns before PushBack when the column already has a cell for the pending row (line %d)" % guard[1])
    else:
        R.violation(RULE, "PushBackEmpty:padkeep", "PushBackEmpty calls PushBack without testing whether the pending row already has a cell for that heading: PushBack then replaces the "
                    "punched value by EMPTY (repeated heading names)", file=g["file"], line=calls[0][1], function=g["q"])


def punchscope_rule(P, R):
    """"columns in the same order ... cells never punched are empty": the cells of a USER_PUNCH block are written by the PUNCH statements of
    that block's program, in order, under the headings of the block (fpunchf_user with the running index n_user_punch_index).  Other
    BASIC programs run while the same row is written (CALCULATE_VALUES listed under -calculate_values) and may contain PUNCH; they must
    not reach fpunchf_user - the index is then -1 (headings[-1]) or stale.  cmdpunch calls fpunchf_user only under Phreeqc::in_user_punch,
    and punch_user_punch sets that flag immediately around the run of its own program."""
    RULE = "C05.punchscope"
    R.rule(RULE, "PUNCH reaches fpunchf_user only under in_user_punch; punch_user_punch brackets the run of its program with the flag", minimum=11)
    f = P.one("PBasic::cmdpunch")
    n = 0

    def visit(node, guarded):
        nonlocal n
        if not T.is_node(node):
            return
        if node[0] == "If":
            g = guarded or any(y[0] == "Member" and y[2] == "Phreeqc::in_user_punch" for y in T.walk(node[2]))
            visit(node[3], g)
            visit(node[4], guarded)
            return
        if node[0] == "Call" and T.callee_name(node) == "fpunchf_user":
            n += 1
            inst = "cmdpunch@%d" % (node[1] - f["line"])
            if guarded:
                R.ok(RULE, inst, "under in_user_punch")
            else:
                R.violation(RULE, inst, "PUNCH writes a cell (fpunchf_user) without the test of in_user_punch: a PUNCH statement in a CALCULATE_VALUES program that runs while "
                            "a row is written uses the cell index of another program (-1: out-of-bounds read of the headings)", file=f["file"], line=node[1], function=f["q"])
        for c in node[2:]:
            if isinstance(c, list):
                if c and isinstance(c[0], str):
                    visit(c, guarded)
                else:
                    for cc in c:
                        if isinstance(cc, list) and cc and isinstance(cc[0], str):
                            visit(cc, guarded)
    visit(f["body"], False)
    g = P.one("Phreeqc::punch_user_punch")
    sets = [(w[1], T.text(T.strip_casts(w[4]))) for w in T.walk(g["body"]) if w[0] == "Bin" and w[2] == "=" and any(y[0] == "Member" and y[2] == "Phreeqc::in_user_punch"
                                                                                                            for y in T.walk(w[3]))]
    runs = [c[1] for c in T.calls(g["body"]) if T.callee_name(c) == "basic_run"]
    n += 1
    if runs and any(l < runs[0] and v in ("true", "1") for l, v in sets) and any(l >= runs[0] and v in ("false", "0") for l, v in sets):
        R.ok(RULE, "punch_user_punch", "in_user_punch = true before basic_run, false after")
    else:
        R.violation(RULE, "punch_user_punch", "punch_user_punch does not bracket the run of its program with in_user_punch (true before basic_run, false after)",
                    file=g["file"], line=g["line"], function=g["q"])
    if n < 11:
        R.anchor_missing(RULE, "only %d sites examined" % n)
