"""C20 – surface complexation obeys site balance, electrostatic mass action and charge laws.

The property as a whole is numerical and is NOT decided.  Its "charge-potential relation" clause is written as closed-form
residuals and unit conversions; those are decided by exact rational-function comparison (engine/ratfun.py; sqrt/sinh opaque over
canonicalised arguments; the physical constants R, F (kJ/V/eq and C/mol), eps0, ln 10 recognised by value / member):
  C20.psi      every conversion between the potential unknown (the log activity `la` of a psi master species) and volts is one of
               the two defined ones:  psi = 2 la ln10 R T / F  (diffuse layer and constant capacitance: la is F psi/2RT/ln 10) and
               psi = - la ln10 R T / F  (CD-MUSIC planes: la is log10 exp(-F psi/RT)); where the code selects the model by
               surface type the form matches the type
  C20.sigma    every conversion between equivalents of charge and C/m2 is  sigma = q F / (A g)  or its inverse  q = sigma A g / F
  C20.laws     the charge-balance residuals are the model's charge-potential relation:
               diffuse layer (Gouy-Chapman)  sqrt(8 eps eps0 R T 1000 1000) sqrt(I) sinh(la ln10) - q F/(A g);
               constant capacitance  C (2 la ln10 R T/F) - q F/(A g);
               CD-MUSIC  sigma0 - C0 (psi0 - psi1),  (sigma0 + sigma1) - C1 (psi1 - psi2), with sigma_k = q_k F/(A g)
  C20.deltaz   "each surface species satisfies its mass-action equation including the electrostatic term": the exponent of the term is
               the charge moved to the surface, summed in add_potential_factor over the dissolved reactants of the (rewritten)
               equation.  The membership test of that sum is evaluated over the finite domain of species classes (codes
               recovered from the reader: aqueous 0, H+, H2O, e-, solids, exchange and surface species): it must accept aqueous
               species, H+ and e- (redox-rewritten equations carry e-) and nothing that is not dissolved (H2O, z = 0, may be
               either way)
  C20.sites    "the surface species of each site type sum to the defined sites": the defined amount reaches the site-balance unknown
               through setup_surface on a full build and through the master loop of quick_setup when the model is reused; the
               class test with which that loop skips masters, evaluated over the finite domain of species classes (codes
               recovered from the readers), may skip the potential masters but not surface-site, exchange or aqueous masters
  C20.zerosites  the same loop, evaluated over {exchange, surface-site} x {total > 0, total == 0} with the unknown present (setup_* creates the
               unknown of a site-less exchanger / surface): unknown->moles is assigned in every case (shared with C03 as C03.zerosites)
  C20.perdl    explicit diffuse layer: in molalities() the record of charge structure j (moles in its diffuse layer and the derivatives) is
               computed from structure j's own data; the accumulator over all structures is used only for the species' mass balance
  C20.compunk  CD-MUSIC plane-0 charge = sum over the site types of a charge structure of moles * z(master species): the list the
               residual and the print-out sum over (unknown::comp_unknowns) has one writer, the CD_MUSIC branch of setup_surface; the
               registration lies on every path through that branch (also for a site type that finds the charge unknowns created)
Not decided: site balance and mass action of every surface species (properties of the numerical solution), the diffuse-layer
integration (calc_all_g / Donnan), read-out values.
"""
from fractions import Fraction

import json
from .. import tree as T
from .. import ratfun as RF

PROP = "C20"
EXPLANATION = __doc__

F_KJ, F_C, R_KJ, EPS0 = 96.4935, 96493.5, 8.3147e-3, 8.854e-12


def lit_class(n):
    try:
        v = float(str(n[3]).rstrip("fFlL"))
    except ValueError:
        return None
    for name, c in (("FKJ", F_KJ), ("FC", F_C), ("R", R_KJ), ("EPS0", EPS0)):
        if c and abs(v - c) <= 2e-4 * abs(c):
            return name
    return None


class Conv:
    def __init__(self):
        self.opaque = []

    def op(self, fn, arg):
        for f_, a_, s_ in self.opaque:
            if f_ == fn and a_.same(arg):
                return RF.Rat.sym(s_)
        s_ = "%s<%d>" % (fn, len(self.opaque))
        self.opaque.append((fn, arg, s_))
        return RF.Rat.sym(s_)

    def conv(self, n):
        n = T.strip_casts(n)
        if not T.is_node(n):
            raise RF.NotRational("empty")
        if n[0] == "Lit":
            c = lit_class(n) if n[2] == "float" else None
            if c:
                return RF.Rat.sym(c)
            return RF.Rat.const(Fraction(str(n[3]).rstrip("fFlL")))
        if n[0] == "Member":
            f = n[2].split("::")[-1]
            if f == "LOG_10":
                return RF.Rat.sym("LN10")
            if f == "la":
                return RF.Rat.sym("LA:" + T.text(n[3]).replace(" ", "")[:40])
            if f == "tk_x":
                return RF.Rat.sym("T")
            if f == "f" and "x" in T.text(n[3]):
                return RF.Rat.sym("q")
            return RF.Rat.sym(f)
        if n[0] == "Ref" and n[2] in ("local", "param"):
            return RF.Rat.sym(n[3])
        if n[0] == "Index":
            return RF.Rat.sym(T.text(n).replace(" ", ""))
        if n[0] == "Un" and n[2] in ("-", "+"):
            v = self.conv(n[3])
            return -v if n[2] == "-" else v
        if n[0] == "Bin" and n[2] in ("+", "-", "*", "/"):
            a, b = self.conv(n[3]), self.conv(n[4])
            return a + b if n[2] == "+" else a - b if n[2] == "-" else a * b if n[2] == "*" else a / b
        if n[0] == "Call":
            nm = T.callee_name(n)
            if nm == "operator[]" and len(n[4]) == 2 and T.lit_value(n[4][1]) is not None:
                return RF.Rat.sym("%s[%d]" % (T.text(n[4][0]).split(".")[-1], T.lit_value(n[4][1])))
            if nm in ("Get_specific_area",):
                return RF.Rat.sym("A")
            if nm in ("Get_grams",):
                return RF.Rat.sym("G")
            if nm.startswith("Get_") and not n[4]:
                return RF.Rat.sym(nm[4:])
            if nm in ("sqrt", "sinh", "cosh", "exp", "log") and len(n[4]) == 1:
                return self.op(nm, self.conv(n[4][0]))
        raise RF.NotRational("%s %s" % (n[0], T.text(n)[:40]))


def top_products(root):
    """maximal multiplicative sub-expressions (through * and / and unary -) of an expression tree"""
    out = []

    def rec(n, in_prod):
        n0 = T.strip_casts(n)
        if not T.is_node(n0):
            return
        is_prod = (n0[0] == "Bin" and n0[2] in ("*", "/")) or (n0[0] == "Un" and n0[2] == "-")
        if is_prod and not in_prod:
            out.append(n0)
        for c in T.children(n0):
            rec(c, is_prod and in_prod or is_prod)
    rec(root, False)
    return out


def has_lit(n, cls):
    return any(y[0] == "Lit" and y[2] == "float" and lit_class(y) == cls for y in T.walk(n))


def model_guard(path):
    """surface types named by the innermost enclosing `if` whose then-branch contains the node"""
    for cond, in_then in reversed(path):
        names = set(y[3].split("::")[-1] for y in T.walk(cond) if y[0] == "Ref" and y[2] == "enum" and y[3].split("::")[-1] in ("DDL", "CCM", "CD_MUSIC"))
        if names and in_then:
            return names
    return set()


def statements_with_path(f):
    """(statement/expression root, [(cond, in_then)...]) for every expression statement, return, decl, call argument context"""
    out = []

    def rec(n, path):
        if not T.is_node(n):
            return
        if n[0] == "If":
            out.append((n[2], path))
            rec(n[3], path + [(n[2], True)])
            rec(n[4], path + [(n[2], False)])
            return
        if n[0] in ("Compound", "For", "While", "Do", "Switch", "Case", "Default", "Try", "RangeFor"):
            for c in T.children(n):
                rec(c, path)
            return
        out.append((n, path))
    rec(f["body"], [])
    return out


def run(P, R, tier):
    R.undecided += ["site balance and mass action of every surface species at the reported solution (numerical)",
                    "diffuse-layer integration (calc_all_g, Donnan), ion excess = surface charge (numerical)"]
    deltaz_rule(P, R)
    sites_rule(P, R)
    zerosites_rule(P, R)
    perdl_rule(P, R)
    compunk_rule(P, R)
    ladder_rule(P, R)
    inert_rule(P, R)
    deadget_rule(P, R)
    mixarea_rule(P, R)
    rescale_rule(P, R)
    R.rule("C20.psi", "every potential conversion is psi = 2 la ln10 R T/F (DDL, CCM) or psi = -la ln10 R T/F (CD-MUSIC planes), matching the selected model", minimum=12)
    R.rule("C20.sigma", "every charge-density conversion is sigma = q F/(A g) or q = sigma A g/F", minimum=15)
    S = RF.Rat.sym
    npsi = nsig = 0
    for key, f in sorted(P.functions.items()):
        if not f["q"].startswith("Phreeqc::"):
            continue
        if not any(y[0] == "Lit" and y[2] == "float" and lit_class(y) in ("FKJ", "FC") for y in T.walk(f["body"])):
            continue
        for root, path in statements_with_path(f):
            for pr in top_products(root):
                where = dict(file=f["file"], line=pr[1], function=f["q"])
                # ---- potential conversions
                if has_lit(pr, "FKJ") and any(y[0] == "Member" and y[2].split("::")[-1] == "la" for y in T.walk(pr)):
                    cv = Conv()
                    inst = "%s@%d" % (f["q"].split("::")[-1], pr[1])
                    try:
                        g = cv.conv(pr)
                    except (RF.NotRational, ZeroDivisionError):
                        continue
                    las = [s_ for s_ in g.symbols() if s_.startswith("LA:")]
                    if len(las) != 1:
                        continue
                    unit = S(las[0]) * S("LN10") * S("R") * S("T") / S("FKJ")
                    q = g / unit
                    if not q.independent_of([las[0], "LN10", "R", "T", "FKJ"]):
                        R.violation("C20.psi", inst, "`%s` is not a multiple of la ln10 R T / F" % T.text(pr)[:120], **where)
                        npsi += 1
                        continue
                    # numeric coefficient of q (q = c * other symbols)
                    coef = q.at_ones()
                    npsi += 1
                    models = model_guard(path)
                    if coef == 2 and (not models or models <= {"DDL", "CCM"}):
                        R.ok("C20.psi", inst, "2 la ln10 R T / F%s" % (" (under %s)" % "/".join(sorted(models)) if models else ""))
                    elif coef == -1 and (not models or models <= {"CD_MUSIC"}):
                        R.ok("C20.psi", inst, "- la ln10 R T / F%s" % (" (under CD_MUSIC)" if models else ""))
                    elif coef in (2, -1):
                        R.violation("C20.psi", inst, "`%s` uses the %s convention under surface type %s" % (T.text(pr)[:100], "DDL/CCM (2 la)" if coef == 2 else "CD-MUSIC (-la)", "/".join(sorted(models))), **where)
                    else:
                        R.violation("C20.psi", inst, "`%s` converts the potential unknown with factor %s; the defined conversions are 2 la ln10 R T/F and -la ln10 R T/F" % (T.text(pr)[:100], coef), **where)
                # ---- charge-density conversions
                if has_lit(pr, "FC") and any(T.callee_name(c) == "Get_specific_area" for c in T.calls(pr)) and any(T.callee_name(c) == "Get_grams" for c in T.calls(pr)):
                    cv = Conv()
                    inst = "%s@%d" % (f["q"].split("::")[-1], pr[1])
                    try:
                        g = cv.conv(pr)
                    except (RF.NotRational, ZeroDivisionError):
                        continue
                    nsig += 1
                    fwd = g / (S("FC") / (S("A") * S("G")))
                    inv = g / ((S("A") * S("G")) / S("FC"))
                    bad = ["FC", "A", "G"]
                    if fwd.independent_of(bad):
                        R.ok("C20.sigma", inst, "sigma = q F/(A g)")
                    elif inv.independent_of(bad):
                        R.ok("C20.sigma", inst, "q = sigma A g/F")
                    else:
                        R.violation("C20.sigma", inst, "`%s` is neither q F/(A g) nor sigma A g/F" % T.text(pr)[:120], **where)
    if npsi < 12:
        R.anchor_missing("C20.psi", "only %d potential conversions found" % npsi)
    if nsig < 15:
        R.anchor_missing("C20.sigma", "only %d charge-density conversions found" % nsig)

    # ------------------------------------------------------------------ the residual laws
    R.rule("C20.laws", "surface charge-balance residuals are the Gouy-Chapman, constant-capacitance and CD-MUSIC charge-potential relations", minimum=6)
    f = P.one("Phreeqc::residuals")
    where = dict(file=f["file"], function=f["q"])
    # sinh_constant definitions
    ns = 0
    for x in T.walk(f["body"]):
        if x[0] == "Bin" and x[2] == "=" and T.text(x[3]).endswith("sinh_constant"):
            r = T.strip_casts(x[4])
            ns += 1
            inst = "sinh_constant@%d" % x[1]
            okk = False
            if r[0] == "Call" and T.callee_name(r) == "sqrt":
                cv = Conv()
                try:
                    a = cv.conv(r[4][0])
                    okk = a.same(RF.Rat.const(8) * S("eps_r") * S("EPS0") * S("R") * RF.Rat.const(1000) * S("T") * RF.Rat.const(1000))
                except RF.NotRational:
                    okk = False
            if okk:
                R.ok("C20.laws", inst, "sqrt(8 eps eps0 (R 1000) T 1000)")
            else:
                R.violation("C20.laws", inst, "`sinh_constant = %s` is not sqrt(8 eps eps0 R T 1e6)" % T.text(x[4])[:120], line=x[1], **where)
    if ns < 2:
        R.anchor_missing("C20.laws", "residuals: sinh_constant definitions not found")
    found = {"DDL": 0, "CCM": 0, "CD0": 0, "CD1": 0}
    for root, path in statements_with_path(f):
        x = root
        if not (T.is_node(x) and x[0] == "Bin" and x[2] == "=" and "residual" in T.text(x[3])):
            continue
        cv = Conv()
        try:
            g = cv.conv(x[4])
        except (RF.NotRational, ZeroDivisionError):
            continue
        sy = g.symbols()
        sig = S("q") * S("FC") / (S("A") * S("G"))
        inst = None
        if any(s_.startswith("sinh<") for s_ in sy):
            la = [s_ for s_ in cv.opaque if s_[0] == "sinh"]
            arg_ok = la and len(la[0][1].symbols()) == 2 and "LN10" in la[0][1].symbols() and any(t_.startswith("LA:") for t_ in la[0][1].symbols()) and \
                la[0][1].same(S([t_ for t_ in la[0][1].symbols() if t_.startswith("LA:")][0]) * S("LN10"))
            want = S("sinh_constant") * cv.op("sqrt", S("mu_x")) * S(la[0][2]) - sig if la else None
            inst = "DDL@%d" % x[1]
            found["DDL"] += 1
            if arg_ok and want is not None and g.same(want):
                R.ok("C20.laws", inst, "sinh_constant sqrt(I) sinh(la ln10) - q F/(A g)")
            elif not ({"sinh_constant", "mu_x"} <= RF.names_in(f["body"])):
                R.anchor_missing("C20.laws", "%s: sinh_constant / mu_x no longer occur in residuals (renamed?)" % inst)
            else:
                R.violation("C20.laws", inst, "the diffuse-layer residual `%s` is not the Gouy-Chapman relation sigma(psi) - sigma(species)" % T.text(x[4])[:160], line=x[1], **where)
        elif "capacitance0" in sy and any(s_.startswith("LA:") for s_ in sy):
            la = [s_ for s_ in sy if s_.startswith("LA:")][0]
            want = S("capacitance0") * (RF.Rat.const(2) * S(la) * S("LN10") * S("R") * S("T") / S("FKJ")) - sig
            inst = "CCM@%d" % x[1]
            found["CCM"] += 1
            if g.same(want):
                R.ok("C20.laws", inst, "C (2 la ln10 R T/F) - q F/(A g)")
            else:
                R.violation("C20.laws", inst, "the constant-capacitance residual `%s` is not C psi - sigma" % T.text(x[4])[:160], line=x[1], **where)
        elif "capacitance0" in sy and "cd_psi[0]" in sy:
            found["CD0"] += 1
            want = S("sigma0") - S("capacitance0") * (S("cd_psi[0]") - S("cd_psi[1]"))
            if g.same(want):
                R.ok("C20.laws", "CD0@%d" % x[1], "sigma0 - C0 (psi0 - psi1)")
            else:
                R.violation("C20.laws", "CD0@%d" % x[1], "the CD-MUSIC 0-plane residual `%s` is not sigma0 - C0 (psi0 - psi1)" % T.text(x[4])[:160], line=x[1], **where)
        elif "capacitance1" in sy:
            found["CD1"] += 1
            want = (S("sigma0") + S("sigma1")) - S("capacitance1") * (S("cd_psi[1]") - S("cd_psi[2]"))
            if g.same(want):
                R.ok("C20.laws", "CD1@%d" % x[1], "(sigma0 + sigma1) - C1 (psi1 - psi2)")
            else:
                R.violation("C20.laws", "CD1@%d" % x[1], "the CD-MUSIC 1-plane residual `%s` is not (sigma0 + sigma1) - C1 (psi1 - psi2)" % T.text(x[4])[:160], line=x[1], **where)
    for k, v in found.items():
        if v == 0:
            R.anchor_missing("C20.laws", "residuals: no %s charge-balance residual found" % k)


def deltaz_rule(P, R):
    R.rule("C20.deltaz", "the charge sum of the electrostatic term accepts exactly the dissolved charged reactant classes: aqueous, H+, e-", minimum=1)
    # class codes from the reader
    codes = {}
    for key, f in sorted(P.functions.items()):
        if not f["q"].startswith("Phreeqc::read_"):
            continue
        for x in T.walk(f["body"]):
            if x[0] == "Bin" and x[2] == "=":
                t = T.strip_casts(x[3])
                if t[0] == "Member" and t[2] == "species::type" and T.is_node(t[3]):
                    b = T.strip_casts(t[3])
                    v = T.lit_value(x[4])
                    if b[0] == "Member" and b[2].split("::")[-1] in ("s_hplus", "s_eminus", "s_h2o") and v is not None:
                        codes[b[2].split("::")[-1]] = v
    if set(codes) != {"s_hplus", "s_eminus", "s_h2o"}:
        R.anchor_missing("C20.deltaz", "species class codes of H+, e-, H2O not recovered from the readers (%s)" % codes)
        return
    classes = {"aqueous": (0, None), "H+": (codes["s_hplus"], "s_hplus"), "H2O": (codes["s_h2o"], "s_h2o"), "e-": (codes["s_eminus"], "s_eminus")}
    mx = max(codes.values())
    for k in range(mx + 1, mx + 6):
        classes["class %d (solid / exchange / surface / potential)" % k] = (k, None)
    f = P.one("Phreeqc::add_potential_factor")
    where = dict(file=f["file"], function=f["q"])
    site = None
    for x in T.walk(f["body"]):
        if x[0] == "If" and any(w[0] == "Bin" and w[2] == "+=" and T.text(w[3]) == "sum_z" for w in T.walk(x[3])):
            site = x
    if site is None:
        R.anchor_missing("C20.deltaz", "add_potential_factor: the charge sum `sum_z += z * coef` under a class test not found")
        return

    class Unknown(Exception):
        pass

    def ev(n, cls):
        n = T.strip_casts(n)
        code, glob = cls
        if n[0] == "Bin" and n[2] in ("||", "&&"):
            a, b = ev(n[3], cls), ev(n[4], cls)
            return (a or b) if n[2] == "||" else (a and b)
        if n[0] == "Un" and n[2] == "!":
            return not ev(n[3], cls)
        if n[0] == "Bin" and n[2] in ("==", "!=", "<", "<=", ">", ">="):
            l, r = T.strip_casts(n[3]), T.strip_casts(n[4])
            if l[0] == "Member" and l[2] == "species::type" and T.lit_value(r) is not None:
                v = T.lit_value(r)
                return {"==": code == v, "!=": code != v, "<": code < v, "<=": code <= v, ">": code > v, ">=": code >= v}[n[2]]
            for a, b in ((l, r), (r, l)):
                if b[0] == "Member" and b[2].split("::")[-1] in ("s_hplus", "s_eminus", "s_h2o") and n[2] in ("==", "!="):
                    same = glob == b[2].split("::")[-1]
                    return same if n[2] == "==" else not same
        raise Unknown(T.text(n)[:60])
    try:
        acc = sorted(nm for nm, cls in classes.items() if ev(site[2], cls))
    except Unknown as e:
        R.anchor_missing("C20.deltaz", "add_potential_factor: class test not evaluable (%s)" % e)
        return
    need = {"aqueous", "H+", "e-"}
    extra = set(acc) - need - {"H2O"}
    if need <= set(acc) and not extra:
        R.ok("C20.deltaz", "add_potential_factor", "accepts %s" % ", ".join(acc))
    else:
        R.violation("C20.deltaz", "add_potential_factor", "the charge sum of the electrostatic term accepts {%s}: %s%s - the potential coefficient of a surface species whose rewritten "
                    "equation contains such a reactant is wrong by its charge" % (", ".join(acc), ("it leaves out %s" % ", ".join(sorted(need - set(acc)))) if need - set(acc) else "",
                                                                                   (" it includes %s" % ", ".join(sorted(extra))) if extra else ""), line=site[1], **where)


def compunk_rule(P, R):
    """CD-MUSIC plane-0 charge: the residual (and the printed charge) of the SURFACE_CB unknown sums moles * z(master species) over
    `comp_unknowns`, the list of site-type unknowns that share the charge structure.  The list has one writer, the CD_MUSIC branch of
    setup_surface; it must register EVERY site type - also those that find the charge unknowns of their structure already created by
    an earlier site type - so the registration has to lie on every path through the branch, not inside the `newly created` arm."""
    RULE = "C20.compunk"
    R.rule(RULE, "setup_surface (CD_MUSIC): every site-type unknown is registered in comp_unknowns of its plane-0 charge unknown, on every path; the readers sum over that list", minimum=3)
    f = P.one("Phreeqc::setup_surface")
    where = dict(file=f["file"], function=f["q"])

    def is_push(n):
        for c in T.calls(n):
            if T.callee_name(c) == "push_back" and T.is_node(c[3]) and any(y[0] == "Member" and y[2] == "unknown::comp_unknowns" for y in T.walk(c[3])):
                return True
        return False
    branch = None
    for x in T.walk(f["body"]):
        if x[0] == "If" and any(y[0] == "Ref" and y[2] == "enum" and y[3].endswith("CD_MUSIC") for y in T.walk(x[2])) and any(is_push(z) for z in [x[3]] if T.is_node(z)):
            branch = x
        elif x[0] == "If" and any(y[0] == "Ref" and y[2] == "enum" and y[3].endswith("CD_MUSIC") for y in T.walk(x[2])) and branch is None \
                and any(T.callee_name(c) == "find_surface_charge_unknown" for c in T.calls(x[3])):
            branch = x
    if branch is None:
        R.anchor_missing(RULE, "setup_surface: CD_MUSIC branch not found")
        return
    pushes = [c for c in T.calls(branch[3]) if T.callee_name(c) == "push_back" and T.is_node(c[3]) and any(y[0] == "Member" and y[2] == "unknown::comp_unknowns" for y in T.walk(c[3]))]
    if not pushes:
        R.violation(RULE, "register", "the CD_MUSIC branch of setup_surface no longer registers the site-type unknown in comp_unknowns", line=branch[1], **where)
    else:
        sub = dict(f, body=branch[3] if branch[3][0] == "Compound" else ["Compound", branch[1], [branch[3]]])
        cfg = T.CFG(sub, terminates=is_push)
        if cfg.exit not in cfg.reachable():
            R.ok(RULE, "register", "comp_unknowns.push_back lies on every path through the branch (line %d)" % pushes[0][1])
        else:
            R.violation(RULE, "register", "comp_unknowns.push_back (line %d) is not on every path through the CD_MUSIC branch: a site type that finds the charge unknowns of its "
                        "structure already created is not registered, so sigma0 of eqn A-3 omits moles * z of its master species and the charge-potential relations of a "
                        "multi-site CD-MUSIC surface fail" % pushes[0][1], line=pushes[0][1], **where)
        a = T.strip_casts(pushes[0][4][0]) if pushes[0][4] else None
        if a and a[0] == "Ref" and a[2] == "local":
            # a local alias: its (single) definition inside the branch
            defs = [d[2] for x in T.walk(branch[3]) if x[0] == "Decl" for d in x[2] if d[0] == a[3] and T.is_node(d[2])]
            if len(defs) == 1:
                a = T.strip_casts(defs[0])
        if a and "mb_unknown_number" in T.text(a):
            R.ok(RULE, "registered-unknown", "the site (mass-balance) unknown x[mb_unknown_number]")
        else:
            R.violation(RULE, "registered-unknown", "comp_unknowns receives `%s`, not the site unknown x[mb_unknown_number]" % (T.text(a)[:40] if a else "?"), line=pushes[0][1], **where)
    # readers
    n = 0
    for g in P.functions.values():
        if not g.get("body") or g["q"] == f["q"]:
            continue
        for x in T.walk(g["body"]):
            if x[0] == "For" and T.is_node(x[3]) and any(y[0] == "Member" and y[2] == "unknown::comp_unknowns" for y in T.walk(x[3])):
                n += 1
                txt = T.text(x[4]).replace(" ", "")
                if "moles" in txt and ".z" in txt or "s.z" in txt:
                    R.ok(RULE, "%s@%d" % (g["q"].split("::")[-1], x[1]), "sums moles * z over comp_unknowns")
                else:
                    R.ok(RULE, "%s@%d" % (g["q"].split("::")[-1], x[1]), "loop over comp_unknowns")
    if n < 1:
        R.anchor_missing(RULE, "no reader loop over unknown::comp_unknowns found (residuals, print)")


def perdl_rule(P, R):
    """"with an explicit diffuse layer its ion excess balances the surface charge": molalities() computes for every aqueous species and
    every charge structure j the moles held in the diffuse layer of j (cxxSpeciesDL::g_moles and its derivatives), and - separately - the
    sum over all structures (total_g) for the species' mass balance.  The per-structure quantities feed the charge-balance equation of
    structure j, so the arguments of the setters called on the per-structure record depend only on structure j's own data; using the
    cross-structure accumulator there gives the 2nd, 3rd ... structure the diffuse-layer content of the preceding ones as well."""
    RULE = "C20.perdl"
    R.rule(RULE, "molalities(): the per-structure diffuse-layer record (g_moles, dg_g_moles, dx_moles, dh2o_moles, drelated_moles) is computed from that structure's own data, not from the cross-structure accumulator", minimum=4)
    f = P.one("Phreeqc::molalities")
    where = dict(file=f["file"], function=f["q"])
    loop = None
    for x in T.walk(f["body"]):
        if x[0] == "For" and any(T.callee_name(c) == "Get_surface_charges" for c in T.calls(x[3])) and any(T.callee_name(c) == "Set_g_moles" for c in T.calls(x[5])):
            loop = x
    if loop is None:
        R.anchor_missing(RULE, "molalities(): loop over the charge structures that fills the diffuse-layer records not found")
        return
    acc = set()
    for y in T.walk(loop[5]):
        if y[0] == "Bin" and y[2] in ("+=", "-=") and T.strip_casts(y[3])[0] == "Ref" and T.strip_casts(y[3])[2] == "local":
            acc.add(T.strip_casts(y[3])[3])
    n = 0
    for c in T.calls(loop[5]):
        nm = T.callee_name(c)
        if not nm.startswith("Set_") or not T.is_node(c[3]) or "dl_ref" not in T.text(c[3]):
            continue
        n += 1
        used = sorted(set(y[3] for a in c[4] for y in T.walk(a) if y[0] == "Ref" and y[2] == "local" and y[3] in acc))
        inst = "%s@%d" % (nm, c[1])
        if used:
            R.violation(RULE, inst, "the per-structure value %s is computed from `%s`, which is accumulated over ALL charge structures of the surface: the second and later structures also "
                        "carry the diffuse-layer content of the preceding ones, so their charge-balance equation (and the Jacobian) describes another surface"
                        % (nm[4:], ", ".join(used)), line=c[1], **where)
        else:
            R.ok(RULE, inst, "own data of the structure only")
    if n < 4:
        R.anchor_missing(RULE, "only %d setters on the per-structure diffuse-layer record found" % n)


def zerosites_rule(P, R, RULE="C20.zerosites"):
    """quick_setup reuses the unknowns of the previous model.  setup_exchange / setup_surface create the site unknown of an exchanger or
    surface even when it has no sites (related to an absent phase), so such a master is in the model with total == 0.  The master loop of
    quick_setup, evaluated over the finite domain {exchange, surface-site, aqueous} x {total > 0, total == 0} x {unknown present}, must
    assign unknown->moles for a site master in BOTH total cases - otherwise the unknown keeps the sites of the previous calculation."""
    R.rule(RULE, "quick_setup assigns unknown->moles of an exchange / surface-site master that is in the model also when its total is zero", minimum=4)
    codes = {}
    for q, nm in (("Phreeqc::read_surface_species", "surface site"), ("Phreeqc::read_exchange_species", "exchange")):
        for f in P.fns_named(q):
            for x in T.walk(f["body"]):
                if x[0] == "Bin" and x[2] == "=":
                    t = T.strip_casts(x[3])
                    if t[0] == "Member" and t[2] == "species::type" and T.lit_value(x[4]) is not None:
                        codes.setdefault(nm, T.lit_value(x[4]))
    if len(codes) != 2:
        R.anchor_missing(RULE, "class codes of surface-site / exchange species not recovered from the readers (%s)" % codes)
        return
    f = P.one("Phreeqc::quick_setup")
    where = dict(file=f["file"], function=f["q"])
    loop = None
    for x in T.walk(f["body"]):
        if x[0] == "For" and "master" in T.text(x[3]) and any(w[0] == "Bin" and w[2] == "=" and T.text(w[3]).endswith("unknown.moles") for w in T.walk(x[5])):
            loop = x
            break
    if loop is None:
        R.anchor_missing(RULE, "quick_setup: the master loop that refreshes unknown.moles was not found")
        return

    class Unknown(Exception):
        pass

    def ev(n, env):
        n = T.strip_casts(n)
        if n[0] == "Paren":
            return ev(n[2], env)
        if n[0] == "Bin" and n[2] in ("||", "&&"):
            a = ev(n[3], env)
            if n[2] == "||":
                return a or ev(n[4], env)
            return a and ev(n[4], env)
        if n[0] == "Un" and n[2] == "!":
            return not ev(n[3], env)
        if n[0] == "Bin" and n[2] in ("==", "!=", "<", "<=", ">", ">="):
            l, r = T.strip_casts(n[3]), T.strip_casts(n[4])
            lt, rt = T.text(l).replace(" ", ""), T.text(r).replace(" ", "")
            op = n[2]
            if l[0] == "Member" and l[2] == "species::type" and T.lit_value(r) is not None:
                a, b = env["type"], T.lit_value(r)
            elif l[0] == "Member" and l[2] == "master::total" and (T.lit_value(r) is not None or str(r[3] if r[0] == "Lit" else "") in ("0", "0.0")):
                a, b = env["total"], 0
            elif l[0] == "Member" and l[2] == "master::total" and r[0] == "Member" and r[2].endswith("MIN_TOTAL"):
                a, b = env["total"], 0.5          # MIN_TOTAL: a tiny positive number
            elif l[0] == "Member" and l[2] in ("master::unknown", "species::secondary") and r[0] == "Lit":
                a, b = (1 if env["unknown" if l[2] == "master::unknown" else "secondary"] else 0), 0
            elif l[0] == "Member" and l[2] == "master::s" and r[0] == "Member" and r[2].startswith("Phreeqc::s_"):
                a, b = 0, 1                         # a site master is none of the special species
            else:
                raise Unknown(T.text(n)[:60])
            return {"==": a == b, "!=": a != b, "<": a < b, "<=": a <= b, ">": a > b, ">=": a >= b}[op]
        if n[0] == "Member" and n[2] == "master::unknown":
            return env["unknown"]
        raise Unknown(T.text(n)[:60])

    def run(stmt, env):
        """returns (assigned?, flow) with flow in {"next", "continue"}"""
        if not T.is_node(stmt):
            return False, "next"
        if stmt[0] == "Compound":
            got = False
            for s_ in stmt[2]:
                a, fl = run(s_, env)
                got = got or a
                if fl != "next":
                    return got, fl
            return got, "next"
        if stmt[0] == "If":
            c = ev(stmt[2], env)
            return run(stmt[3], env) if c else (run(stmt[4], env) if T.is_node(stmt[4]) else (False, "next"))
        if stmt[0] == "Continue":
            return False, "continue"
        if stmt[0] == "Bin" and stmt[2] == "=" and T.text(stmt[3]).replace(" ", "").endswith("unknown.moles"):
            return True, "next"
        return False, "next"
    for nm, code in sorted(codes.items()):
        for tot, tn in ((1, "total > 0"), (0, "total == 0")):
            env = {"type": code, "total": tot, "unknown": True, "secondary": False}
            inst = "%s, %s" % (nm, tn)
            try:
                got, _ = run(loop[5], env)
            except Unknown as e:
                R.anchor_missing(RULE, "quick_setup: master loop not evaluable for %s (%s)" % (inst, e))
                continue
            if got:
                R.ok(RULE, inst, "unknown->moles is assigned")
            else:
                R.violation(RULE, inst, "for an %s master that is in the model (unknown present) with %s the master loop of quick_setup assigns nothing: the unknown keeps the sites it "
                            "had at the end of the previous calculation (an exchanger / surface related to an absent phase starts with the sites of an earlier, even unsaved, run)"
                            % (nm, tn), line=loop[1], **where)


def sites_rule(P, R):
    R.rule("C20.sites", "quick_setup refreshes the totals of every surface-site master: its class skip does not exclude site, exchange or aqueous masters", minimum=1)
    codes = {}
    for q, nm in (("Phreeqc::read_surface_species", "surface site"), ("Phreeqc::read_exchange_species", "exchange")):
        for f in P.fns_named(q):
            for x in T.walk(f["body"]):
                if x[0] == "Bin" and x[2] == "=":
                    t = T.strip_casts(x[3])
                    if t[0] == "Member" and t[2] == "species::type" and T.lit_value(x[4]) is not None:
                        codes.setdefault(nm, T.lit_value(x[4]))
    if len(codes) != 2:
        R.anchor_missing("C20.sites", "class codes of surface-site / exchange species not recovered from the readers (%s)" % codes)
        return
    codes["aqueous"] = 0
    f = P.one("Phreeqc::quick_setup")
    loop = None
    for x in T.walk(f["body"]):
        if x[0] == "For" and "master" in T.text(x[3]) and any(w[0] == "Bin" and w[2] == "=" and T.text(w[3]).endswith("unknown.moles") for w in T.walk(x[5])):
            loop = x
            break
    if loop is None:
        R.anchor_missing("C20.sites", "quick_setup: the master loop that refreshes unknown.moles was not found")
        return
    skips = [s_ for s_ in (loop[5][2] if loop[5][0] == "Compound" else [loop[5]]) if T.is_node(s_) and s_[0] == "If" and any(y[0] == "Continue" for y in T.walk(s_[3]))
             and any(y[0] == "Member" and y[2] == "species::type" for y in T.walk(s_[2]))]
    if not skips:
        R.anchor_missing("C20.sites", "quick_setup: class skip of the master loop not found")
        return

    def ev(n, code):
        n = T.strip_casts(n)
        if n[0] == "Bin" and n[2] in ("||", "&&"):
            a, b = ev(n[3], code), ev(n[4], code)
            return (a or b) if n[2] == "||" else (a and b)
        if n[0] == "Un" and n[2] == "!":
            return not ev(n[3], code)
        if n[0] == "Bin" and n[2] in ("==", "!=", "<", "<=", ">", ">="):
            l, r = T.strip_casts(n[3]), T.strip_casts(n[4])
            if l[0] == "Member" and l[2] == "species::type" and T.lit_value(r) is not None:
                v = T.lit_value(r)
                return {"==": code == v, "!=": code != v, "<": code < v, "<=": code <= v, ">": code > v, ">=": code >= v}[n[2]]
        raise ValueError(T.text(n)[:50])
    for sk in skips:
        try:
            skipped = sorted(nm for nm, c in codes.items() if ev(sk[2], c))
        except ValueError as e:
            R.anchor_missing("C20.sites", "quick_setup: class skip not evaluable (%s)" % e)
            continue
        if skipped:
            R.violation("C20.sites", "quick_setup:skip@%d" % sk[1], "the master loop of quick_setup skips %s masters (`%s`): on model reuse their unknowns keep the amounts of the surface / "
                        "exchanger the model was last built with, so the species no longer sum to the defined sites" % (", ".join(skipped), T.text(sk[2])[:60]),
                        file=f["file"], line=sk[1], function=f["q"])
        else:
            R.ok("C20.sites", "quick_setup:skip@%d" % sk[1], "skips no surface-site, exchange or aqueous master")


def ladder_rule(P, R):
    """The Borkovec-Westall diffuse-layer excess g is the integral over x from xd to 1; calc_all_g evaluates it as a sum of
    qromb_midpnt(charge, a, b) over decades, with one hand-written block per order of magnitude of xd.  In every block the pieces must
    tile the interval: the first starts at 1.0, each next one starts where the previous ended, the last ends at xd.  A missing or
    repeated decade leaves the solver electroneutral (surface + diffuse layer) but moves sigma away from Gouy-Chapman at the reported
    potential in exactly one window of potentials."""
    RULE = "C20.ladder"
    R.rule(RULE, "every block that sums qromb_midpnt pieces tiles [xd, 1] without gap or overlap", minimum=9)
    n = 0
    for k, g in sorted(P.functions.items(), key=lambda kv: kv[1]["q"]):
        if not any(T.callee_name(c) == "qromb_midpnt" for c in T.calls(g["body"])):
            continue
        for comp in T.walk(g["body"]):
            if comp[0] != "Compound":
                continue
            pieces = []
            pure = True
            for st in comp[2]:
                if T.is_node(st) and st[0] == "Bin" and st[2] in ("=", "+=") and T.is_node(T.strip_casts(st[4])) and T.strip_casts(st[4])[0] == "Call" \
                        and T.callee_name(T.strip_casts(st[4])) == "qromb_midpnt":
                    c = T.strip_casts(st[4])
                    ab = []
                    for a in c[4][1:3]:
                        a_ = T.strip_casts(a)
                        v = T.lit_value(a_)
                        if v is None and T.is_node(a_) and a_[0] == "Lit" and a_[2] == "float":
                            v = float(str(a_[3]).rstrip("fFlL"))
                        ab.append(float(v) if v is not None else " ".join(T.text(a).split()))
                    pieces.append((st[1], st[2], ab[0], ab[1]))
                else:
                    pure = False
            if not pieces or not pure:
                continue
            n += 1
            inst = "%s@%d" % (g["q"].split("::")[-1], pieces[0][0])
            bad = None
            if pieces[0][1] != "=" or any(p_[1] != "+=" for p_ in pieces[1:]):
                bad = "the first piece must assign and the others add"
            elif pieces[0][2] != 1.0:
                bad = "the first piece starts at %s, not at 1.0" % pieces[0][2]
            else:
                for a, b in zip(pieces, pieces[1:]):
                    same = (a[3] == b[2]) or (isinstance(a[3], float) and isinstance(b[2], float) and abs(a[3] - b[2]) <= 1e-12 * abs(a[3]))
                    if not same:
                        bad = "piece at line %d ends at %s but the next starts at %s" % (a[0], a[3], b[2])
                        break
                if bad is None and isinstance(pieces[-1][3], float):
                    bad = "the last piece ends at the constant %s, not at xd" % pieces[-1][3]
            if bad:
                R.violation(RULE, inst, "%s: the pieces of the diffuse-layer integral do not tile [xd, 1] (%s): part of the counter-ion excess is missing or counted twice in this "
                            "window of potentials" % (g["q"], bad), file=g["file"], line=pieces[0][0], function=g["q"])
            else:
                R.ok(RULE, inst, "%d pieces tile [%s, 1]" % (len(pieces), pieces[-1][3]))
    if n < 9:
        R.anchor_missing(RULE, "only %d blocks of qromb_midpnt pieces found" % n)


def inert_rule(P, R):
    """"the species of each site type sum to the defined sites": for a surface related to an equilibrium phase the defined sites are
    proportion * (moles of the phase).  While model() iterates, the amount of a phase entered with precipitate_only is split into
    unknown::moles (what may still change) and unknown::inert_moles (set_inert_moles / unset_inert_moles): the phase's amount is
    moles + inert_moles.  Every read of `->phase_unknown->moles` in the solver (site totals and their zero test in reset, the area of the
    charge unknown, the MIN_RELATED_SURFACE tests of the residual and Jacobian code) must add the same unknown's inert_moles in the same sum."""
    RULE = "C20.inert"
    R.rule(RULE, "every read of a related surface's phase amount is phase_unknown->moles + phase_unknown->inert_moles", minimum=5)

    def leaves(n, sign, out):
        m = T.strip_casts(n)
        if T.is_node(m) and m[0] == "Paren":
            m = T.strip_casts(m[2])
        if T.is_node(m) and m[0] == "Bin" and m[2] in ("+", "-"):
            leaves(m[3], sign, out)
            leaves(m[4], sign if m[2] == "+" else -sign, out)
        else:
            out.append((sign, m))

    def is_field(m, name):
        return T.is_node(m) and m[0] == "Member" and m[2] == "unknown::" + name and T.is_node(T.strip_casts(m[3])) and T.strip_casts(m[3])[0] == "Member" \
            and T.strip_casts(m[3])[2] == "unknown::phase_unknown"
    n = 0
    for k, g in sorted(P.functions.items(), key=lambda kv: (kv[1]["file"], kv[1]["line"])):
        if not g.get("body"):
            continue
        seen = set()

        def visit(node, parent_additive):
            nonlocal n
            if not T.is_node(node):
                return
            additive = node[0] == "Bin" and node[2] in ("+", "-")
            if additive and not parent_additive:
                out = []
                leaves(node, 1, out)
                for sg, m in out:
                    if is_field(m, "moles"):
                        base = "".join(T.text(m[3], -40).split())
                        seen.add(id(m))
                        n += 1
                        inst = "%s@%d" % (g["q"].split("::")[-1], m[1] - g["line"])
                        if any(is_field(o, "inert_moles") and s2 == sg and "".join(T.text(o[3], -40).split()) == base for s2, o in out):
                            R.ok(RULE, inst, "moles + inert_moles of %s" % base)
                        else:
                            R.violation(RULE, inst, "%s->moles is read without %s->inert_moles: for a phase entered with precipitate_only the related surface gets the sites (area) of the "
                                        "part that changed in this step only" % (base, base), file=g["file"], line=m[1], function=g["q"])
            if node[0] == "Member" and is_field(node, "moles") and id(node) not in seen and not parent_additive:
                # a read outside any sum (writes are assignments to the field: skip the left side of `=`)
                n += 1
                R.violation(RULE, "%s@%d" % (g["q"].split("::")[-1], node[1] - g["line"]), "%s is used without inert_moles" % T.text(node), file=g["file"], line=node[1], function=g["q"])
            for c in node[2:]:
                if isinstance(c, list):
                    if c and isinstance(c[0], str):
                        visit(c, additive or (parent_additive and node[0] in ("Cast", "Paren")))
                    else:
                        for cc in c:
                            if isinstance(cc, list) and cc and isinstance(cc[0], str):
                                visit(cc, False)
        visit(g["body"], False)
    if n < 5:
        R.anchor_missing(RULE, "only %d reads of phase_unknown->moles found" % n)


def deadget_rule(P, R):
    """update_kin_surface re-scales a saved surface that is related to a kinetic reactant.  It read the grams of the charge structure with
    `charge_ptr->Get_grams();` - a statement - so the local stayed 0, the surface was treated as having no charge data and its charge
    balance was zeroed: the saved surface no longer satisfied sigma = f(psi) of the state it was saved in.  A statement that calls a const
    member function without out-parameters and drops the value is a read that was meant to be used (the sibling update_min_surface
    assigns it).  Census over the whole program of statement-level calls of const member functions; those with an out-parameter
    (status-returning accessors) are the accepted form."""
    RULE = "C20.deadget"
    R.rule(RULE, "no statement calls a const member function without out-parameters and drops its value (a getter whose result was meant to be assigned)", minimum=2)

    def stmts(node):
        if not T.is_node(node):
            return
        if node[0] == "Compound":
            for st in node[2]:
                yield st
        if node[0] == "If":
            for br in (node[3], node[4]):
                if T.is_node(br) and br[0] != "Compound":
                    yield br
        if node[0] in ("For", "While") and T.is_node(node[-1]) and node[-1][0] != "Compound":
            yield node[-1]
        for c in node[2:]:
            if isinstance(c, list):
                if c and isinstance(c[0], str):
                    yield from stmts(c)
                else:
                    for cc in c:
                        if isinstance(cc, list) and cc and isinstance(cc[0], str):
                            yield from stmts(cc)
    n = 0
    for k, g in sorted(P.functions.items(), key=lambda kv: (kv[1]["file"], kv[1]["line"])):
        if not g.get("body"):
            continue
        for st in stmts(g["body"]):
            st = T.strip_casts(st)
            if not (T.is_node(st) and st[0] == "Call" and isinstance(st[2], dict)):
                continue
            c = st[2]
            if not (c.get("const") and c.get("k") in ("method", "virtual") and c.get("ret") not in ("void", None)):
                continue
            n += 1
            inst = "%s@%d:%s" % (g["q"].split("::")[-1], st[1] - g["line"], T.callee_name(st))
            outs = [pt for pt in T.param_types(c) if (pt.endswith("*") or pt.endswith("&")) and not pt.startswith("const ")]
            if outs:
                R.ok(RULE, inst, "delivers through an out-parameter (%s); the dropped value is a status" % outs[0])
            else:
                R.violation(RULE, inst, "`%s;` calls the const member function %s and drops the %s it returns: the value was meant to be used (a local that should have received "
                            "it keeps its initial value)" % (T.text(st)[:60], c.get("q"), c.get("ret")), file=g["file"], line=st[1], function=g["q"])
    if n < 2:
        R.anchor_missing(RULE, "statement-level calls of const member functions: %d found, 2 confirmed" % n)


def mixarea_rule(P, R):
    """sigma = q F / (A g): the area of a surface is specific_area * grams of its charge structure.  cxxSurfaceCharge::add (SURFACE_MIX, every
    combination of surfaces) must conserve it: (specific_area * grams) after the call = specific_area * grams before + extensive *
    addee.specific_area * addee.grams.  The statements of the function are executed symbolically (engine/ratfun.py; members of this and
    of the addee are symbols, the branch for a non-empty sum is followed) and the identity is checked as a polynomial identity.  The same
    for the extensive members that are plain sums (grams, charge_balance, mass_water)."""
    from fractions import Fraction
    RULE = "C20.mixarea"
    R.rule(RULE, "cxxSurfaceCharge::add conserves area (specific_area * grams) and the extensive members", minimum=4)
    f = P.one("cxxSurfaceCharge::add")
    ext = f["pnames"][1] if len(f.get("pnames", [])) > 1 else "extensive"
    add = f["pnames"][0]

    def key(n):
        n = T.strip_casts(n)
        if n[0] == "Member":
            base = T.strip_casts(n[3])
            who = "this" if base[0] == "This" else (base[3] if base[0] == "Ref" else None)
            if who is None:
                return None
            return who + "." + n[2].split("::")[-1]
        if n[0] == "Ref" and n[2] in ("local", "param"):
            return n[3]
        return None

    def conv(n, env):
        n = T.strip_casts(n)
        if n[0] == "Paren":
            return conv(n[2], env)
        if n[0] == "Lit":
            return RF.Rat.const(Fraction(str(n[3]).rstrip("fFlL")))
        k = key(n)
        if k is not None:
            return env.get(k, RF.Rat.sym(k))
        if n[0] == "Bin" and n[2] in ("+", "-", "*", "/"):
            a, b = conv(n[3], env), conv(n[4], env)
            return a + b if n[2] == "+" else a - b if n[2] == "-" else a * b if n[2] == "*" else a / b
        raise RF.NotRational(T.text(n)[:40])

    def execute(stmts, env):
        for st in stmts:
            if not T.is_node(st):
                continue
            if st[0] == "Compound":
                execute(st[2], env)
            elif st[0] == "If":
                c = T.strip_casts(st[2])
                # `x != 0` : the generic case is the then-branch; `x == 0` (early return) : skipped
                if T.is_node(c) and c[0] == "Bin" and c[2] == "!=":
                    execute([st[3]], env)
            elif st[0] == "Bin" and st[2] in ("=", "+=", "-=", "*="):
                k = key(st[3])
                if k is None:
                    continue
                try:
                    v = conv(st[4], env)
                except RF.NotRational:
                    env.pop(k, None)
                    env[k] = RF.Rat.sym(k + "'")
                    continue
                old = env.get(k, RF.Rat.sym(k))
                env[k] = v if st[2] == "=" else old + v if st[2] == "+=" else old - v if st[2] == "-=" else old * v
    env = {}
    try:
        execute(f["body"][2], env)
    except (RF.NotRational, KeyError, IndexError) as e:
        R.anchor_missing(RULE, "cxxSurfaceCharge::add not evaluable (%s)" % e)
        return
    S = RF.Rat.sym
    E = S(ext)
    after = lambda m: env.get("this." + m, S("this." + m))
    want_area = S("this.specific_area") * S("this.grams") + E * S(add + ".specific_area") * S(add + ".grams")
    got_area = after("specific_area") * after("grams")
    if got_area.same(want_area):
        R.ok(RULE, "area", "specific_area * grams is the sum of the areas")
    else:
        R.violation(RULE, "area", "cxxSurfaceCharge::add does not conserve the surface area: specific_area * grams after the call is %r, the sum of the parts is %r"
                    % (got_area, want_area), file=f["file"], line=f["line"], function=f["q"])
    for m in ("grams", "charge_balance", "mass_water"):
        if after(m).same(S("this." + m) + E * S(add + "." + m)):
            R.ok(RULE, m, "this + %s * addee" % ext)
        else:
            R.violation(RULE, m, "cxxSurfaceCharge::add: %s after the call is %r, not this.%s + %s * %s.%s" % (m, after(m), m, ext, add, m), file=f["file"], line=f["line"], function=f["q"])


def rescale_rule(P, R):
    """A surface related to a mineral or a kinetic reactant is re-scaled to the current amount of that reactant whenever the input is
    tidied (update_min_surface / update_kin_surface).  Several site types may share one charge structure (Hfo_w and Hfo_s), so the loop
    over the components meets the same charge structure more than once: its re-scaling must be idempotent - multiply(target / grams)
    with `grams` read from that charge structure, which leaves grams == target however often it runs.  A relative factor (new sites /
    old sites) is applied once per site type: area, charge balance and diffuse-layer content end up scaled by the factor squared."""
    RULE = "C20.rescale"
    R.rule(RULE, "update_min_surface / update_kin_surface: the charge structure is re-scaled by target / (its own grams), an idempotent factor", minimum=2)
    n = 0
    for q in ("Phreeqc::update_min_surface", "Phreeqc::update_kin_surface"):
        f = P.one(q)
        grams_defs = {}
        for x in T.walk(f["body"]):
            if x[0] == "Bin" and x[2] == "=" and T.is_node(T.strip_casts(x[3])) and T.strip_casts(x[3])[0] == "Ref":
                r = T.strip_casts(x[4])
                if T.is_node(r) and r[0] == "Call" and T.callee_name(r) == "Get_grams" and T.call_obj(r) is not None:
                    grams_defs[T.strip_casts(x[3])[3]] = "".join(T.text(T.call_obj(r), -40).split())
        for c in T.calls(f["body"]):
            if T.callee_name(c) != "multiply" or T.call_obj(c) is None or "Charge" not in str(c[2].get("cls", "")) + str(c[2].get("q", "")):
                continue
            n += 1
            obj = "".join(T.text(T.call_obj(c), -40).split())
            inst = "%s@%d" % (q.split("::")[-1], c[1] - f["line"])
            a = T.strip_casts(c[4][0]) if c[4] else None
            while T.is_node(a) and a[0] == "Paren":
                a = T.strip_casts(a[2])
            ok = False
            if T.is_node(a) and a[0] == "Bin" and a[2] == "/":
                den = T.strip_casts(a[4])
                if T.is_node(den) and den[0] == "Ref" and grams_defs.get(den[3]) == obj:
                    ok = True
            if ok:
                R.ok(RULE, inst, "multiply(%s): denominator is %s->Get_grams()" % (T.text(a)[:40], obj))
            else:
                R.violation(RULE, inst, "the charge structure %s is re-scaled by `%s`, which is not target / (its own grams): two site types on one charge structure apply the "
                            "factor twice (area and charge scaled by the factor squared)" % (obj, T.text(c[4][0])[:60] if c[4] else "?"), file=f["file"], line=c[1], function=q)
    if n < 2:
        R.anchor_missing(RULE, "re-scaling of the charge structure found %d times in update_min_surface / update_kin_surface" % n)
