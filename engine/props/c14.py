"""C14 – numbered reactants behave as a keyed store under COPY / DELETE / SAVE / USE / MODIFY.

Decided structurally:
  C14.blocks    kind drivers built from per-kind blocks (delete_entities, copy_entities, saver, set_use, reinitialize,
                list_components): every block touches one kind only (request, store and helper of the same kind), and the
                union of kinds equals the expected set (all eleven, minus frozen exceptions with reasons)
  C14.switch    keyword-dispatch drivers (read_copy, read_save, read_use): the kind named by each `case KEY_<KW>` label is
                the only kind its body touches; `cell` cases cover every kind exactly once; expected keyword sets covered
  C14.cell      RUN_CELLS: run_as_cells skips a requested cell only when none of the solution sources that set_advection
                accepts (SOLUTION n, MIX n) exists
  C14.consume   one-shot requests are consumed by the operation that executes them, per kind: in copy_entities the loop
                of kind k is followed by copier_clear(&copy_k) - each kind exactly once; delete_entities ends in
                delete_info.SetAll(false) and dump_ostream in dump_info.SetAll(false) on the path that executed requests
  C14.copy      COPY yields content-identical entries: user-provided copy constructor / assignment of entity classes copy
                every data member from rhs (or are exempt with reason); classes relying on implicit copies hold no raw
                owning pointer; Utilities::Rxn_copy assigns the target number to the copy (n_user and n_user_end)
  C14.components  the component list reflects every defined reactant: list_components visits every element-carrying kind;
                every run and every unload marks the list stale (UpdateComponents = true) and ListComponents refreshes
                iff stale and clears the flag
  C14.overwrite  COPY / range expansion onto an existing number replaces it: every instantiation of Rxn_copy / Rxn_copies stores the
                copy with an overwriting operation (b[j] = source, or erase + insert), never a bare insert/emplace
Not decided: (d) number-range arithmetic over all ranges; sequencing semantics over arbitrary histories.
"""
import json
import os

from .. import tree as T
from .. import rawio
from .. import kinds as KN
from ..facts import VERIF

PROP = "C14"
EXPLANATION = __doc__


def load_table(name):
    return json.load(open(os.path.join(VERIF, "tables", name)))


def label_name(c):
    e = T.strip_casts(c)
    return e[3].split("::")[-1] if T.is_node(e) and e[0] == "Ref" and e[2] == "enum" else None


def switch_groups_named(sw):
    """[(label names, statements, line)] with fall-through ignored (these drivers break after every case)"""
    body = sw[3]
    out, cur = [], None
    for s in (body[2] if body[0] == "Compound" else [body]):
        if T.is_node(s) and s[0] in ("Case", "Default"):
            labs, y = [], s
            while T.is_node(y) and y[0] in ("Case", "Default"):
                labs.append(label_name(y[2]) if y[0] == "Case" else "default")
                y = y[4] if y[0] == "Case" else y[2]
            cur = (labs, [y], s[1])
            out.append(cur)
        elif cur is not None:
            cur[1].append(s)
    return out


def kinds_of(K, node, by_name=True, classes=None):
    ks = set(K.by_type(node))
    if by_name:
        ks |= set(K.by_name(node, classes=classes))
    return ks


def run(P, R, tier):
    K = KN.get(P)
    ALL = set(K.stems)
    R.undecided += ["(d) number ranges are honoured for all ranges (arithmetic over run-time numbers)",
                    "sequencing semantics of COPY/DELETE/SAVE/USE over arbitrary histories"]
    tab = load_table("c14_expected.json")
    R.table("c14_expected.json", tab)

    # ------------------------------------------------------------------ C14.blocks
    R.rule("C14.blocks", "per-kind blocks of kind drivers touch one kind only; union of kinds = expected set", minimum=60)
    for drv in tab["block_drivers"]:
        fs = P.fns_named(drv["function"])
        if len(fs) != 1:
            R.anchor_missing("C14.blocks", "driver %s: %d definitions" % (drv["function"], len(fs)))
            continue
        f = fs[0]
        use_names = drv.get("by_name", True)
        classes = set(drv["name_classes"]) if drv.get("name_classes") else None
        expected = ALL - set(drv.get("except", {}))
        seen = {}
        stmts = f["body"][2] if f["body"][0] == "Compound" else []
        for s in stmts:
            if not T.is_node(s):
                continue
            ks = kinds_of(K, s, use_names, classes)
            if not ks:
                continue
            inst = "%s:block@%s" % (drv["function"].split("::")[-1], "+".join(sorted(ks)) if len(ks) <= 2 else "%dkinds" % len(ks))
            if len(ks) == 1:
                k = next(iter(ks))
                seen.setdefault(k, []).append(s[1])
                R.ok("C14.blocks", inst + "@%d" % len(seen[k]), "line %d" % s[1])
                continue
            # multi-kind statements: allowed shapes
            if ks >= expected and not writes_store(s):
                R.ok("C14.blocks", inst, "guard over all kinds (no store is modified)")
                continue
            allowed = [a for a in drv.get("multi_kind_blocks", []) if set(a["kinds"]) == ks]
            if allowed:
                R.ok("C14.blocks", inst, "frozen exception: " + allowed[0]["reason"])
                for k in ks:
                    seen.setdefault(k, []).append(s[1])
                continue
            R.violation("C14.blocks", inst, "one block of %s mixes kinds %s: a request of one kind is applied to another kind's store"
                        % (drv["function"], sorted(ks)), file=f["file"], line=s[1], function=f["q"])
        for k in sorted(expected):
            if k not in seen:
                R.violation("C14.blocks", "%s:missing:%s" % (drv["function"].split("::")[-1], k),
                            "%s has no block for kind %s (every other kind is handled): the operation silently skips it" % (drv["function"], k),
                            file=f["file"], line=f["line"], function=f["q"])
        for k in sorted(set(seen) - expected):
            R.anchor_missing("C14.blocks", "%s now handles kind %s which the table lists as an exception (%s)" % (drv["function"], k, drv["except"].get(k)))

    # ------------------------------------------------------------------ C14.switch
    R.rule("C14.switch", "keyword-dispatch drivers: the kind named by a case label is the only kind its body touches; cell cases cover all kinds", minimum=29)
    for drv in tab["switch_drivers"]:
        fs = P.fns_named(drv["function"])
        if len(fs) != 1:
            R.anchor_missing("C14.switch", "driver %s: %d definitions" % (drv["function"], len(fs)))
            continue
        f = fs[0]
        expected = ALL - set(drv.get("except", {}))
        covered = set()
        nsw = 0
        for x in T.walk(f["body"]):
            if x[0] != "Switch":
                continue
            groups = switch_groups_named(x)
            if not any(kinds_of(K, s) for labs, st, ln in groups for s in st if T.is_node(s)):
                continue     # a pure syntax switch (no kind touched in any case)
            nsw += 1
            for labs, st, ln in groups:
                lk = set()
                for lb in labs:
                    if lb and lb not in ("default", "KEY_NONE"):
                        lk |= K.of_name(lb[4:] if lb.startswith("KEY_") else lb)
                bk = set()
                for s in st:
                    if T.is_node(s):
                        bk |= kinds_of(K, s)
                inst = "%s:case %s" % (drv["function"].split("::")[-1], "/".join(l or "?" for l in labs))
                if "KEY_NONE" in labs:
                    if bk == ALL:
                        # each kind exactly once
                        cnt = {}
                        for s in st:
                            if T.is_node(s):
                                for c in T.calls(s):
                                    for k in kinds_of(K, c):
                                        cnt[k] = cnt.get(k, 0) + 1
                        dup = [k for k, n in cnt.items() if n > 1]
                        if dup:
                            R.violation("C14.switch", inst, "the `cell` case handles kind(s) %s more than once" % sorted(dup), file=f["file"], line=ln, function=f["q"])
                        else:
                            R.ok("C14.switch", inst, "cell: all %d kinds once" % len(ALL))
                    elif bk:
                        R.violation("C14.switch", inst, "the `cell` case covers %s, missing %s" % (sorted(bk), sorted(ALL - bk)), file=f["file"], line=ln, function=f["q"])
                    continue
                if not lk:
                    if bk:
                        R.violation("C14.switch", inst, "case without a kind keyword touches kind(s) %s" % sorted(bk), file=f["file"], line=ln, function=f["q"])
                    continue
                if len(labs) > 1 and not bk:
                    continue      # grouped syntax labels
                if bk == lk:
                    R.ok("C14.switch", inst, "kind %s" % sorted(lk))
                    covered |= lk
                else:
                    R.violation("C14.switch", inst, "case for keyword kind %s touches kind(s) %s: the request is recorded for / applied to the wrong kind"
                                % (sorted(lk), sorted(bk)), file=f["file"], line=ln, function=f["q"])
        if nsw == 0:
            R.anchor_missing("C14.switch", "%s: no kind-dispatch switch found" % drv["function"])
            continue
        for k in sorted(expected - covered):
            R.violation("C14.switch", "%s:missing:%s" % (drv["function"].split("::")[-1], k), "%s has no case for kind %s" % (drv["function"], k),
                        file=f["file"], line=f["line"], function=f["q"])
        for k in sorted(covered - expected):
            R.anchor_missing("C14.switch", "%s now handles kind %s listed as an exception" % (drv["function"], k))

    consume_rules(P, R, K)
    range_rule(P, R, K)
    defer_rule(P, R)
    cell_rule(P, R, K)
    copy_rules(P, R, K, tab)
    component_rules(P, R, K, tab)
    overwrite_rule(P, R, K)
    pending_rule(P, R)
    modifyone_rule(P, R)
    saveends_rule(P, R)
    savernull_rule(P, R)
    rangeorder_rule(P, R)
    wholeclear_rule(P, R)
    modifydesc_rule(P, R)
    modifynew_rule(P, R)
    rawrange_rule(P, R)
    mixorder_rule(P, R)


def writes_store(s):
    for tgt, how, line, node in T.writes(s):
        root, steps = T.access_path(tgt)
        if steps and steps[0][0] == "f" and steps[0][1].startswith("Phreeqc::Rxn_"):
            return True
    return False


# ------------------------------------------------------------------------------------------ RUN_CELLS cell guard

def cell_rule(P, R, K):
    """RUN_CELLS reads the current content of cell n.  run_as_cells silently skips a cell only when it has no solution source;
    the sources are the kinds from which set_advection takes the cell's solution (a stored SOLUTION n or a MIX n).  The skip
    guard must test exactly those kinds: testing fewer skips cells that are defined (e.g. by a MIX only)."""
    R.rule("C14.cell", "run_as_cells skips a requested cell only when none of the solution sources accepted by set_advection exists", minimum=1)
    sa = P.one("Phreeqc::set_advection")
    sources = set()
    stop_line = None
    for c in T.calls(sa["body"]):
        if T.callee_name(c) == "error_msg" and len(c[4]) >= 2 and T.lit_value(c[4][1]) not in (0, None):
            stop_line = c[1] if stop_line is None else min(stop_line, c[1])
    for c in T.calls(sa["body"]):
        if T.callee_name(c) == "Rxn_find" and (stop_line is None or c[1] <= stop_line):
            sources |= set(K.by_type(c))
    if not sources or stop_line is None:
        R.anchor_missing("C14.cell", "set_advection: solution sources / missing-solution STOP error not recognised")
        return
    for f in P.fns_named("Phreeqc::run_as_cells"):
        guard = None
        for lp in T.walk(f["body"]):
            if lp[0] != "For":
                continue
            body = lp[5][2] if T.is_node(lp[5]) and lp[5][0] == "Compound" else []
            if not any(T.is_node(s_) and any(T.callee_name(c) == "set_advection" for c in T.calls(s_)) for s_ in body):
                continue
            for s_ in body:
                if T.is_node(s_) and s_[0] == "If" and T.is_node(s_[3]) and any(y[0] == "Continue" for y in T.walk(s_[3])) and \
                        any(T.callee_name(c) == "Rxn_find" for c in T.calls(s_[2])):
                    guard = s_
        if guard is None:
            R.anchor_missing("C14.cell", "run_as_cells: skip guard before set_advection not found")
            continue
        tested = set()
        for part in flatten_and(guard[2]):
            p_ = T.strip_casts(part)
            if p_[0] == "Bin" and p_[2] == "==" and T.lit_value(p_[4]) == 0:
                for c in T.calls(p_[3]):
                    if T.callee_name(c) == "Rxn_find":
                        tested |= set(K.by_type(c))
        inst = "run_as_cells:skip-guard"
        if tested == sources:
            R.ok("C14.cell", inst, "skips only when no %s exists" % " and no ".join(sorted(sources)))
        else:
            R.violation("C14.cell", inst, "run_as_cells skips a cell when %s is missing, but set_advection takes the cell's solution from %s: a cell defined only by %s is "
                        "silently skipped by RUN_CELLS" % (sorted(tested), sorted(sources), sorted(sources - tested) or "?"), file=f["file"], line=guard[1], function=f["q"])


def range_rule(P, R, K):
    """`KIND n-m` is stored as entry n with a range end m and expanded by Rxn_copies(store, n, m).  The expansion is driven from
    code that runs again later (tidy_model on every new definition of the kind, the initial-equilibration drivers), so the
    source entry's range must be collapsed when it is expanded - by Set_n_user_end(n) on the source or by the x<kind>_save(n)
    that rewrites entry n - otherwise a later pass copies n over n+1..m again: deleted copies reappear, modified ones are
    overwritten."""
    R.rule("C14.range", "a range expansion Rxn_copies(store, n, end-of-source) collapses the source's range (Set_n_user_end(n) or x<kind>_save(n))", minimum=6)
    for key, f in sorted(P.functions.items()):
        if not f["q"].startswith("Phreeqc::"):
            continue
        calls = [c for c in T.calls(f["body"]) if T.callee_name(c) == "Rxn_copies" and len(c[4]) == 3]
        if not calls:
            continue
        # locals defined from <x>.Get_n_user_end()
        ends = {}
        for x in T.walk(f["body"]):
            src = None
            if x[0] == "Bin" and x[2] == "=" and T.strip_casts(x[3])[0] == "Ref":
                tgt, src = T.strip_casts(x[3])[3], x[4]
            elif x[0] == "Decl":
                for d in x[2]:
                    if T.is_node(d[2]):
                        r = T.strip_casts(d[2])
                        if r[0] == "Call" and T.callee_name(r) == "Get_n_user_end" and T.is_node(r[3]):
                            ends[d[0]] = T.text(r[3])
                continue
            if src is not None:
                r = T.strip_casts(src)
                if r[0] == "Call" and T.callee_name(r) == "Get_n_user_end" and T.is_node(r[3]):
                    ends[tgt] = T.text(r[3])
        for c in calls:
            e = T.strip_casts(c[4][2])
            if not (e[0] == "Ref" and e[2] == "local" and e[3] in ends):
                continue          # range taken from a save request or a just-read temporary, not from a stored source entry
            owner = ends[e[3]]
            store = T.text(c[4][0]).split(".")[-1]
            kinds = K.of_name(store)
            nkey = T.text(c[4][1])
            inst = "%s:%s@%d" % (f["q"].split("::")[-1], store, c[1])
            collapse = [y for y in T.calls(f["body"]) if T.callee_name(y) == "Set_n_user_end" and T.is_node(y[3]) and T.text(y[3]) == owner and len(y[4]) == 1 and T.text(y[4][0]) == nkey]
            saved = [y for y in T.calls(f["body"]) if re_save(T.callee_name(y)) and K.of_name(T.callee_name(y)) == kinds and y[4] and T.text(y[4][0]) == nkey and y[1] < c[1]]
            if collapse:
                R.ok("C14.range", inst, "%s.Set_n_user_end(%s)" % (owner, nkey))
            elif saved:
                R.ok("C14.range", inst, "%s(%s) rewrites the source as a single entry" % (T.callee_name(saved[0]), nkey))
            else:
                R.violation("C14.range", inst, "the range of %s is expanded with Rxn_copies but the source entry keeps its range end: every later pass copies entry %s over the "
                            "rest of the range again (deleted entries reappear, modified ones are overwritten)" % (owner, nkey), file=f["file"], line=c[1], function=f["q"])


def defer_rule(P, R):
    """DELETE -cells n names entry n of EVERY kind.  In StorageBinList::Read a kind-wide option line ("-equilibrium_phases"
    without numbers) is stored as "defined, no numbers" = all, and does not clear numbers already present.  The cell numbers
    must therefore be spread over the kinds only after all option lines have been read (after the option loop); spreading them
    while reading makes `-cells 2` followed by a kind-wide line delete only entry 2 of that kind."""
    R.rule("C14.defer", "StorageBinList::Read spreads the -cells numbers over all kinds after the option loop, not while reading", minimum=1)
    f = P.one("StorageBinList::Read")
    where = dict(file=f["file"], function=f["q"])
    loops = [x for x in f["body"][2] if T.is_node(x) and x[0] in ("For", "While", "Do")]
    if not loops:
        R.anchor_missing("C14.defer", "StorageBinList::Read: option loop not found")
        return
    lp = loops[0]
    inside = [c for c in T.calls(lp) if T.callee_name(c) in ("TransferAll",)]
    after = []
    seen = False
    for st in f["body"][2]:
        if st is lp:
            seen = True
            continue
        if seen and T.is_node(st):
            after += [c for c in T.calls(st) if T.callee_name(c) == "TransferAll"]
    if inside:
        R.violation("C14.defer", "StorageBinList::Read", "the cell numbers are spread over the kinds inside the option loop (line %d): the result of a DELETE block depends on the order of its "
                    "option lines, and `-cells n` before a kind-wide line removes only entry n of that kind" % inside[0][1], line=inside[0][1], **where)
    elif after:
        R.ok("C14.defer", "StorageBinList::Read", "TransferAll after the option loop (line %d)" % after[0][1])
    else:
        R.anchor_missing("C14.defer", "StorageBinList::Read: TransferAll call not found")


def re_save(name):
    import re
    return bool(re.match(r"^x[a-z_]+_save$", name or ""))


def flatten_and(n):
    n = T.strip_casts(n)
    if T.is_node(n) and n[0] == "Bin" and n[2] == "&&":
        return flatten_and(n[3]) + flatten_and(n[4])
    return [n]


# ------------------------------------------------------------------------------------------ consumption

def consume_rules(P, R, K):
    R.rule("C14.consume", "one-shot COPY/DELETE/DUMP requests are consumed per kind by the operation that executes them", minimum=13)
    f = P.one("Phreeqc::copy_entities")
    stmts = [s for s in f["body"][2] if T.is_node(s)]
    cleared = {}
    prev_kind = None
    for s in stmts:
        if s[0] in ("For", "While", "RangeFor"):
            ks = kinds_of(K, s)
            prev_kind = next(iter(ks)) if len(ks) == 1 else None
            continue
        if s[0] == "Call" and T.callee_name(s) == "copier_clear":
            ks = kinds_of(K, s)
            inst = "copy_entities:clear:%s" % "+".join(sorted(ks))
            if len(ks) != 1:
                R.violation("C14.consume", inst, "copier_clear argument names %d kinds" % len(ks), file=f["file"], line=s[1], function=f["q"])
                continue
            k = next(iter(ks))
            cleared[k] = cleared.get(k, 0) + 1
            if prev_kind != k:
                R.violation("C14.consume", inst, "the copy loop of kind %s is followed by copier_clear of kind %s: the %s requests are never consumed and are "
                            "re-executed by the next simulation with a COPY" % (prev_kind, k, prev_kind), file=f["file"], line=s[1], function=f["q"])
            elif cleared[k] > 1:
                R.violation("C14.consume", inst, "request list of kind %s is cleared %d times" % (k, cleared[k]), file=f["file"], line=s[1], function=f["q"])
            else:
                R.ok("C14.consume", inst, "loop and clear of the same kind")
            prev_kind = None
    for k in K.stems:
        if k not in cleared:
            R.violation("C14.consume", "copy_entities:clear:missing:%s" % k, "copy_entities never clears the request list copy_%s: its COPY requests are repeated by "
                        "every later simulation that contains a COPY" % k, file=f["file"], line=f["line"], function=f["q"])
    # delete_entities / dump_ostream end in SetAll(false)
    for q, fld in (("Phreeqc::delete_entities", "Phreeqc::delete_info"), ("Phreeqc::dump_ostream", "Phreeqc::dump_info")):
        g = P.one(q)
        cfg = T.CFG(g)
        hits = []
        for nd in cfg.nodes:
            n = nd["n"]
            if T.is_node(n):
                for c in T.calls(n):
                    if T.callee_name(c) == "SetAll" and T.is_node(c[3]):
                        root, steps = T.access_path(c[3])
                        if steps and steps[0] == ("f", fld) and c[4] and T.lit_value(c[4][0]) == 0:
                            hits.append(nd["id"])
        inst = "%s:SetAll(false)" % q.split("::")[-1]
        if not hits:
            R.violation("C14.consume", inst, "%s no longer resets %s with SetAll(false): the request is executed again by the next simulation" % (q, fld.split("::")[-1]),
                        file=g["file"], line=g["line"], function=g["q"])
            continue
        # every path that modifies a store / dumps passes the reset: the reset post-dominates every store-writing node
        pdom = cfg.dominators(post=True)
        bad = []
        for nd in cfg.nodes:
            n = nd["n"]
            if not T.is_node(n) or nd["id"] not in pdom:
                continue
            acts = writes_store(n) or any(T.callee_name(c) in ("dump_raw", "Rxn_dump_raw") for c in T.calls(n))
            if acts and not any(h in pdom[nd["id"]] for h in hits):
                bad.append(nd["line"])
        if bad:
            R.violation("C14.consume", inst, "a path that executes a request (line %s) leaves %s without resetting the request" % (bad[:3], q),
                        file=g["file"], line=bad[0], function=g["q"])
        else:
            R.ok("C14.consume", inst, "post-dominates every request-executing statement")


# ------------------------------------------------------------------------------------------ copies

def copy_rules(P, R, K, tab):
    R.rule("C14.copy", "user-provided copies copy every member; implicit copies hold no raw owning pointer; Rxn_copy renumbers the copy", minimum=40)
    exempt = {(e["class"], e["field"]): e["reason"] for e in tab.get("copy_exempt", [])}
    ptr_ok = {(e["class"], e["field"]): e["reason"] for e in tab.get("pointer_members", [])}
    entity_classes = sorted(c for c in P.records if c.startswith("cxx") and (c in K.class_stem or any(
        c in (f["ctype"]) for k in K.class_stem for f in P.records[k]["fields"])))
    # component classes: appear by value (vector/map element) in an entity class or in another component class
    comp = set(entity_classes)
    changed = True
    while changed:
        changed = False
        for c in list(comp):
            for f in P.records[c]["fields"]:
                for d in P.records:
                    if d.startswith("cxx") and d not in comp and d in f["ctype"].replace("class ", "") and "*" not in f["ctype"]:
                        comp.add(d)
                        changed = True
    for cls in sorted(comp):
        rec = P.records[cls]
        fields = list(rec["fields"])
        for b in rec["bases"]:
            if b in P.records and b != "PHRQ_base":
                fields += P.records[b]["fields"]
        for which, special in (("copy constructor", "copyctor"), ("copy assignment", "copyassign")):
            user = rec["userCopyCtor"] if special == "copyctor" else rec["userCopyAssign"]
            if not user:
                continue
            fn = [f for f in P.functions.values() if f.get("cls") == cls and f.get("special") == special]
            if not fn:
                # copy assignment is not marked special for functions: find operator= taking const cls &
                fn = [f for f in P.functions.values() if f["q"] == cls + "::operator=" and len(f["params"]) == 1 and cls in f["params"][0]]
            if not fn:
                R.violation("C14.copy", "%s:%s" % (cls, which), "user-declared %s has no definition in the library" % which, file=rec["file"], line=rec["line"], function=cls)
                continue
            f = fn[0]
            pname = f["pnames"][0] if f["pnames"] else "rhs"
            # delegation: `*this = rhs;` in the copy constructor
            if special == "copyctor" and any(T.callee_q(c) == cls + "::operator=" and any(
                    y[0] == "Ref" and y[2] == "param" and y[3] == pname for a in c[4] if T.is_node(a) for y in T.walk(a)) for c in T.calls(f["body"])):
                R.ok("C14.copy", "%s:%s:*" % (cls, special), "delegates to the copy assignment (`*this = %s`)" % pname)
                continue
            copied = set()
            roots = [f["body"]] + [i[3] for i in f.get("inits", [])]
            for i in f.get("inits", []):
                # base-class or member initialiser from rhs
                for x in T.walk(i[3]):
                    if x[0] == "Ref" and x[2] == "param" and x[3] == pname:
                        copied.add(("init", i[0]))
            base_copied = set()
            for rt in roots:
                for x in T.walk(rt):
                    if x[0] == "Member" and T.is_node(x[3]):
                        b = T.strip_casts(x[3])
                        if b[0] == "Ref" and b[2] == "param" and b[3] == pname:
                            copied.add(("field", x[2]))
                # whole-base copies: cxxNumKeyword(rhs) / cxxNumKeyword::operator=(rhs)
                for c in list(T.calls(rt)) + [y for y in T.walk(rt) if y[0] == "Construct"]:
                    cd = c[2]
                    if isinstance(cd, dict) and cd.get("cls") in rec["bases"]:
                        args = c[4] if c[0] == "Call" else c[3]
                        if any(any(y[0] == "Ref" and y[2] == "param" and y[3] == pname for y in T.walk(a)) for a in args if T.is_node(a)):
                            base_copied.add(cd["cls"])
            for i in f.get("inits", []):
                if i[0] in rec["bases"] and ("init", i[0]) in copied:
                    base_copied.add(i[0])
            for fld in fields:
                owner = fld["q"].rsplit("::", 1)[0]
                inst = "%s:%s:%s" % (cls, special, fld["name"])
                if ("field", fld["q"]) in copied or ("init", fld["name"]) in copied or owner in base_copied:
                    R.ok("C14.copy", inst, "copied from %s" % pname)
                elif (cls, fld["name"]) in exempt:
                    R.ok("C14.copy", inst, "exempt: " + exempt[(cls, fld["name"])])
                else:
                    R.violation("C14.copy", inst, "%s of %s does not copy member %s from %s: a COPY of this entity differs from its source"
                                % (which, cls, fld["name"], pname), file=f["file"], line=f["line"], function=f["q"])
        # raw pointers in implicitly copied classes
        for fld in rec["fields"]:
            if "*" in fld["type"]:
                inst = "%s:pointer:%s" % (cls, fld["name"])
                if rec["userCopyCtor"] and rec["userCopyAssign"]:
                    # must be deep-copied: a `new` in both copy functions mentioning the member
                    deep = 0
                    for f in P.functions.values():
                        if f.get("cls") == cls and (f.get("special") == "copyctor" or f["q"] == cls + "::operator="):
                            if any(x[0] == "New" for x in T.walk(f["body"])) and any(x[0] == "Member" and x[2] == fld["q"] for x in T.walk(f["body"])):
                                deep += 1
                    delegating = any(f.get("cls") == cls and f.get("special") == "copyctor" and any(T.callee_q(c) == cls + "::operator=" for c in T.calls(f["body"]))
                                     for f in P.functions.values())
                    if deep >= 2 or (deep >= 1 and delegating):
                        R.ok("C14.copy", inst, "owning pointer, deep-copied by both user-provided copy operations")
                    else:
                        R.violation("C14.copy", inst, "owning pointer member is not deep-copied by both copy operations (copies would alias)", file=rec["file"], line=fld["line"], function=cls)
                elif (cls, fld["name"]) in ptr_ok:
                    R.ok("C14.copy", inst, "non-owning: " + ptr_ok[(cls, fld["name"])])
                else:
                    R.violation("C14.copy", inst, "class %s relies on the implicit copy but holds raw pointer member %s: COPY would alias, not duplicate"
                                % (cls, fld["name"]), file=rec["file"], line=fld["line"], function=cls)
    # Rxn_copy renumbers
    fs = [f for f in P.functions.values() if f["q"].startswith("Utilities::Rxn_copy<")]
    R.require(len(fs) >= 11, "C14.copy", "Utilities::Rxn_copy: only %d instantiations found (11 kinds)" % len(fs))
    for f in fs:
        setters = set(T.callee_name(c) for c in T.calls(f["body"]))
        kind = "+".join(sorted(K.of_type(f["q"])))
        inst = "Rxn_copy<%s>" % kind
        if "Set_n_user" in setters and "Set_n_user_end" in setters:
            R.ok("C14.copy", inst, "sets n_user and n_user_end of the copy")
        elif "Set_n_user_both" in setters:
            R.ok("C14.copy", inst, "Set_n_user_both")
        else:
            R.violation("C14.copy", inst, "Rxn_copy does not assign the target number to the copy (n_user / n_user_end)", file=f["file"], line=f["line"], function=f["q"])


def overwrite_rule(P, R, K):
    """COPY and range expansion replace an existing target number: Rxn_copy / Rxn_copies store the copy with an overwriting
    operation (map operator[] followed by class assignment, or erase before insert); a non-overwriting insert/emplace keeps the
    old entry of an existing number (and the next number of a range would then be copied from that stale entry)."""
    R.rule("C14.overwrite", "Rxn_copy / Rxn_copies / Rxn_read_raw / Rxn_mix overwrite an existing target number (operator[] assignment or erase+insert, never a bare insert/emplace)",
           minimum=40)
    n = 0
    for tag in ("Rxn_copy", "Rxn_copies", "Rxn_read_raw", "Rxn_mix"):
        fs = [f for f in P.functions.values() if f["q"].startswith("Utilities::%s<" % tag)]
        for f in fs:
            n += 1
            kind = "+".join(sorted(K.of_type(f["q"])))
            inst = "%s<%s>" % (tag, kind)
            calls = list(T.calls(f["body"]))
            names = [T.callee_q(c) or "" for c in calls]
            assigns_sub = False
            for c in calls:
                if (T.callee_q(c) or "").endswith("::operator=") and c[4]:
                    lhs = T.strip_casts(c[4][0])
                    if lhs[0] == "Call" and (T.callee_q(lhs) or "").startswith("std::map<") and (T.callee_q(lhs) or "").endswith("::operator[]"):
                        assigns_sub = True
            nonover = [q for q in names if q.startswith("std::map<") and q.split("::")[-1] in ("insert", "emplace", "try_emplace", "emplace_hint")]
            erases = any(q.startswith("std::map<") and q.endswith("::erase") for q in names)
            if nonover and not erases:
                R.violation("C14.overwrite", inst, "the copy is stored with std::map::%s, which keeps an existing entry: copying onto an existing number (COPY, `KIND n-m`, SAVE n-m over "
                            "defined numbers) silently leaves the old content" % nonover[0].split("::")[-1], file=f["file"], line=f["line"], function=f["q"])
            elif assigns_sub or (nonover and erases):
                R.ok("C14.overwrite", inst, "b[j] = source (overwrites)" if assigns_sub else "erase + insert")
            else:
                R.violation("C14.overwrite", inst, "no overwriting store of the copy found (expected `b[j] = it->second`)", file=f["file"], line=f["line"], function=f["q"])
    if n < 40:
        R.anchor_missing("C14.overwrite", "only %d instantiations of Utilities::Rxn_copy / Rxn_copies / Rxn_read_raw / Rxn_mix found (11 + 11 + 11 + 7 kinds)" % n)


# ------------------------------------------------------------------------------------------ components

def component_rules(P, R, K, tab):
    R.rule("C14.components", "component list: every element-carrying kind visited; runs and unloads mark it stale; ListComponents refreshes iff stale", minimum=5)
    # writers of IPhreeqc::UpdateComponents
    w = []
    for key, f in P.functions.items():
        for tgt, how, line, node in T.writes(f["body"]):
            root, steps = T.access_path(tgt)
            if steps and steps[-1] == ("f", "IPhreeqc::UpdateComponents"):
                w.append((f, line, node))
        for i in f.get("inits", []):
            if i[0] in ("UpdateComponents", "IPhreeqc::UpdateComponents"):
                w.append((f, f["line"], None))
    setters_true = set(f["q"] for f, line, node in w if node is not None and node[0] == "Bin" and T.lit_value(node[4]) == 1)
    for q in ("IPhreeqc::do_run", "IPhreeqc::UnLoadDatabase"):
        fs = P.fns_named(q)
        inst = "%s:stale" % q.split("::")[-1]
        if not fs:
            R.anchor_missing("C14.components", "%s not found" % q)
            continue
        f = fs[0]
        cfg = T.CFG(f)
        pd = cfg.dominators(post=True)
        hit = [nd["id"] for nd in cfg.nodes if T.is_node(nd["n"]) and any(
            t is not None and T.access_path(t)[1][-1:] == [("f", "IPhreeqc::UpdateComponents")] and T.lit_value(n[4]) == 1
            for t, how, line, n in T.writes(nd["n"]) if n[0] == "Bin")]
        if q == "IPhreeqc::do_run":
            # a failing simulation leaves do_run by exception: the flag must be set BEFORE the engine reads or runs
            # anything, i.e. the assignment dominates every call of Phreeqc::read_input
            dom = cfg.dominators()
            reads = [nd["id"] for nd in cfg.nodes if T.is_node(nd["n"]) and any(T.callee_q(c) == "Phreeqc::read_input" for c in T.calls(nd["n"]))]
            if not reads:
                R.anchor_missing("C14.components", "do_run no longer calls Phreeqc::read_input")
            elif hit and all(any(h in dom.get(r, ()) for h in hit) for r in reads):
                R.ok("C14.components", inst, "UpdateComponents = true dominates the first engine read (line %d)" % min(cfg.nodes[h]["line"] for h in hit))
            else:
                R.violation("C14.components", inst, "do_run does not mark the component list stale before the engine runs: a run that stores reactants and then "
                            "fails (exception path) leaves the cached list in place", file=f["file"], line=f["line"], function=f["q"])
        elif hit and any(h in pd.get(cfg.entry, ()) for h in hit):
            R.ok("C14.components", inst, "UpdateComponents = true on every normal path")
        else:
            R.violation("C14.components", inst, "%s does not mark the component list stale (UpdateComponents = true) on every normal path" % q,
                        file=f["file"], line=f["line"], function=f["q"])
    # sources that do not depend on amounts: a phase of an assemblage may hold 0 mol (and a phase with an alternative formula is skipped by
    # totalize), a REACTION has no amounts at all - their elements come from the formula lists, not from amount-weighted totals
    lcs = [g for g in P.fns_named("Phreeqc::list_components") if g.get("body")]
    if lcs:
        g = lcs[0]
        for store, getter, what in (("Phreeqc::Rxn_pp_assemblage_map", "Get_eltList", "pure-phase assemblages"), ("Phreeqc::Rxn_reaction_map", "Get_elementList", "REACTION")):
            blks = [x for x in T.walk(g["body"]) if x[0] in ("For",) and any(y[0] == "Member" and y[2] == store for y in T.walk(x))]
            inst = "list_components:%s" % store.split("Rxn_")[-1].replace("_map", "")
            if not blks:
                R.anchor_missing("C14.components", "list_components: loop over %s not found" % store)
                continue
            adds = [c for c in T.calls(blks[0]) if T.callee_name(c) == "add_extensive" and c[4]]
            src = [T.callee_name(cc) for a in adds for cc in T.calls(a[4][0])]
            if getter in src:
                R.ok("C14.components", inst, "elements from %s (independent of amounts)" % getter)
            else:
                R.violation("C14.components", inst, "the elements of %s are taken from `%s`, amount-weighted totals, instead of %s: a phase at 0 mol or with an alternative formula "
                            "contributes no element names and its elements are missing from the component list" % (what, ", ".join(src) or "?", getter),
                            file=g["file"], line=blks[0][1], function=g["q"])
    # reading the list is an observation: list_components works on copies of the stored entities
    if lcs:
        g = lcs[0]
        muts = []
        for c in T.calls(g["body"]):
            for a in (c[4] or []):
                a0 = T.strip_casts(a)
                if a0[0] == "Un" and a0[2] == "&" and "second" in T.text(a0[3]) and ("it" in T.text(a0[3])):
                    muts.append((c, "passes the address of the stored entry `%s` to %s" % (T.text(a0[3])[:30], T.callee_name(c))))
            if T.is_node(c[3]) and "second" in T.text(c[3]) and c[2].get("k") == "method" and not c[2].get("const") and (c[2].get("cls") or "").startswith("cxx"):
                muts.append((c, "calls the non-const %s on the stored entry" % T.callee_name(c)))
        if muts:
            R.violation("C14.components", "list_components:readonly", "list_components %s: asking for the component list changes the stored reactant (its DUMP differs depending on "
                        "whether the list was read)" % muts[0][1], file=g["file"], line=muts[0][0][1], function=g["q"])
        else:
            R.ok("C14.components", "list_components:readonly", "every stored entity is copied before it is totalised")
    lc = P.fns_named("IPhreeqc::ListComponents")
    if not lc:
        R.anchor_missing("C14.components", "IPhreeqc::ListComponents not found")
    else:
        f = lc[0]
        ok_if = False
        for x in T.walk(f["body"]):
            if x[0] == "If" and any(y[0] == "Member" and y[2] == "IPhreeqc::UpdateComponents" for y in T.walk(x[2])):
                calls = set(T.callee_name(c) for c in T.calls(x[3]))
                clears = any(T.access_path(t)[1][-1:] == [("f", "IPhreeqc::UpdateComponents")] and n[0] == "Bin" and T.lit_value(n[4]) == 0
                             for t, how, line, n in T.writes(x[3]))
                if "list_components" in calls and clears:
                    ok_if = True
        if ok_if:
            R.ok("C14.components", "ListComponents:refresh", "refreshes through Phreeqc::list_components iff stale and clears the flag")
        else:
            R.violation("C14.components", "ListComponents:refresh", "ListComponents does not refresh-and-clear under `if (UpdateComponents)`",
                        file=f["file"], line=f["line"], function=f["q"])
    # every accessor of the component list goes through ListComponents
    for q in ("IPhreeqc::GetComponentCount", "IPhreeqc::GetComponent"):
        fs = P.fns_named(q)
        if not fs:
            R.anchor_missing("C14.components", "%s not found" % q)
            continue
        f = fs[0]
        if any(T.callee_name(c) == "ListComponents" for c in T.calls(f["body"])):
            R.ok("C14.components", q.split("::")[-1], "refreshes through ListComponents")
        else:
            R.violation("C14.components", q.split("::")[-1], "%s reads the component list without refreshing it" % q, file=f["file"], line=f["line"], function=f["q"])


def pending_rule(P, R):
    """Requests that are recorded while a simulation is read and carried out at its end - COPY (members of type `copier`), DELETE
    (delete_info) and the *_MIX definitions (the std::map<int, cxxMix> members do_mixes consumes) - belong to that simulation.  A
    simulation that stops early never carries them out; read_input, which every simulation starts with, must discard them on every
    path, otherwise a later simulation or call deletes / copies entries it does not name ("DELETE removes exactly the named entries")."""
    RULE = "C14.pending"
    R.rule(RULE, "read_input discards the pending COPY / DELETE / *_MIX / DUMP / RUN_CELLS requests of an earlier simulation on every path", minimum=21)
    rec = P.records.get("Phreeqc")
    f = P.one("Phreeqc::read_input")
    dm = P.one("Phreeqc::do_mixes")
    mixmaps = {x[2].split("::")[-1] for x in T.walk(dm["body"]) if x[0] == "Member" and x[2].startswith("Phreeqc::")}
    need = []
    for fl in rec["fields"]:
        if fl["type"] == "class copier" or fl["type"] == "StorageBinList" and fl["name"] == "delete_info":
            need.append(fl["name"])
        elif "cxxMix" in fl["type"] and fl["type"].startswith("std::map<int") and fl["name"] in mixmaps:
            need.append(fl["name"])
        elif fl["type"] in ("dumper", "runner"):
            need.append(fl["name"])         # DUMP and RUN_CELLS requests
    if len(need) < 21:
        R.anchor_missing(RULE, "only %d request members found (11 copier, delete_info, 7 mix maps, dump_info, run_info expected)" % len(need))
        return
    cleared = {}

    def collect(fn, depth):
        cfg = T.CFG(fn)
        dom = cfg.dominators()
        for nd in cfg.nodes:
            n = nd["n"]
            if not T.is_node(n) or nd["id"] not in dom.get(cfg.exit, ()):
                continue
            collect_node(n, depth)

    def collect_node(n, depth):
        for c in T.calls(n):
            q = T.callee_q(c) or ""
            if depth < 2 and q.startswith("Phreeqc::") and T.callee_name(c) not in ("copier_clear",):
                gs = P.fns_named(q)
                if len(gs) == 1 and gs[0].get("body"):
                    collect(gs[0], depth + 1)      # a helper that discards them on every path counts
            nm = T.callee_name(c)
            if nm == "copier_clear" and c[4]:
                a = T.strip_casts(c[4][0])
                if T.is_node(a) and a[0] == "Un" and a[2] == "&" and T.is_node(a[3]) and a[3][0] == "Member":
                    cleared[a[3][2].split("::")[-1]] = c[1]
            elif nm == "clear" or (nm in ("SetAll", "Set_run_cells", "Set_defined") and c[4] and T.lit_value(T.strip_casts(c[4][0])) == 0):
                o = T.call_obj(c)
                for y in (T.walk(o) if T.is_node(o) else ()):          # run_info.Get_cells().Set_defined(false)
                    if y[0] == "Member" and y[2].startswith("Phreeqc::"):
                        cleared[y[2].split("::")[-1]] = c[1]
    collect(f, 0)
    for m in need:
        if m in cleared:
            R.ok(RULE, m, "discarded at line %d on every path through read_input" % cleared[m])
        else:
            R.violation(RULE, m, "read_input does not discard %s on every path: a request recorded by a simulation that stopped before carrying it out is executed by the next "
                        "simulation or call, which did not name it" % m, file=f["file"], line=f["line"], function=f["q"])


def modifyone_rule(P, R):
    """"*_MODIFY changes only the named quantities of the named entry": Utilities::Rxn_read_modify modifies entry n in place.  Every entry
    that carries a range end m > n is expanded by tidy_model (Rxn_copies n -> n+1..m) whenever the kind is (re)defined - so the reader
    must not leave the range end of the `<KEYWORD>_MODIFY n-m` line on the entry: the value given to Set_n_user_end has to be the entry's
    own number (the value given to Set_n_user).  Checked for every instantiation of the template."""
    RULE = "C14.modifyone"
    R.rule(RULE, "Rxn_read_modify leaves no range end on the modified entry (Set_n_user_end receives the entry's own number)", minimum=8)
    fs = [g for g in P.functions.values() if g["q"].startswith("Utilities::Rxn_read_modify<")]
    if len(fs) < 8:
        R.anchor_missing(RULE, "only %d instantiations of Utilities::Rxn_read_modify" % len(fs))
        return
    for g in sorted(fs, key=lambda f: f["q"]):
        inst = g["q"][len("Utilities::Rxn_read_modify<"):-1]
        a = [c for c in T.calls(g["body"]) if T.callee_name(c) == "Set_n_user" and c[4]]
        b = [c for c in T.calls(g["body"]) if T.callee_name(c) == "Set_n_user_end" and c[4]]
        both = [c for c in T.calls(g["body"]) if T.callee_name(c) == "Set_n_user_both"]
        if not a and not both:
            R.anchor_missing(RULE, "%s: neither Set_n_user nor Set_n_user_both called" % g["q"])
            continue
        own = " ".join(T.text((a or both)[-1][4][0]).split())
        bad = [c for c in b if " ".join(T.text(c[4][0]).split()) != own]
        if bad:
            R.violation(RULE, inst, "Rxn_read_modify gives the entry the range end `%s` of the MODIFY line (its number is `%s`): tidy_model then copies the entry over the following "
                        "numbers, at once or when the kind is next defined" % (T.text(bad[0][4][0])[:40], own[:40]), file=g["file"], line=bad[0][1], function=g["q"])
        elif b or both:
            R.ok(RULE, inst, "range end = own number")
        else:
            R.violation(RULE, inst, "Rxn_read_modify does not reset the range end of the entry (read_raw may have read one from the MODIFY line)", file=g["file"], line=(a or both)[-1][1], function=g["q"])


def saveends_rule(P, R):
    """"SAVE writes the calculated result under the given numbers": saver() stores each kind under save.n_<kind>_user and copies it to
    every number up to save.n_<kind>_user_end.  Code that redirects the saving (copy_use(-2) for the intermediate steps of a multi-step
    calculation, the cell drivers) must set both ends together: a block that assigns n_<kind>_user and leaves n_<kind>_user_end as an
    earlier SAVE or cell left it makes saver() copy the intermediate result over the entries -1, 0, ... up to that stale end."""
    RULE = "C14.saveends"
    R.rule(RULE, "every block that assigns save.n_<kind>_user also assigns save.n_<kind>_user_end", minimum=40)
    import re as _re
    n = 0
    for k, g in sorted(P.functions.items(), key=lambda kv: kv[1]["q"]):
        for comp in T.walk(g["body"]):
            if comp[0] != "Compound":
                continue
            starts, ends = {}, set()
            for st in comp[2]:
                if not (T.is_node(st) and st[0] == "Bin" and st[2] == "="):
                    continue
                for y in T.walk(st):        # chained assignments too
                    if y[0] == "Bin" and y[2] == "=":
                        t = T.strip_casts(y[3])
                        if T.is_node(t) and t[0] == "Member":
                            m = _re.match(r"save::n_(\w+)_user(_end)?$", t[2])
                            if m and m.group(2):
                                ends.add(m.group(1))
                            elif m:
                                starts[m.group(1)] = y[1]
            for kind, line in sorted(starts.items()):
                n += 1
                inst = "%s:%s@%d" % (g["q"].split("::")[-1], kind, line)
                if kind in ends:
                    R.ok(RULE, inst, "both ends set")
                else:
                    R.violation(RULE, inst, "save.n_%s_user is assigned at line %d without save.n_%s_user_end in the same block: saver() then copies the result up to the end an earlier "
                                "SAVE or cell left there, over entries the calculation never names" % (kind, line, kind), file=g["file"], line=line, function=g["q"])
    if n < 40:
        R.anchor_missing(RULE, "only %d assignments of save.n_<kind>_user" % n)


def savernull_rule(P, R):
    """"SAVE writes the calculated result under the given numbers": saver() calls x<kind>_save(n) and then copies entry n to n+1..m.  A
    save function that returns early when the calculation has no entity of the kind (`if (use.Get_<kind>_ptr() == NULL) return`) has
    stored nothing, so entry n is whatever was there before: the block of saver() that makes the copies must be closed by the same test.
    (SAVE exchange 3-5 in a run without exchanger replaced EXCHANGE 4 by the old EXCHANGE 3.)"""
    RULE = "C14.savernull"
    R.rule(RULE, "saver(): copies of a saved entry over a range are made only under the test whose failure makes x<kind>_save store nothing", minimum=6)
    sv = P.one("Phreeqc::saver")

    def null_returns(fn):
        """getter names g such that the function starts with `if (use.g() == NULL) return`"""
        out = []
        for st in (fn["body"][2] if fn["body"][0] == "Compound" else []):
            if T.is_node(st) and st[0] == "If":
                c = T.strip_casts(st[2])
                body = st[3]
                body = body[2][0] if T.is_node(body) and body[0] == "Compound" and len(body[2]) == 1 else body
                if T.is_node(c) and c[0] == "Bin" and c[2] == "==" and T.is_node(body) and body[0] == "Return":
                    for side in (c[3], c[4]):
                        x = T.strip_casts(side)
                        if T.is_node(x) and x[0] == "Call" and T.callee_name(x).startswith("Get_") and T.callee_name(x).endswith("_ptr"):
                            out.append(T.callee_name(x))
        return out
    n = 0
    for blk in (sv["body"][2] if sv["body"][0] == "Compound" else []):
        if not (T.is_node(blk) and blk[0] == "If"):
            continue
        savers = [c for c in T.calls(blk[3]) if T.callee_q(c).startswith("Phreeqc::x") and T.callee_q(c).endswith("_save")]
        copies = [c for c in T.calls(blk[3]) if T.callee_name(c) in ("Rxn_copy", "Rxn_copies")]
        if not copies:
            continue
        n += 1
        if not savers:
            R.ok(RULE, "block@%d" % (blk[1] - sv["line"]), "copies an entity found by Rxn_find (no x<kind>_save in the block)")
            continue
        q = T.callee_q(savers[0])
        inst = q.split("::")[-1]
        fn = P.one(q)
        need = null_returns(fn)
        cond = "".join(T.text(blk[2], -40).split())
        missing = [g for g in need if not ("%s()!=" % g in cond.replace("use.", "").replace("this.", "") or "%s()!=" % g in cond)]
        if missing:
            R.violation(RULE, inst, "%s returns without storing when use.%s() is NULL, but saver() copies entry n over the rest of the SAVE range (line %d) without that test: "
                        "the entries are replaced by the old content of entry n" % (inst, missing[0], copies[0][1]), file=sv["file"], line=blk[1], function=sv["q"])
        else:
            R.ok(RULE, inst, "guarded by %s" % (", ".join(need) if need else "nothing to guard: the save function always stores"))
    if n < 6:
        R.anchor_missing(RULE, "saver(): only %d blocks that copy a saved entry" % n)


def rangeorder_rule(P, R):
    """"definitions and number ranges create entries" - in the order of the input, as a keyed store does: `X 1-3` followed by `X 2` leaves
    entry 2 with the second definition.  That holds when the range n-m of a definition is expanded where the definition is read (the
    readers of REACTION, MIX, REACTION_TEMPERATURE, REACTION_PRESSURE).  An expansion that is deferred to the calculation phase runs
    after all input of the simulation has been read, in number order: the copy of entry 1 then replaces a later explicit definition of
    entry 2 of the same simulation, which is skipped afterwards (new_def false).  Every expansion whose end is a definition's
    Get_n_user_end() is located and classified by the function it is in."""
    RULE = "C14.rangeorder"
    R.rule(RULE, "the range n-m of a definition (end = Get_n_user_end()) is expanded by the reader of the definition, i.e. in input order", minimum=11)

    def from_def_end(fn, e):
        e = T.strip_casts(e)
        if not T.is_node(e):
            return False
        if e[0] == "Call":
            return T.callee_name(e) == "Get_n_user_end"
        if e[0] == "Ref" and e[2] == "local":
            for x in T.walk(fn["body"]):
                if x[0] == "Bin" and x[2] == "=" and T.is_node(T.strip_casts(x[3])) and T.strip_casts(x[3])[0] == "Ref" and T.strip_casts(x[3])[3] == e[3]:
                    if not from_def_end(fn, x[4]):
                        return False
                    found = True
            decl = [d for x in T.walk(fn["body"]) if x[0] == "Decl" for d in x[2] if d[0] == e[3] and d[2] is not None]
            assigned = [x for x in T.walk(fn["body"]) if x[0] == "Bin" and x[2] == "=" and T.is_node(T.strip_casts(x[3])) and T.strip_casts(x[3])[0] == "Ref"
                        and T.strip_casts(x[3])[3] == e[3]]
            srcs = [d[2] for d in decl] + [x[4] for x in assigned]
            return bool(srcs) and all(T.is_node(T.strip_casts(y)) and T.strip_casts(y)[0] == "Call" and T.callee_name(T.strip_casts(y)) == "Get_n_user_end" for y in srcs)
        return False

    def map_name(a):
        a = T.strip_casts(a)
        t = T.text(a)
        return t.split(".")[-1].split("->")[-1]
    n = 0
    for k, g in sorted(P.functions.items(), key=lambda kv: kv[1]["q"]):
        if not g.get("body") or not g["q"].startswith("Phreeqc::"):
            continue
        sites = []
        for c in T.calls(g["body"]):
            if T.callee_name(c) == "Rxn_copies" and len(c[4]) == 3 and from_def_end(g, c[4][2]):
                sites.append((map_name(c[4][0]), c[1]))
        for lp in T.walk(g["body"]):
            if lp[0] == "For" and T.is_node(lp[3]) and lp[3][0] == "Bin" and lp[3][2] in ("<=", "<") and from_def_end(g, lp[3][4]):
                for c in T.calls(lp[5]):
                    if T.callee_name(c) == "Rxn_copy":
                        sites.append((map_name(c[4][0]), c[1]))
                    elif T.callee_name(c) == "operator[]" and "_map" in T.text(c[4][0] if c[4] else c[3]):
                        sites.append((map_name(c[4][0] if c[4] else c[3]), c[1]))
        for m, line in sorted(set(sites)):
            n += 1
            fname = g["q"].split("::")[-1]
            inst = "%s:%s" % (m, fname)
            if fname.startswith("read_"):
                R.ok(RULE, inst, "expanded by the reader (line %d): input order" % line)
            else:
                R.violation(RULE, inst, "the range of a %s definition is expanded in %s (line %d), after all input of the simulation has been read and in number order: `X 1-3` followed "
                            "by `X 2` in one simulation loses the second definition" % (m.replace("Rxn_", "").replace("_map", ""), fname, line),
                            file=g["file"], line=line, function=g["q"])


WHOLECLEAR_OWNERS = {"Phreeqc::clean_up": "end of the instance / database reload: everything goes",
                     "Phreeqc::reinitialize": "explicit reset of the reaction state between runs (same set of stores)",
                     "Phreeqc::delete_entities": "DELETE -<kind> without numbers (or -all): the input names the whole store; the branch is the `numbers.size() == 0` case"}


def wholeclear_rule(P, R):
    """"DELETE removes exactly the named entries" - and nothing else removes entries the input did not name.  Census of `.clear()` on the
    eleven keyed stores Rxn_<kind>_map (the *_mix_map request lists are not stores): only the functions that reset the whole instance may
    empty a store.  (transport() and transport_cleanup() emptied Rxn_mix_map to make room for the recipes of a stagnant column: a MIX 100
    that names no cell of the column was lost.)"""
    RULE = "C14.wholeclear"
    R.rule(RULE, "a keyed store Rxn_<kind>_map is emptied as a whole only by the functions that reset the instance", minimum=20)
    import re as _re
    n = 0
    for k, g in sorted(P.functions.items(), key=lambda kv: (kv[1]["file"], kv[1]["line"])):
        if not g.get("body"):
            continue
        for c in T.calls(g["body"]):
            if T.callee_name(c) != "clear" or T.call_obj(c) is None:
                continue
            ms = [y[2].split("::")[-1] for y in T.walk(T.call_obj(c)) if y[0] == "Member" and _re.match(r"Phreeqc::Rxn_\w+_map$", y[2]) and not _re.match(r"Phreeqc::Rxn_\w+_mix_map$", y[2])]
            if not ms:
                continue
            n += 1
            inst = "%s:%s@%d" % (g["q"].split("::")[-1], ms[0], c[1] - g["line"])
            if g["q"] in WHOLECLEAR_OWNERS:
                R.ok(RULE, inst, WHOLECLEAR_OWNERS[g["q"]])
            else:
                R.violation(RULE, inst, "%s empties the whole store %s: entries that the calculation does not own (numbers the input never named for it) are deleted without a "
                            "message" % (g["q"], ms[0]), file=g["file"], line=c[1], function=g["q"])
    if n < 20:
        R.anchor_missing(RULE, "only %d whole-store clears found (the reset functions alone have 22)" % n)


def modifydesc_rule(P, R):
    """"*_MODIFY changes only the named quantities of the named entry": the read_raw functions take number AND description from the header
    line of the block, so after read_raw the entry has the description of the MODIFY line - empty in the normal case.  Rxn_read_modify
    (one instantiation per kind) must therefore keep the description the entry had before read_raw and put it back when the block gives
    none: a local initialised from Get_description() before the read_raw call that reaches Set_description after it."""
    RULE = "C14.modifydesc"
    R.rule(RULE, "Rxn_read_modify<kind>: the description the entry had before read_raw is restored when the MODIFY block gives none", minimum=10)
    n = 0
    for k, g in sorted(P.functions.items(), key=lambda kv: kv[1]["q"]):
        if not g.get("body") or not (g["q"].startswith("Utilities::Rxn_read_modify<") or g["q"].startswith("Utilities::SB_read_modify<")):
            continue
        n += 1
        inst = g["q"].split("::")[-1]
        reads = [c[1] for c in T.calls(g["body"]) if T.callee_name(c) == "read_raw"]
        sets = [c for c in T.calls(g["body"]) if T.callee_name(c) == "Set_description"]
        if not reads or not sets:
            R.anchor_missing(RULE, "%s: read_raw / Set_description not found" % inst)
            continue
        last_read = max(reads)
        saved = {d[0] for x in T.walk(g["body"]) if x[0] == "Decl" and x[1] < last_read for d in x[2]
                 if d[2] is not None and any(T.callee_name(c) == "Get_description" for c in T.calls(d[2]))
                 and not any(y[0] == "Ref" and y[3] == "nk" for y in T.walk(d[2]))}
        ok = any(c[1] > last_read and any(y[0] == "Ref" and y[3] in saved for a in c[4] for y in T.walk(a)) for c in sets)
        if ok:
            R.ok(RULE, inst, "description saved before read_raw (%s) and restored" % ", ".join(sorted(saved)))
        else:
            R.violation(RULE, inst, "%s sets the description from the MODIFY line only (read_raw has already overwritten it): a block without description erases the "
                        "description of the entry" % inst, file=g["file"], line=sets[-1][1], function=g["q"])
    if n < 10:
        R.anchor_missing(RULE, "only %d instantiations of Rxn_read_modify found" % n)


def modifynew_rule(P, R):
    """"The component list reported to the caller contains every element present in any defined reactant" - also after a *_MODIFY block that
    adds a component.  The derived element lists (eltList, totals) are recomputed by the tidy_* functions, which walk only the numbers in
    the Rxn_new_<kind> sets.  Rxn_read_modify<kind> receives that set as its second parameter and must insert the number of the entry it
    has just changed, after read_raw, on the path where the entry exists - otherwise the entry keeps the lists of its former content."""
    RULE = "C14.modifynew"
    R.rule(RULE, "Rxn_read_modify<kind> registers the modified entry in the Rxn_new_<kind> set it was given", minimum=10)
    n = 0
    for k, g in sorted(P.functions.items(), key=lambda kv: kv[1]["q"]):
        if not g.get("body") or not g["q"].startswith("Utilities::Rxn_read_modify<"):
            continue
        n += 1
        inst = g["q"].split("::")[-1]
        setp = g["pnames"][1] if len(g.get("pnames", [])) > 1 else None
        reads = [c[1] for c in T.calls(g["body"]) if T.callee_name(c) == "read_raw"]
        ins = [c for c in T.calls(g["body"]) if T.callee_name(c) == "insert" and T.call_obj(c) is not None and T.is_node(T.strip_casts(T.call_obj(c)))
               and T.strip_casts(T.call_obj(c))[0] == "Ref" and T.strip_casts(T.call_obj(c))[3] == setp
               and any(T.callee_name(y) == "Get_n_user" for a in c[4] for y in T.calls(a))]
        if setp is None or not reads:
            R.anchor_missing(RULE, "%s: set parameter / read_raw not found" % inst)
            continue
        if any(c[1] > max(reads) for c in ins):
            R.ok(RULE, inst, "%s.insert(entity number) after read_raw" % setp)
        else:
            R.violation(RULE, inst, "%s does not insert the modified entry into the set `%s` (Rxn_new_<kind>): tidy_* skips the entry, its element list and the component list "
                        "keep the former content" % (inst, setp), file=g["file"], line=max(reads), function=g["q"])
    if n < 10:
        R.anchor_missing(RULE, "only %d instantiations of Rxn_read_modify found" % n)


def rawrange_rule(P, R):
    """"definitions and number ranges create entries": Rxn_read_raw<kind> expands `X_RAW n-m` into the entries n..m when it is read.  Once the
    copies exist the range is spent: the entry stored under n must not keep the range end m, because later expansion steps trust it -
    tidy_model's "Duplicate kinetics" walks the WHOLE kinetics store whenever any KINETICS is defined and copied entry n over n+1..m
    again, reverting a later KINETICS_MODIFY of entry n+1 and resurrecting a deleted entry m.  After the Rxn_copies call the function must
    reset the range end of the stored entry (Set_n_user_end with the entry's own number)."""
    RULE = "C14.rawrange"
    R.rule(RULE, "Rxn_read_raw<kind>: after the range of a RAW block has been expanded, the stored first entry gets its range end reset", minimum=11)
    n = 0
    for k, g in sorted(P.functions.items(), key=lambda kv: kv[1]["q"]):
        if not g.get("body") or not g["q"].startswith("Utilities::Rxn_read_raw<"):
            continue
        n += 1
        inst = g["q"].split("::")[-1]
        cps = [c[1] for c in T.calls(g["body"]) if T.callee_name(c) == "Rxn_copies"]
        if not cps:
            R.anchor_missing(RULE, "%s: no Rxn_copies call" % inst)
            continue
        resets = [c for c in T.calls(g["body"]) if T.callee_name(c) in ("Set_n_user_end", "Set_n_user_both") and c[1] > min(cps)
                  and any(T.callee_name(y) == "Get_n_user" for a in c[4] for y in T.calls(a))]
        if resets:
            R.ok(RULE, inst, "range end reset at line %d" % resets[0][1])
        else:
            R.violation(RULE, inst, "%s expands the range of a RAW block and leaves the range end on the stored first entry: a later whole-store expansion (tidy_model, "
                        "Duplicate kinetics) copies it over the following entries again" % inst, file=g["file"], line=min(cps), function=g["q"])
    if n < 11:
        R.anchor_missing(RULE, "only %d instantiations of Rxn_read_raw found" % n)


def mixorder_rule(P, R):
    """"*_MIX ... read the current content": the *_MIX blocks of a simulation are requests that are carried out after the input has been
    read, like COPY.  COPY keeps its requests in vectors and runs them in the order of the input; the *_MIX requests are kept in
    Rxn_<kind>_mix_map.  A container that is ordered by the target number cannot reproduce the input order: `SOLUTION_MIX 3 <- 2` followed by
    `SOLUTION_MIX 2 <- 1` runs 2 := 1 first, and solution 3 becomes a copy of solution 1.  The member types are read from class Phreeqc."""
    RULE = "C14.mixorder"
    R.rule(RULE, "the pending *_MIX requests are kept in a container that preserves the order of the input", minimum=7)
    rec = P.records.get("Phreeqc")
    n = 0
    for fld in rec["fields"]:
        nm = fld["name"]
        if not (nm.startswith("Rxn_") and nm.endswith("_mix_map")) or nm == "Rxn_mix_map":      # Rxn_mix_map is the MIX store itself
            continue
        n += 1
        ty = fld["type"]
        if ty.replace(" ", "").startswith("std::map<int,"):
            R.violation(RULE, nm, "%s is a %s: the requests of one simulation are carried out in the order of their target numbers, not of the input (a request that reads an "
                        "entry which an earlier block of the same simulation was to replace sees the wrong content)" % (nm, ty), file=rec["file"], line=fld.get("line", rec["line"]))
        else:
            R.ok(RULE, nm, ty[:60])
    if n < 7:
        R.anchor_missing(RULE, "only %d *_mix_map members found in class Phreeqc" % n)
